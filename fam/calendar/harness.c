/* calendar: chrono civil calendar against the proleptic Gregorian calendar — C11.
 * The reference spec_days() is the textbook table form (365*y + y/4 - y/100 + y/400 with floor division + cumulative month table),
 * written independently of the era/yoe/doy/mp algorithm in year_month_day.hpp; two loop-free lemmas pin it to the calendar
 * (1970-01-01 -> 0 and "next day -> +1" for every existing date), so agreement with spec_days is agreement with std::chrono. */
#include "vf_handler.h"
/* all quantities fit 32 bits; floor division by a positive constant is done on a value shifted to be non-negative so that every
 * division in the specification is an unsigned 32-bit division by a constant (cheap for the SAT back end) */
static int fdivc(int a, int b, int k) { return (int)(((unsigned)(a + b * k)) / (unsigned)b) - k; }        /* floor(a / b) for a >= -b*k */
static int fmodc(int a, int b, int k) { return (int)(((unsigned)(a + b * k)) % (unsigned)b); }             /* a mod b in [0,b) for a >= -b*k */
static _Bool s_leap(int y) { int q = y + 32800; return ((unsigned)q % 4u) == 0 && (((unsigned)q % 100u) != 0 || ((unsigned)q % 400u) == 0); }   /* 32800 = 82*400 */
static unsigned s_last(int y, unsigned m) { return m == 2 ? (s_leap(y) ? 29u : 28u) : ((m == 4 || m == 6 || m == 9 || m == 11) ? 30u : 31u); }
static int s_cum(unsigned m) { return m == 1 ? 0 : m == 2 ? 31 : m == 3 ? 59 : m == 4 ? 90 : m == 5 ? 120 : m == 6 ? 151 : m == 7 ? 181 : m == 8 ? 212 : m == 9 ? 243 : m == 10 ? 273 : m == 11 ? 304 : 334; }
static int spec_days(int y, unsigned m, unsigned d) { unsigned q = (unsigned)(y - 1 + 32800);      /* >= 31 */
  return 365 * (y - 1) + ((int)(q / 4u) - 8200) - ((int)(q / 100u) - 328) + ((int)(q / 400u) - 82) + s_cum(m) + ((m > 2 && s_leap(y)) ? 1 : 0) + (int)d - 1 - 719162; }
static _Bool s_exists(int y, unsigned m, unsigned d) { return y >= -32767 && y <= 32767 && m >= 1 && m <= 12 && d >= 1 && d <= s_last(y, m); }
#define ZMIN (-12687428)   /* -32767-01-01 */
#define ZMAX 11248737      /*  32767-12-31 */

/*@GROUP name=spec_is_gregorian props=C11 kind=F solver=kissat timeout=1500 cost=9 tier=thorough@*/
void h_spec_is_gregorian(void) { VF_INPUT(short, y); VF_INPUT(unsigned char, m); VF_INPUT(unsigned char, d); __CPROVER_assume(s_exists(y, m, d));
  VF_ASSERT(spec_days(1970, 1, 1) == 0 && spec_days(2000, 3, 1) == 11017 && spec_days(-32767, 1, 1) == ZMIN && spec_days(32767, 12, 31) == ZMAX, "spec: anchors (1970-01-01 is day 0)");
  int ny = y; unsigned nm = m, nd = d + 1u; if (nd > s_last(y, m)) { nd = 1; nm = m + 1u; if (nm > 12) { nm = 1; ny = y + 1; } }
  if (ny <= 32767) VF_ASSERT(spec_days(ny, nm, nd) == spec_days(y, m, d) + 1, "spec: the naive successor date (day+1, roll month, roll year, leap rule) is exactly one day later");
  VF_REACH(); }

/*@GROUP name=era props=C11,C02 kind=S split=ERA:-87:76 qsplit=-87,-5,0,76 solver=kissat timeout=600 cost=5@*/
void h_era(void) { VF_INPUT(int, z); __CPROVER_assume(z >= (long)ERA * 146097 && z < ((long)ERA + 1) * 146097 && z >= ZMIN && z <= ZMAX);
  int y; unsigned m, d; ymd_from_days(z, &y, &m, &d);
  VF_ASSERT(s_exists(y, m, d), "civil_from_days yields an existing date inside the year range");
  VF_ASSERT(ymd_ok(y, m, d), "the produced date is ok()");
  VF_ASSERT(spec_days(y, m, d) == z, "civil_from_days agrees with the proleptic Gregorian calendar");
  VF_ASSERT(days_from_ymd(y, m, d) == z && days_from_ymd_local(y, m, d) == z, "sys_days{year_month_day{sys_days{z}}} == z (round trip)");
  VF_ASSERT(wd_from_days(z) == (unsigned)fmodc(z + 4, 7, 2000000), "weekday{sys_days{z}} == (z + 4) mod 7 (1970-01-01 is a Thursday)");
  VF_REACH(); }

/*@GROUP name=days_from_civil props=C11,C02 kind=F solver=kissat timeout=2400 cost=8 tier=thorough@*/
void h_days_from_civil(void) { VF_INPUT(short, y); VF_INPUT(unsigned char, m); VF_INPUT(unsigned char, d); __CPROVER_assume(s_exists(y, m, d));
  VF_ASSERT(days_from_ymd(y, m, d) == spec_days(y, m, d), "days_from_civil == proleptic Gregorian day count for every existing date of every year");
  VF_REACH(); }

/*@GROUP name=ok props=C11,C02 kind=F solver=kissat@*/
void h_ok(void) { VF_INPUT(short, y); VF_INPUT(unsigned char, m); VF_INPUT(unsigned char, d); VF_INPUT(unsigned, w); VF_INPUT(unsigned, i); __CPROVER_assume(m <= 254 && d <= 254);
  VF_ASSERT(ymd_ok(y, m, d) == s_exists(y, m, d), "year_month_day::ok() is true exactly for dates that exist");
  VF_ASSERT(year_is_leap(y) == s_leap(y), "year::is_leap is the Gregorian rule (also for negative years)");
  VF_ASSERT(year_ok(y) == (y != -32768) && month_ok(m) == (m >= 1 && m <= 12) && day_ok(d) == (d >= 1 && d <= 31), "year/month/day ok()");
  if (m >= 1 && m <= 12 && y != -32768) { VF_ASSERT(ymdl_day(y, m) == s_last(y, m), "year_month_day_last::day() == last day of that month"); VF_ASSERT(ymdl_ok(y, m), "year_month_day_last ok"); }
  VF_ASSERT(md_ok(m, d) == (m >= 1 && m <= 12 && d >= 1 && d <= (m == 2 ? 29u : s_last(1, m))), "month_day::ok(): February allows 29");
  __CPROVER_assume(w <= 255 && i <= 255);
  VF_ASSERT(wdi_ok(w, i) == ((w <= 7) && i >= 1 && i <= 5), "weekday_indexed::ok() iff weekday ok and 1 <= index <= 5");
  VF_REACH(); }

/*@GROUP name=weekday props=C11,C02 kind=B bound=|delta|<=100000 solver=kissat@*/
void h_weekday(void) { VF_INPUT(unsigned, w); VF_INPUT(unsigned, v); VF_INPUT(int, d); __CPROVER_assume(w <= 7 && v <= 7 && d >= -100000 && d <= 100000); unsigned w0 = w == 7 ? 0 : w, v0 = v == 7 ? 0 : v;
  VF_ASSERT(wd_ctor(w) == w0 && wd_iso(w) == (w0 == 0 ? 7u : w0) && wd_ok(w), "weekday(7) is Sunday; encodings");
  VF_ASSERT(wd_diff(w, v) == fmodc((int)w0 - (int)v0, 7, 2), "weekday - weekday is in [0,6]");
  VF_ASSERT(wd_inc(w) == (w0 + 1) % 7 && wd_dec(w) == (w0 + 6) % 7, "++/-- wrap around the week");
  VF_KNOWN(C11_weekday_plus_negative, (int)w0 + d < 0);
  VF_ASSERT(wd_plus(w, d) == (unsigned)fmodc((int)w0 + d, 7, 20000), "weekday + days is floor-modulo 7 for every delta");
  VF_KNOWN(C11_weekday_minus_negative, (int)w0 - d < 0);
  VF_ASSERT(wd_minus(w, d) == (unsigned)fmodc((int)w0 - d, 7, 20000), "weekday - days is floor-modulo 7 for every delta");
  VF_REACH(); }

/*@GROUP name=weekday_compound props=C11,C02 kind=B bound=|delta|<=100000 solver=kissat@*/
void h_weekday_compound(void) { VF_INPUT(unsigned, w); VF_INPUT(int, d); __CPROVER_assume(w <= 7 && d >= -100000 && d <= 100000); unsigned w0 = w == 7 ? 0 : w;
  VF_KNOWN(C11_weekday_compound_wraps, (int)w0 + d < 0 || (int)w0 + d > 255);
  VF_ASSERT(wd_plus_eq(w, d) == (unsigned)fmodc((int)w0 + d, 7, 20000), "weekday += days is floor-modulo 7");
  VF_KNOWN(C11_weekday_compound_wraps, (int)w0 - d < 0 || (int)w0 - d > 255);
  VF_ASSERT(wd_minus_eq(w, d) == (unsigned)fmodc((int)w0 - d, 7, 20000), "weekday -= days is floor-modulo 7");
  VF_REACH(); }

/*@GROUP name=month props=C11,C02 kind=B bound=|delta|<=100000 solver=kissat@*/
void h_month(void) { VF_INPUT(unsigned, m); VF_INPUT(unsigned, n); VF_INPUT(int, d); __CPROVER_assume(m >= 1 && m <= 12 && n >= 1 && n <= 12 && d >= -100000 && d <= 100000);
  VF_ASSERT(month_plus(m, d) == (unsigned)fmodc((int)m - 1 + d, 12, 10000) + 1, "month + months is floor-modulo 12 for every delta");
  VF_ASSERT(month_minus(m, d) == (unsigned)fmodc((int)m - 1 - d, 12, 10000) + 1, "month - months is floor-modulo 12 for every delta");
  VF_ASSERT(month_inc(m) == m % 12 + 1 && month_dec(m) == (m + 10) % 12 + 1, "++/-- wrap around the year");
  VF_ASSERT(month_diff(m, n) == fmodc((int)m - (int)n, 12, 2), "month - month is in [0,11]");
  VF_REACH(); }

/*@GROUP name=year_day props=C11,C02 kind=F solver=kissat@*/
void h_year_day(void) { VF_INPUT(short, y); VF_INPUT(short, x); VF_INPUT(int, dy); VF_INPUT(unsigned char, a); VF_INPUT(unsigned char, b); VF_INPUT(int, dd);
  __CPROVER_assume(dy >= -70000 && dy <= 70000);
  if ((long)y + dy >= -32767 && (long)y + dy <= 32767) VF_ASSERT(year_plus(y, dy) == y + dy, "year + years");
  if ((long)y - dy >= -32767 && (long)y - dy <= 32767) VF_ASSERT(year_minus(y, dy) == y - dy, "year - years");
  VF_ASSERT(year_diff(y, x) == (int)y - (int)x, "year - year");
  __CPROVER_assume(dd >= -300 && dd <= 300);
  __CPROVER_assume(a <= 254 && b <= 254);
  if ((int)a + dd >= 0 && (int)a + dd <= 254) VF_ASSERT(day_plus(a, dd) == (unsigned)((int)a + dd), "day + days");
  if ((int)a - dd >= 0 && (int)a - dd <= 254) VF_ASSERT(day_minus(a, dd) == (unsigned)((int)a - dd), "day - days");
  VF_ASSERT(day_diff(a, b) == (int)a - (int)b, "day - day");
  VF_REACH(); }

/*@GROUP name=year_month props=C11,C02 kind=B bound=|months|<=100000 cost=6 solver=kissat@*/
void h_year_month(void) { VF_INPUT(short, y); VF_INPUT(unsigned, m); VF_INPUT(unsigned, d); VF_INPUT(int, dm); VF_INPUT(int, dy); __CPROVER_assume(m >= 1 && m <= 12 && d >= 1 && d <= 31 && y != -32768);
  __CPROVER_assume(dm >= -100000 && dm <= 100000 && dy >= -70000 && dy <= 70000);
  int t = (int)y * 12 + (int)(m - 1) + dm, ey = fdivc(t, 12, 50000); unsigned em = (unsigned)fmodc(t, 12, 50000) + 1; int t2 = (int)y * 12 + (int)(m - 1) - dm, ey2 = fdivc(t2, 12, 50000); unsigned em2 = (unsigned)fmodc(t2, 12, 50000) + 1;
  int yo; unsigned mo, d_o;
  VF_KNOWN(C11_year_month_no_carry, ey != y || ey2 != y);
  if (ey >= -32767 && ey <= 32767) { ym_plus_months(y, m, dm, &yo, &mo); VF_ASSERT(yo == ey && mo == em, "year_month + months carries into the year by floor division");
    ymd_plus_months(y, m, d, dm, &yo, &mo, &d_o); VF_ASSERT(yo == ey && mo == em && d_o == d, "year_month_day + months keeps the day field");
    ymdl_plus_months(y, m, dm, &yo, &mo); VF_ASSERT(yo == ey && mo == em, "year_month_day_last + months"); }
  if (ey2 >= -32767 && ey2 <= 32767) { ym_minus_months(y, m, dm, &yo, &mo); VF_ASSERT(yo == ey2 && mo == em2, "year_month - months borrows from the year by floor division");
    ymd_minus_months(y, m, d, dm, &yo, &mo, &d_o); VF_ASSERT(yo == ey2 && mo == em2 && d_o == d, "year_month_day - months"); }
  if ((int)y + dy >= -32767 && (int)y + dy <= 32767) { ym_plus_years(y, m, dy, &yo, &mo); VF_ASSERT(yo == y + dy && mo == m, "year_month + years");
    ymd_plus_years(y, m, d, dy, &yo, &mo, &d_o); VF_ASSERT(yo == y + dy && mo == m && d_o == d, "year_month_day + years"); }
  VF_REACH(); }

/*@COMMON@*/
/* ---- every mutating / binary operator of the civil classes, read back through EVERY accessor --------------------------------
 * Reference ([time.cal.ym.nonmembers] "z.ok() && z - ym == dm", [time.cal.ymd.*], [time.cal.ymdlast.*], [time.cal.ymwd.*]), stated as
 * the defining RELATION (no division): the result (ry, rm) of adding dm months to (y, m) is the unique pair with 1 <= rm <= 12 and
 * 12*ry + (rm-1) == 12*y + (m-1) + dm; years move the year field only; day / weekday / index fields are carried unchanged;
 * year_month_day_last::day() is ALWAYS the last day of its CURRENT year/month. Once the relation is established for the accessors
 * (asserted, then assumed as a cut) the derived facts (ok(), day(), conversions) are stated over those values.
 * Objects are arbitrary field values fed through the class's (field-storing) constructor; operator codes: see driver.cpp.
 * Each harness exists twice: a quick one over a window of years / deltas (kind B) and a thorough one over the full domain (kind F);
 * there AWIN is implied by "operands and result inside the year range" (at most 65534*12+11 months apart): it is not a bound. */
#define AWIN(a) ((a) >= -800000 && (a) <= 800000)
#define QWIN(a) ((a) >= -1200 && (a) <= 1200)
#define QYEAR(y) ((y) >= -4000 && (y) <= 4000)
#define TIN(t) ((t) >= -32767 * 12 && (t) <= 32767 * 12 + 11)          /* linear month count of a year_month inside the year range */
static int s_dm(unsigned op, int a) { return op == 0 ? a : op == 1 ? -a : op == 2 ? 12 * a : op == 3 ? -12 * a : 0; }   /* 0 += months 1 -= months 2 += years 3 -= years */
static _Bool s_is(int t, int ry, int rm) { return rm >= 1 && rm <= 12 && 12 * ry + rm - 1 == t; }                      /* (ry, rm) is the year_month with linear month count t */
/* (ry, rm) is the result of compound operator op with argument a on (y, m) */
static _Bool s_res(int y, int m, unsigned op, int a, int ry, int rm) { return op == 2 ? (ry == y + a && rm == m) : op == 3 ? (ry == y - a && rm == m) : s_is(12 * y + m - 1 + (op == 0 ? a : -a), ry, rm); }
static unsigned s_binop(unsigned form) { return form <= 1 ? 0u : form == 2 ? 1u : form <= 4 ? 2u : 3u; }   /* binary form -> compound code */
/* x op1= a1; x op2= a2 from an arbitrary valid year/month part; both intermediate results inside the year range */
#define SEQ_INPUTS(WIN) VF_INPUT(short, y); VF_INPUT(unsigned char, m); VF_INPUT(unsigned char, op1); VF_INPUT(unsigned char, op2); VF_INPUT(int, a1); VF_INPUT(int, a2); \
  __CPROVER_assume(y != -32768 && m >= 1 && m <= 12 && op1 <= 3 && op2 <= 3 && AWIN(a1) && AWIN(a2) && (WIN)); \
  int t1 = 12 * y + (int)m - 1 + s_dm(op1, a1); __CPROVER_assume(TIN(t1)); int t2 = t1 + s_dm(op2, a2); __CPROVER_assume(TIN(t2)); \
  int p[12] = {0}, o[12] = {0}
#define SEQ_QUICK (QYEAR(y) && QWIN(a1) && QWIN(a2))
#define BIN_INPUTS(WIN) VF_INPUT(short, y); VF_INPUT(unsigned char, m); VF_INPUT(unsigned char, f); VF_INPUT(int, a); \
  __CPROVER_assume(y != -32768 && m >= 1 && m <= 12 && f <= 5 && AWIN(a) && (WIN)); \
  int t = 12 * y + (int)m - 1 + s_dm(s_binop(f), a); __CPROVER_assume(TIN(t)); \
  int o[12] = {0}
#define BIN_QUICK (QYEAR(y) && QWIN(a))

#define BODY_COMPOUND_YM \
  ym_cseq(y, m, op1, a1, op2, a2, p, o); \
  VF_ASSERT(s_res(y, m, op1, a1, p[0], p[1]), "year_month: x op= a for every compound operator (+=/-= months, +=/-= years): year() and month()"); \
  VF_ASSERT(p[2] == 1 && p[11] == 1, "year_month: ok() after a compound operator that stays inside the year range; the operator returns *this"); \
  __CPROVER_assume(s_res(y, m, op1, a1, p[0], p[1]));   /* cut: proved just above */ \
  VF_ASSERT(s_res(p[0], p[1], op2, a2, o[0], o[1]), "year_month: a SECOND compound operator applied to the result of the first: year() and month()"); \
  VF_ASSERT(o[2] == 1 && o[11] == 1, "year_month: ok() / returned reference after the second compound operator")

#define BODY_COMPOUND_YMD(DAYS) \
  ymd_cseq(y, m, d, op1, a1, op2, a2, DAYS, p, o); \
  VF_ASSERT(s_res(y, m, op1, a1, p[0], p[1]) && p[2] == (int)d, "year_month_day: x op= a for every compound operator: year()/month(), day() kept"); \
  __CPROVER_assume(s_res(y, m, op1, a1, p[0], p[1])); \
  VF_ASSERT(p[3] == s_exists(p[0], (unsigned)p[1], d) && p[11] == 1, "year_month_day: ok() after a compound operator is true exactly if the resulting date exists (Jan 31 += 1 month does not); returns *this"); \
  VF_ASSERT(s_res(p[0], p[1], op2, a2, o[0], o[1]) && o[2] == (int)d, "year_month_day: a SECOND compound operator applied to the result of the first: year()/month()/day()"); \
  __CPROVER_assume(s_res(p[0], p[1], op2, a2, o[0], o[1])); \
  VF_ASSERT(o[3] == s_exists(o[0], (unsigned)o[1], d) && o[11] == 1, "year_month_day: ok() / returned reference after the second compound operator"); \
  if ((DAYS) && s_exists(o[0], (unsigned)o[1], d)) VF_ASSERT(o[4] == days_from_ymd(o[0], (unsigned)o[1], d) && o[5] == o[4], "year_month_day: sys_days / local_days after two compound operators are those of the civil date read back (days_from_civil: group days_from_civil)")

#define BODY_COMPOUND_YMDL(DAYS) \
  ymdl_cseq(y, m, op1, a1, op2, a2, DAYS, p, o); \
  VF_ASSERT(s_res(y, m, op1, a1, p[0], p[1]) && p[4] == p[1], "year_month_day_last: x op= a for every compound operator: year(), month(), month_day_last().month()"); \
  __CPROVER_assume(s_res(y, m, op1, a1, p[0], p[1])); \
  VF_ASSERT(p[2] == (int)s_last(p[0], (unsigned)p[1]), "year_month_day_last: day() after a compound operator is the last day of the NEW year/month (leap rule of the new year)"); \
  VF_ASSERT(p[3] == 1 && p[5] == 1 && p[11] == 1, "year_month_day_last: ok() after a compound operator; returns *this"); \
  VF_ASSERT(p[6] == p[0] && p[7] == p[1] && p[8] == (int)s_last(p[0], (unsigned)p[1]) && p[9] == 1, "year_month_day{year_month_day_last} after a compound operator is the existing date y/m/last"); \
  VF_ASSERT(s_res(p[0], p[1], op2, a2, o[0], o[1]) && o[4] == o[1], "year_month_day_last: a SECOND compound operator applied to the result of the first: year(), month()"); \
  __CPROVER_assume(s_res(p[0], p[1], op2, a2, o[0], o[1])); \
  VF_ASSERT(o[2] == (int)s_last(o[0], (unsigned)o[1]), "year_month_day_last: day() after the second compound operator is the last day of the final year/month"); \
  VF_ASSERT(o[3] == 1 && o[5] == 1 && o[11] == 1, "year_month_day_last: ok() / returned reference after the second compound operator"); \
  _Bool conv = o[6] == o[0] && o[7] == o[1] && o[8] == (int)s_last(o[0], (unsigned)o[1]); \
  VF_ASSERT(conv && o[9] == 1, "year_month_day{year_month_day_last} after the second compound operator"); \
  __CPROVER_assume(conv); \
  if (DAYS) VF_ASSERT(o[10] == days_from_ymd(o[0], (unsigned)o[1], s_last(o[0], (unsigned)o[1])), "sys_days{year_month_day{year_month_day_last}} after two compound operators is that of y/m/last as read back")

#define BODY_BINARY_YM_YMD(DAYS) \
  ym_bin(y, m, f, a, o); \
  VF_ASSERT(s_res(y, m, s_binop(f), a, o[0], o[1]) && o[2] == 1, "year_month: x + months, months + x, x - months, x + years, years + x, x - years"); \
  ymd_bin(y, m, d, f, a, DAYS, o); \
  VF_ASSERT(s_res(y, m, s_binop(f), a, o[0], o[1]) && o[2] == (int)d, "year_month_day: all six binary +/- forms: year()/month(), day() kept"); \
  __CPROVER_assume(s_res(y, m, s_binop(f), a, o[0], o[1])); \
  VF_ASSERT(o[3] == s_exists(o[0], (unsigned)o[1], d), "year_month_day: ok() of the sum is true exactly if that date exists"); \
  if ((DAYS) && s_exists(o[0], (unsigned)o[1], d)) VF_ASSERT(o[4] == days_from_ymd(o[0], (unsigned)o[1], d) && o[5] == o[4], "year_month_day: sys_days / local_days of the sum are those of the civil date read back")

#define BODY_BINARY_YMDL(DAYS) \
  ymdl_bin(y, m, f, a, DAYS, o); \
  VF_ASSERT(s_res(y, m, s_binop(f), a, o[0], o[1]) && o[4] == o[1], "year_month_day_last: x + months, months + x, x - months, x + years, years + x, x - years: year(), month(), month_day_last()"); \
  __CPROVER_assume(s_res(y, m, s_binop(f), a, o[0], o[1])); \
  VF_ASSERT(o[2] == (int)s_last(o[0], (unsigned)o[1]) && o[3] == 1 && o[5] == 1, "year_month_day_last: day() of the sum is the last day of the new year/month; ok()"); \
  _Bool conv = o[6] == o[0] && o[7] == o[1] && o[8] == (int)s_last(o[0], (unsigned)o[1]); \
  VF_ASSERT(conv && o[9] == 1, "year_month_day{year_month_day_last} of the sum is the existing date y/m/last"); \
  __CPROVER_assume(conv); \
  if (DAYS) VF_ASSERT(o[10] == days_from_ymd(o[0], (unsigned)o[1], s_last(o[0], (unsigned)o[1])), "sys_days of the sum is that of y/m/last as read back")

#define BODY_BINARY_YMW \
  unsigned w0 = w == 7 ? 0 : w; \
  ymw_bin(y, m, w, i, f, a, o); \
  VF_ASSERT(s_res(y, m, s_binop(f), a, o[0], o[1]), "year_month_weekday: x + months, months + x, x - months, x + years, years + x, x - years: year(), month()"); \
  VF_ASSERT(o[2] == (int)w0 && o[3] == (int)i && o[4] == (int)w0 && o[5] == (int)i, "year_month_weekday: weekday(), index(), weekday_indexed() are carried unchanged"); \
  if (i >= 1 && i <= 4) VF_ASSERT(o[6] == (w0 <= 6), "year_month_weekday: ok() of the sum for index 1..4 (every month has four of every weekday)"); \
  if (i == 0 || i >= 6) VF_ASSERT(o[6] == 0, "year_month_weekday: ok() of the sum is false for index 0 and index >= 6")

/*@GROUP name=compound_ym props=C11,C02 kind=B bound=|year|<=4000,|delta|<=1200 solver=kissat cost=3@*/
void h_compound_ym(void) { SEQ_INPUTS(SEQ_QUICK); BODY_COMPOUND_YM; VF_REACH(); }
/*@GROUP name=compound_ymd props=C11,C02 kind=B bound=|year|<=4000,|delta|<=1200 solver=kissat cost=3@*/
void h_compound_ymd(void) { SEQ_INPUTS(SEQ_QUICK); VF_INPUT(unsigned char, d); __CPROVER_assume(d <= 254); BODY_COMPOUND_YMD(1); VF_REACH(); }
/*@GROUP name=compound_ymdl props=C11,C02 kind=B bound=|year|<=4000,|delta|<=1200 solver=kissat cost=3@*/
void h_compound_ymdl(void) { SEQ_INPUTS(SEQ_QUICK); BODY_COMPOUND_YMDL(1); VF_REACH(); }
/*@GROUP name=binary_ym_ymd props=C11,C02 kind=B bound=|year|<=4000,|delta|<=1200 solver=kissat cost=3@*/
void h_binary_ym_ymd(void) { BIN_INPUTS(BIN_QUICK); VF_INPUT(unsigned char, d); __CPROVER_assume(d <= 254); BODY_BINARY_YM_YMD(1); VF_REACH(); }
/*@GROUP name=binary_ymdl props=C11,C02 kind=B bound=|year|<=4000,|delta|<=1200 solver=kissat cost=3@*/
void h_binary_ymdl(void) { BIN_INPUTS(BIN_QUICK); BODY_BINARY_YMDL(1); VF_REACH(); }
/*@GROUP name=binary_ymw props=C11,C02 kind=B bound=|year|<=4000,|delta|<=1200 solver=kissat cost=3@*/
void h_binary_ymw(void) { BIN_INPUTS(BIN_QUICK); VF_INPUT(unsigned char, w); VF_INPUT(unsigned char, i); BODY_BINARY_YMW; VF_REACH(); }

/*@GROUP name=compound_ym_full props=C11,C02 kind=F solver=kissat tier=thorough timeout=1800 cost=6@*/
void h_compound_ym_full(void) { SEQ_INPUTS(1); BODY_COMPOUND_YM; VF_REACH(); }
/*@GROUP name=compound_ymd_full props=C11,C02 kind=F solver=kissat tier=thorough timeout=1800 cost=8@*/
void h_compound_ymd_full(void) { SEQ_INPUTS(1); VF_INPUT(unsigned char, d); __CPROVER_assume(d <= 254); BODY_COMPOUND_YMD(1); VF_REACH(); }
/*@GROUP name=compound_ymdl_full props=C11,C02 kind=F solver=kissat tier=thorough timeout=1800 cost=8@*/
void h_compound_ymdl_full(void) { SEQ_INPUTS(1); BODY_COMPOUND_YMDL(1); VF_REACH(); }
/*@GROUP name=binary_ym_ymd_full props=C11,C02 kind=F solver=kissat tier=thorough timeout=1800 cost=6@*/
void h_binary_ym_ymd_full(void) { BIN_INPUTS(1); VF_INPUT(unsigned char, d); __CPROVER_assume(d <= 254); BODY_BINARY_YM_YMD(1); VF_REACH(); }
/*@GROUP name=binary_ymdl_full props=C11,C02 kind=F solver=kissat tier=thorough timeout=1800 cost=6@*/
void h_binary_ymdl_full(void) { BIN_INPUTS(1); BODY_BINARY_YMDL(1); VF_REACH(); }
/*@GROUP name=binary_ymw_full props=C11,C02 kind=F solver=kissat tier=thorough timeout=1800 cost=6@*/
void h_binary_ymw_full(void) { BIN_INPUTS(1); VF_INPUT(unsigned char, w); VF_INPUT(unsigned char, i); BODY_BINARY_YMW; VF_REACH(); }

/*@COMMON@*/
/* ---- ok() of every calendar class from the proleptic Gregorian rules; the weekday forms -------------------------------------------
 * A year is ok unless it is -32768, a month in 1..12, a day in 1..31, a weekday in 0..6 (weekday(7) IS Sunday), an index in 1..5.
 * The i-th weekday w0 of a month whose first day is weekday w1 falls on day 1 + ((w0 - w1) mod 7) + 7*(i-1); year_month_weekday is ok
 * exactly if that day exists in the month. w1 comes from the day count of the family's Gregorian reference spec_days (1970-01-01, a
 * Thursday, is day 0). */
static unsigned s_nth(unsigned w0, unsigned w1, unsigned i) { return 1u + (w0 + 7u - w1) % 7u + 7u * (i - 1u); }
static unsigned s_wd0(unsigned w) { return w == 7 ? 0u : w; }

/*@GROUP name=steps props=C11,C02 kind=F solver=kissat@*/
/* ++x, x++, --x, x--, x += a, x -= a (and unary -/+ of year): value afterwards, VALUE OF THE EXPRESSION (postfix: the old value), the
 * prefix / compound forms return *this, ok() afterwards; plus the commuted binary forms duration + x. */
void h_steps(void) { VF_INPUT(short, y); VF_INPUT(unsigned char, m); VF_INPUT(unsigned char, d); VF_INPUT(unsigned char, w); VF_INPUT(unsigned char, op); VF_INPUT(int, a);
  __CPROVER_assume(a >= -70000 && a <= 70000); int o[4] = {0};
  { __CPROVER_assume(op <= 7 && y != -32768);
    int ny = op == 0 || op == 1 ? y + 1 : op == 2 || op == 3 ? y - 1 : op == 4 ? y + a : op == 5 ? y - a : y;
    int ex = op == 1 || op == 3 || op == 7 ? y : op == 6 ? -y : ny;
    if (ny >= -32767 && ny <= 32767) { year_step(y, op, a, o);
      VF_ASSERT(o[0] == ny && o[3] == 1, "year: ++ -- += -= (prefix and postfix) change the year by exactly +-1 / +-a; unary - and + leave it alone; ok()");
      VF_ASSERT(o[1] == ex, "year: value of the expression: prefix/compound the new year, postfix the OLD year, -y the negated year, +y the year");
      VF_ASSERT(o[2] == 1, "year: prefix and compound operators return *this");
      if (op == 4) VF_ASSERT(year_plus_c(y, a) == ny, "years + year"); } }
  if (op <= 5 && m >= 1 && m <= 12) { int am = a; __CPROVER_assume(am >= -60000);
    unsigned nm = op <= 1 ? m % 12u + 1u : op <= 3 ? (m + 10u) % 12u + 1u : (unsigned)fmodc((int)m - 1 + (op == 4 ? am : -am), 12, 10000) + 1u;
    month_step(m, op, am, o);
    VF_ASSERT(o[0] == (int)nm && o[3] == 1, "month: ++ -- += -= (prefix and postfix) are modulo-12 arithmetic on 1..12; the result is ok()");
    VF_ASSERT(o[1] == (int)(op == 1 || op == 3 ? m : nm), "month: value of the expression: prefix/compound the new month, postfix the OLD month");
    VF_ASSERT(o[2] == 1, "month: prefix and compound operators return *this");
    if (op == 4) VF_ASSERT(month_plus_c(m, am) == nm, "months + month"); }
  if (op <= 5 && d <= 254) { int nd = op <= 1 ? d + 1 : op <= 3 ? d - 1 : op == 4 ? d + a : d - a;
    if (nd >= 0 && nd <= 254) { day_step(d, op, a, o);
      VF_ASSERT(o[0] == nd && o[3] == (nd >= 1 && nd <= 31), "day: ++ -- += -= (prefix and postfix) change the day by exactly +-1 / +-a (while representable); ok() iff 1..31");
      VF_ASSERT(o[1] == (op == 1 || op == 3 ? (int)d : nd), "day: value of the expression: prefix/compound the new day, postfix the OLD day");
      VF_ASSERT(o[2] == 1, "day: prefix and compound operators return *this");
      if (op == 4 && d <= 254) VF_ASSERT(day_plus_c(d, a) == (unsigned)nd, "days + day"); } }
  if (op <= 5 && w <= 7) { unsigned w0 = s_wd0(w);
    unsigned nw = op <= 1 ? (w0 + 1u) % 7u : op <= 3 ? (w0 + 6u) % 7u : (unsigned)fmodc((int)w0 + (op == 4 ? a : -a), 7, 20000);
    weekday_step(w, op, a, o);
    VF_ASSERT(o[0] == (int)nw && o[3] == 1, "weekday: ++ -- += -= (prefix and postfix) are modulo-7 arithmetic; the result is ok()");
    VF_ASSERT(o[2] == 1, "weekday: prefix and compound operators return *this");
    if (op != 1 && op != 3) VF_ASSERT(o[1] == (int)nw, "weekday: value of a prefix / compound expression is the new weekday");
    else if (VF_KNOWN_GUARD(C11_weekday_postfix_returns_new, op == 1 || op == 3)) VF_ASSERT(o[1] == (int)w0, "weekday: value of a POSTFIX expression (wd++, wd--) is the OLD weekday [time.cal.wd.members]");
    if (op == 4) VF_ASSERT(wd_plus_c(w, a) == nw, "days + weekday"); }
  VF_REACH(); }

/*@GROUP name=ok_all props=C11,C02 kind=F solver=kissat@*/
void h_ok_all(void) { VF_INPUT(short, y); VF_INPUT(unsigned char, m); VF_INPUT(unsigned char, w); VF_INPUT(unsigned char, i); VF_INPUT(short, y2); VF_INPUT(unsigned char, m2); VF_INPUT(unsigned char, w2); VF_INPUT(unsigned char, i2);
  __CPROVER_assume(m <= 254 && m2 <= 254);
  _Bool yk = y != -32768, mk = m >= 1 && m <= 12, wk = s_wd0(w) <= 6, ik = i >= 1 && i <= 5;
  VF_ASSERT(ym_ok(y, m) == (yk && mk), "year_month::ok() iff year and month ok");
  VF_ASSERT(mdl_ok(m) == mk, "month_day_last::ok() iff month ok");
  VF_ASSERT(ymdl_ok(y, m) == (yk && mk), "year_month_day_last::ok() iff year and month ok (full input domain)");
  VF_ASSERT(wd_ok(w) == wk && wdl_ok(w) == wk, "weekday::ok() / weekday_last::ok() iff the encoding is 0..6 (7 is stored as 0)");
  VF_ASSERT(wdi_ok(w, i) == (wk && ik), "weekday_indexed::ok() iff weekday ok and 1 <= index <= 5");
  VF_ASSERT(mwd_ok(m, w, i) == (mk && wk && ik), "month_weekday::ok() iff month ok and weekday_indexed ok");
  VF_ASSERT(mwdl_ok(m, w) == (mk && wk), "month_weekday_last::ok() iff month ok and weekday ok");
  /* year_month_weekday over the full domain: everything that does not need the weekday of the first of the month (that part: group ymw_ok) */
  int o[12] = {0}; ymw_get(y, m, w, i, o); _Bool k = o[6] != 0;
  VF_ASSERT(o[0] == y && o[1] == m && o[2] == (int)s_wd0(w) && o[3] == i && o[4] == o[2] && o[5] == o[3], "year_month_weekday: year(), month(), weekday(), index(), weekday_indexed() return the fields");
  if (!(yk && mk && wk && ik)) VF_ASSERT(!k, "year_month_weekday::ok() is false if any field is not ok (index 0 or > 5 included)");
  else if (i <= 4) VF_ASSERT(k, "year_month_weekday::ok(): every month has a 1st..4th of every weekday");
  else { if (s_last(y, m) == 28) VF_ASSERT(!k, "year_month_weekday::ok(): a 28-day February (non-leap year) has no 5th weekday of any kind");
    /* at most last-28 weekdays occur five times: checked exactly in ymw_ok */ }
  VF_ASSERT(ymw_eq(y, m, w, i, y2, m2, w2, i2) == (y == y2 && m == m2 && s_wd0(w) == s_wd0(w2) && i == i2), "year_month_weekday == compares every field");
  VF_REACH(); }

/*@GROUP name=ymw_ok props=C11,C02 kind=S split=ERA:-82:81 qsplit=-82,-1,4,5,81 solver=kissat cost=3@*/
/* one cell = the 400 years [400*ERA, 400*ERA+399]; month / weekday / index over their whole byte range */
void h_ymw_ok(void) { VF_INPUT(unsigned short, r); VF_INPUT(unsigned char, m); VF_INPUT(unsigned char, w); VF_INPUT(unsigned char, i);
  int y = 400 * (ERA) + (int)r; __CPROVER_assume(r < 400 && y >= -32768 && y <= 32767 && m <= 254);
  unsigned w0 = s_wd0(w); _Bool e = 0;
  if (y != -32768 && m >= 1 && m <= 12 && w0 <= 6 && i >= 1) { unsigned w1 = (unsigned)fmodc(spec_days(y, m, 1) + 4, 7, 2000000); e = s_nth(w0, w1, i) <= s_last(y, m); }
  VF_ASSERT(ymw_ok(y, m, w, i) == e, "year_month_weekday::ok() is true exactly if the index-th such weekday exists in that month of that year (Gregorian calendar)");
  if (y != -32768 && m >= 1 && m <= 12) { int o[12] = {0}; ymdl_get(y, m, 1, o); int el = (int)s_last(y, m);
    VF_ASSERT(o[0] == y && o[1] == m && o[2] == el && o[3] == 1 && o[6] == y && o[7] == m && o[8] == el && o[9] == 1, "year_month_day_last: accessors, day() and the conversion to year_month_day");
    VF_ASSERT(o[10] == spec_days(y, m, (unsigned)el), "sys_days{year_month_day{y/m/last}} is the day count of the last day of the month"); }
  VF_REACH(); }

/*@GROUP name=slash props=C11,C02 kind=F solver=kissat objbits=12@*/
/* every operator/ overload and weekday[] composes exactly the fields it is given (int operands are taken as month / day / year values) */
void h_slash(void) { VF_INPUT(short, y); VF_INPUT(unsigned char, m); VF_INPUT(unsigned char, d); VF_INPUT(unsigned char, w); VF_INPUT(unsigned char, i); VF_INPUT(unsigned char, f);
  __CPROVER_assume(m <= 254 && d <= 254 && f <= 5); int o[12] = {0}; unsigned w0 = s_wd0(w);
  _Bool yk = y != -32768, mk = m >= 1 && m <= 12, wk = w0 <= 6, ik = i >= 1 && i <= 5;
  if (f <= 1) { slash_ym(f, y, m, o); VF_ASSERT(o[0] == y && o[1] == m && o[2] == (yk && mk), "year/month, year/int -> year_month"); }
  slash_ymd(f, y, m, d, o); VF_ASSERT(o[0] == y && o[1] == m && o[2] == d && o[3] == s_exists(y, m, d), "year_month/day, year_month/int, year/month_day, int/month_day, month_day/year, month_day/int -> year_month_day");
  if (f <= 4) { slash_md(f, m, d, o); VF_ASSERT(o[0] == m && o[1] == d && o[2] == (mk && d >= 1 && d <= (m == 2 ? 29u : s_last(1, m))), "month/day, month/int, int/day, day/month, day/int -> month_day"); }
  if (f <= 3) { slash_mdl(f, m, o); VF_ASSERT(o[0] == m && o[1] == mk, "month/last, int/last, last/month, last/int -> month_day_last");
    slash_mwd(f, m, w, i, o); VF_ASSERT(o[0] == m && o[1] == (int)w0 && o[2] == i && o[3] == (mk && wk && ik), "month/weekday[i], int/weekday[i], weekday[i]/month, weekday[i]/int -> month_weekday");
    slash_mwdl(f, m, w, o); VF_ASSERT(o[0] == m && o[1] == (int)w0 && o[2] == (mk && wk), "month/weekday[last], int/weekday[last], weekday[last]/month, weekday[last]/int -> month_weekday_last"); }
  if (f <= 4 && mk) { slash_ymdl(f, y, m, o); VF_ASSERT(o[0] == y && o[1] == m && o[4] == m && o[3] == yk && o[5] == 1 && o[2] == (int)s_last(y, m), "year_month/last, year/month_day_last, int/month_day_last, month_day_last/year, month_day_last/int -> year_month_day_last"); }
  VF_REACH(); }

/*@GROUP name=ymdl_day_total props=C11,C02 kind=F solver=kissat@*/
/* [time.cal.ymdlast.members]: day() of a year_month_day_last that is not ok() returns an UNSPECIFIED value - it is still a noexcept
 * function without preconditions: it must not have undefined behaviour for any month value */
void h_ymdl_day_total(void) { VF_INPUT(short, y); VF_INPUT(unsigned char, m); __CPROVER_assume(m <= 254);
  VF_KNOWN(C11_ymdl_day_bad_month_oob, m == 0 || m > 12);
  unsigned d = ymdl_day(y, m);
  if (m >= 1 && m <= 12) VF_ASSERT(d == (m == 2 ? (s_leap(y) ? 29u : 28u) : s_last(1, m)), "year_month_day_last::day() for every year value (ok or not) and ok month"); else VF_ASSERT(d <= 255, "year_month_day_last::day() of a not-ok month returns some day value");
  VF_REACH(); }

/*@GROUP name=compare props=C11 kind=F solver=kissat@*/
void h_compare(void) { VF_INPUT(short, y); VF_INPUT(unsigned char, m); VF_INPUT(unsigned char, d); VF_INPUT(unsigned char, w); VF_INPUT(unsigned char, i); VF_INPUT(short, y2); VF_INPUT(unsigned char, m2); VF_INPUT(unsigned char, d2); VF_INPUT(unsigned char, w2); VF_INPUT(unsigned char, i2);
  __CPROVER_assume(m <= 254 && d <= 254 && m2 <= 254 && d2 <= 254);
#define S_CMP(a, b) ((unsigned)((a) == (b)) | ((unsigned)((a) < (b)) << 1) | ((unsigned)((a) <= (b)) << 2) | ((unsigned)((a) > (b)) << 3) | ((unsigned)((a) >= (b)) << 4))
  VF_ASSERT(year_cmp(y, y2) == S_CMP(y, y2), "year: == < <= > >= order by the signed year number");
  VF_ASSERT(month_cmp(m, m2) == S_CMP(m, m2), "month: == < <= > >= order by the month number");
  VF_ASSERT(day_cmp(d, d2) == S_CMP(d, d2), "day: == < <= > >= order by the day number");
  unsigned w0 = s_wd0(w), v0 = s_wd0(w2); _Bool ey = y == y2, em = m == m2, ed = d == d2, ew = w0 == v0, ei = i == i2;
  unsigned e = (unsigned)(ey && em) | ((unsigned)(ey && em && ed) << 1) | ((unsigned)(em && ed) << 2) | ((unsigned)em << 3) | ((unsigned)(em && ew && ei) << 4) | ((unsigned)(em && ew) << 5) | ((unsigned)ew << 6) | ((unsigned)(ew && ei) << 7) | ((unsigned)ew << 8);
  VF_ASSERT(eq_all(y, m, d, w, i, y2, m2, d2, w2, i2) == e, "operator== of year_month, year_month_day, month_day, month_day_last, month_weekday, month_weekday_last, weekday, weekday_indexed, weekday_last compares every field (weekday(7) == weekday(0))");
  VF_REACH(); }

/*@GROUP name=era_local props=C11,C02 kind=S split=ERA:-87:76 solver=kissat timeout=600 cost=5 tier=thorough@*/
/* the local_days constructors of year_month_day and weekday: same obligations as group era */
void h_era_local(void) { VF_INPUT(int, z); __CPROVER_assume(z >= (long)ERA * 146097 && z < ((long)ERA + 1) * 146097 && z >= ZMIN && z <= ZMAX);
  int y; unsigned m, d; ymd_from_local(z, &y, &m, &d);
  VF_ASSERT(s_exists(y, m, d), "year_month_day{local_days} yields an existing date inside the year range");
  VF_ASSERT(spec_days(y, m, d) == z, "year_month_day{local_days} agrees with the proleptic Gregorian calendar");
  VF_ASSERT(wd_from_local(z) == (unsigned)fmodc(z + 4, 7, 2000000), "weekday{local_days{z}} == (z + 4) mod 7");
  VF_REACH(); }
