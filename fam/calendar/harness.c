/* calendar: chrono civil calendar against the proleptic Gregorian calendar — C11.
 * The reference spec_days() is the textbook table form (365*y + y/4 - y/100 + y/400 with floor division + cumulative month table),
 * written independently of the era/yoe/doy/mp algorithm in year_month_day.hpp; two loop-free lemmas pin it to the calendar
 * (1970-01-01 -> 0 and "next day -> +1" for every existing date), so agreement with spec_days is agreement with std::chrono. */
#include "vf_handler.h"
/* all quantities fit 32 bits; floor division by a positive constant is done on a value shifted to be non-negative so that every
 * division in the specification is an unsigned 32-bit division by a constant (cheap for the SAT back end) */
static int fdivc(int a, int b, int k) { return (int)(((unsigned)(a + b * k)) / (unsigned)b) - k; }        /* floor(a / b) for a >= -b*k */
static int fmodc(int a, int b, int k) { return (int)(((unsigned)(a + b * k)) % (unsigned)b); }             /* a mod b in [0,b) for a >= -b*k */
static _Bool s_leap(int y) { int q = y + 32800; return ((unsigned)q % 4u) == 0 && (((unsigned)q % 100u) != 0 || ((unsigned)q % 400u) == 0); }   /* 32800 = 82*400 */
static unsigned s_last(int y, unsigned m) { return m == 2 ? (s_leap(y) ? 29u : 28u) : ((m == 4 || m == 6 || m == 9 || m == 11) ? 30u : 31u); }
static int s_cum(unsigned m) { return m == 1 ? 0 : m == 2 ? 31 : m == 3 ? 59 : m == 4 ? 90 : m == 5 ? 120 : m == 6 ? 151 : m == 7 ? 181 : m == 8 ? 212 : m == 9 ? 243 : m == 10 ? 273 : m == 11 ? 304 : 334; }
static int spec_days(int y, unsigned m, unsigned d) { unsigned q = (unsigned)(y - 1 + 32800);      /* >= 31 */
  return 365 * (y - 1) + ((int)(q / 4u) - 8200) - ((int)(q / 100u) - 328) + ((int)(q / 400u) - 82) + s_cum(m) + ((m > 2 && s_leap(y)) ? 1 : 0) + (int)d - 1 - 719162; }
static _Bool s_exists(int y, unsigned m, unsigned d) { return y >= -32767 && y <= 32767 && m >= 1 && m <= 12 && d >= 1 && d <= s_last(y, m); }
#define ZMIN (-12687428)   /* -32767-01-01 */
#define ZMAX 11248737      /*  32767-12-31 */

/*@GROUP name=spec_is_gregorian props=C11 kind=F solver=kissat timeout=1500 cost=9 tier=thorough@*/
void h_spec_is_gregorian(void) { VF_INPUT(short, y); VF_INPUT(unsigned char, m); VF_INPUT(unsigned char, d); __CPROVER_assume(s_exists(y, m, d));
  VF_ASSERT(spec_days(1970, 1, 1) == 0 && spec_days(2000, 3, 1) == 11017 && spec_days(-32767, 1, 1) == ZMIN && spec_days(32767, 12, 31) == ZMAX, "spec: anchors (1970-01-01 is day 0)");
  int ny = y; unsigned nm = m, nd = d + 1u; if (nd > s_last(y, m)) { nd = 1; nm = m + 1u; if (nm > 12) { nm = 1; ny = y + 1; } }
  if (ny <= 32767) VF_ASSERT(spec_days(ny, nm, nd) == spec_days(y, m, d) + 1, "spec: the naive successor date (day+1, roll month, roll year, leap rule) is exactly one day later");
  VF_REACH(); }

/*@GROUP name=era props=C11,C02 kind=S split=ERA:-87:76 qsplit=-87,-5,0,76 solver=kissat timeout=600 cost=5@*/
void h_era(void) { VF_INPUT(int, z); __CPROVER_assume(z >= (long)ERA * 146097 && z < ((long)ERA + 1) * 146097 && z >= ZMIN && z <= ZMAX);
  int y; unsigned m, d; ymd_from_days(z, &y, &m, &d);
  VF_ASSERT(s_exists(y, m, d), "civil_from_days yields an existing date inside the year range");
  VF_ASSERT(ymd_ok(y, m, d), "the produced date is ok()");
  VF_ASSERT(spec_days(y, m, d) == z, "civil_from_days agrees with the proleptic Gregorian calendar");
  VF_ASSERT(days_from_ymd(y, m, d) == z && days_from_ymd_local(y, m, d) == z, "sys_days{year_month_day{sys_days{z}}} == z (round trip)");
  VF_ASSERT(wd_from_days(z) == (unsigned)fmodc(z + 4, 7, 2000000), "weekday{sys_days{z}} == (z + 4) mod 7 (1970-01-01 is a Thursday)");
  VF_REACH(); }

/*@GROUP name=days_from_civil props=C11,C02 kind=F solver=kissat timeout=2400 cost=8 tier=thorough@*/
void h_days_from_civil(void) { VF_INPUT(short, y); VF_INPUT(unsigned char, m); VF_INPUT(unsigned char, d); __CPROVER_assume(s_exists(y, m, d));
  VF_ASSERT(days_from_ymd(y, m, d) == spec_days(y, m, d), "days_from_civil == proleptic Gregorian day count for every existing date of every year");
  VF_REACH(); }

/*@GROUP name=ok props=C11,C02 kind=F solver=kissat@*/
void h_ok(void) { VF_INPUT(short, y); VF_INPUT(unsigned char, m); VF_INPUT(unsigned char, d); VF_INPUT(unsigned, w); VF_INPUT(unsigned, i); __CPROVER_assume(m <= 254 && d <= 254);
  VF_ASSERT(ymd_ok(y, m, d) == s_exists(y, m, d), "year_month_day::ok() is true exactly for dates that exist");
  VF_ASSERT(year_is_leap(y) == s_leap(y), "year::is_leap is the Gregorian rule (also for negative years)");
  VF_ASSERT(year_ok(y) == (y != -32768) && month_ok(m) == (m >= 1 && m <= 12) && day_ok(d) == (d >= 1 && d <= 31), "year/month/day ok()");
  if (m >= 1 && m <= 12 && y != -32768) { VF_ASSERT(ymdl_day(y, m) == s_last(y, m), "year_month_day_last::day() == last day of that month"); VF_ASSERT(ymdl_ok(y, m), "year_month_day_last ok"); }
  VF_ASSERT(md_ok(m, d) == (m >= 1 && m <= 12 && d >= 1 && d <= (m == 2 ? 29u : s_last(1, m))), "month_day::ok(): February allows 29");
  __CPROVER_assume(w <= 255 && i <= 255);
  VF_ASSERT(wdi_ok(w, i) == ((w <= 7) && i >= 1 && i <= 5), "weekday_indexed::ok() iff weekday ok and 1 <= index <= 5");
  VF_REACH(); }

/*@GROUP name=weekday props=C11,C02 kind=B bound=|delta|<=100000 solver=kissat@*/
void h_weekday(void) { VF_INPUT(unsigned, w); VF_INPUT(unsigned, v); VF_INPUT(int, d); __CPROVER_assume(w <= 7 && v <= 7 && d >= -100000 && d <= 100000); unsigned w0 = w == 7 ? 0 : w, v0 = v == 7 ? 0 : v;
  VF_ASSERT(wd_ctor(w) == w0 && wd_iso(w) == (w0 == 0 ? 7u : w0) && wd_ok(w), "weekday(7) is Sunday; encodings");
  VF_ASSERT(wd_diff(w, v) == fmodc((int)w0 - (int)v0, 7, 2), "weekday - weekday is in [0,6]");
  VF_ASSERT(wd_inc(w) == (w0 + 1) % 7 && wd_dec(w) == (w0 + 6) % 7, "++/-- wrap around the week");
  VF_KNOWN(C11_weekday_plus_negative, (int)w0 + d < 0);
  VF_ASSERT(wd_plus(w, d) == (unsigned)fmodc((int)w0 + d, 7, 20000), "weekday + days is floor-modulo 7 for every delta");
  VF_KNOWN(C11_weekday_minus_negative, (int)w0 - d < 0);
  VF_ASSERT(wd_minus(w, d) == (unsigned)fmodc((int)w0 - d, 7, 20000), "weekday - days is floor-modulo 7 for every delta");
  VF_REACH(); }

/*@GROUP name=weekday_compound props=C11,C02 kind=B bound=|delta|<=100000 solver=kissat@*/
void h_weekday_compound(void) { VF_INPUT(unsigned, w); VF_INPUT(int, d); __CPROVER_assume(w <= 7 && d >= -100000 && d <= 100000); unsigned w0 = w == 7 ? 0 : w;
  VF_KNOWN(C11_weekday_compound_wraps, (int)w0 + d < 0 || (int)w0 + d > 255);
  VF_ASSERT(wd_plus_eq(w, d) == (unsigned)fmodc((int)w0 + d, 7, 20000), "weekday += days is floor-modulo 7");
  VF_KNOWN(C11_weekday_compound_wraps, (int)w0 - d < 0 || (int)w0 - d > 255);
  VF_ASSERT(wd_minus_eq(w, d) == (unsigned)fmodc((int)w0 - d, 7, 20000), "weekday -= days is floor-modulo 7");
  VF_REACH(); }

/*@GROUP name=month props=C11,C02 kind=B bound=|delta|<=100000 solver=kissat@*/
void h_month(void) { VF_INPUT(unsigned, m); VF_INPUT(unsigned, n); VF_INPUT(int, d); __CPROVER_assume(m >= 1 && m <= 12 && n >= 1 && n <= 12 && d >= -100000 && d <= 100000);
  VF_ASSERT(month_plus(m, d) == (unsigned)fmodc((int)m - 1 + d, 12, 10000) + 1, "month + months is floor-modulo 12 for every delta");
  VF_ASSERT(month_minus(m, d) == (unsigned)fmodc((int)m - 1 - d, 12, 10000) + 1, "month - months is floor-modulo 12 for every delta");
  VF_ASSERT(month_inc(m) == m % 12 + 1 && month_dec(m) == (m + 10) % 12 + 1, "++/-- wrap around the year");
  VF_ASSERT(month_diff(m, n) == fmodc((int)m - (int)n, 12, 2), "month - month is in [0,11]");
  VF_REACH(); }

/*@GROUP name=year_day props=C11,C02 kind=F solver=kissat@*/
void h_year_day(void) { VF_INPUT(short, y); VF_INPUT(short, x); VF_INPUT(int, dy); VF_INPUT(unsigned char, a); VF_INPUT(unsigned char, b); VF_INPUT(int, dd);
  __CPROVER_assume(dy >= -70000 && dy <= 70000);
  if ((long)y + dy >= -32767 && (long)y + dy <= 32767) VF_ASSERT(year_plus(y, dy) == y + dy, "year + years");
  if ((long)y - dy >= -32767 && (long)y - dy <= 32767) VF_ASSERT(year_minus(y, dy) == y - dy, "year - years");
  VF_ASSERT(year_diff(y, x) == (int)y - (int)x, "year - year");
  __CPROVER_assume(dd >= -300 && dd <= 300);
  __CPROVER_assume(a <= 254 && b <= 254);
  if ((int)a + dd >= 0 && (int)a + dd <= 254) VF_ASSERT(day_plus(a, dd) == (unsigned)((int)a + dd), "day + days");
  if ((int)a - dd >= 0 && (int)a - dd <= 254) VF_ASSERT(day_minus(a, dd) == (unsigned)((int)a - dd), "day - days");
  VF_ASSERT(day_diff(a, b) == (int)a - (int)b, "day - day");
  VF_REACH(); }

/*@GROUP name=year_month props=C11,C02 kind=B bound=|months|<=100000 cost=6 solver=kissat@*/
void h_year_month(void) { VF_INPUT(short, y); VF_INPUT(unsigned, m); VF_INPUT(unsigned, d); VF_INPUT(int, dm); VF_INPUT(int, dy); __CPROVER_assume(m >= 1 && m <= 12 && d >= 1 && d <= 31 && y != -32768);
  __CPROVER_assume(dm >= -100000 && dm <= 100000 && dy >= -70000 && dy <= 70000);
  int t = (int)y * 12 + (int)(m - 1) + dm, ey = fdivc(t, 12, 50000); unsigned em = (unsigned)fmodc(t, 12, 50000) + 1; int t2 = (int)y * 12 + (int)(m - 1) - dm, ey2 = fdivc(t2, 12, 50000); unsigned em2 = (unsigned)fmodc(t2, 12, 50000) + 1;
  int yo; unsigned mo, d_o;
  VF_KNOWN(C11_year_month_no_carry, ey != y || ey2 != y);
  if (ey >= -32767 && ey <= 32767) { ym_plus_months(y, m, dm, &yo, &mo); VF_ASSERT(yo == ey && mo == em, "year_month + months carries into the year by floor division");
    ymd_plus_months(y, m, d, dm, &yo, &mo, &d_o); VF_ASSERT(yo == ey && mo == em && d_o == d, "year_month_day + months keeps the day field");
    ymdl_plus_months(y, m, dm, &yo, &mo); VF_ASSERT(yo == ey && mo == em, "year_month_day_last + months"); }
  if (ey2 >= -32767 && ey2 <= 32767) { ym_minus_months(y, m, dm, &yo, &mo); VF_ASSERT(yo == ey2 && mo == em2, "year_month - months borrows from the year by floor division");
    ymd_minus_months(y, m, d, dm, &yo, &mo, &d_o); VF_ASSERT(yo == ey2 && mo == em2 && d_o == d, "year_month_day - months"); }
  if ((int)y + dy >= -32767 && (int)y + dy <= 32767) { ym_plus_years(y, m, dy, &yo, &mo); VF_ASSERT(yo == y + dy && mo == m, "year_month + years");
    ymd_plus_years(y, m, d, dy, &yo, &mo, &d_o); VF_ASSERT(yo == y + dy && mo == m && d_o == d, "year_month_day + years"); }
  VF_REACH(); }
