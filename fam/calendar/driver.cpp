// driver: chrono calendar types (C11)
#include <etl/chrono.hpp>
#define VF_E extern "C"
namespace vf {
namespace ch = etl::chrono;
VF_E void ymd_from_days(int z, int* y, unsigned* m, unsigned* d) { ch::year_month_day ymd{ch::sys_days{ch::days{z}}}; *y = int{ymd.year()}; *m = unsigned{ymd.month()}; *d = unsigned{ymd.day()}; }
VF_E int days_from_ymd(int y, unsigned m, unsigned d) { ch::year_month_day ymd{ch::year{y}, ch::month{m}, ch::day{d}}; return ch::sys_days{ymd}.time_since_epoch().count(); }
VF_E int days_from_ymd_local(int y, unsigned m, unsigned d) { ch::year_month_day ymd{ch::year{y}, ch::month{m}, ch::day{d}}; return ch::local_days{ymd}.time_since_epoch().count(); }
VF_E bool ymd_ok(int y, unsigned m, unsigned d) { return ch::year_month_day{ch::year{y}, ch::month{m}, ch::day{d}}.ok(); }
VF_E bool year_is_leap(int y) { return ch::year{y}.is_leap(); }
VF_E bool year_ok(int y) { return ch::year{y}.ok(); }
VF_E bool month_ok(unsigned m) { return ch::month{m}.ok(); }
VF_E bool day_ok(unsigned d) { return ch::day{d}.ok(); }
VF_E unsigned ymdl_day(int y, unsigned m) { return unsigned{ch::year_month_day_last{ch::year{y}, ch::month_day_last{ch::month{m}}}.day()}; }
VF_E bool ymdl_ok(int y, unsigned m) { return ch::year_month_day_last{ch::year{y}, ch::month_day_last{ch::month{m}}}.ok(); }
VF_E unsigned wd_from_days(int z) { return ch::weekday{ch::sys_days{ch::days{z}}}.c_encoding(); }
VF_E unsigned wd_ctor(unsigned w) { return ch::weekday{w}.c_encoding(); }
VF_E unsigned wd_iso(unsigned w) { return ch::weekday{w}.iso_encoding(); }
VF_E bool wd_ok(unsigned w) { return ch::weekday{w}.ok(); }
VF_E unsigned wd_plus(unsigned w, int d) { return (ch::weekday{w} + ch::days{d}).c_encoding(); }
VF_E unsigned wd_minus(unsigned w, int d) { return (ch::weekday{w} - ch::days{d}).c_encoding(); }
VF_E unsigned wd_plus_eq(unsigned w, int d) { auto x = ch::weekday{w}; x += ch::days{d}; return x.c_encoding(); }
VF_E unsigned wd_minus_eq(unsigned w, int d) { auto x = ch::weekday{w}; x -= ch::days{d}; return x.c_encoding(); }
VF_E unsigned wd_inc(unsigned w) { auto x = ch::weekday{w}; ++x; return x.c_encoding(); }
VF_E unsigned wd_dec(unsigned w) { auto x = ch::weekday{w}; --x; return x.c_encoding(); }
VF_E int wd_diff(unsigned a, unsigned b) { return (ch::weekday{a} - ch::weekday{b}).count(); }
VF_E unsigned month_plus(unsigned m, int d) { return unsigned{ch::month{m} + ch::months{d}}; }
VF_E unsigned month_minus(unsigned m, int d) { return unsigned{ch::month{m} - ch::months{d}}; }
VF_E unsigned month_inc(unsigned m) { auto x = ch::month{m}; ++x; return unsigned{x}; }
VF_E unsigned month_dec(unsigned m) { auto x = ch::month{m}; --x; return unsigned{x}; }
VF_E int month_diff(unsigned a, unsigned b) { return (ch::month{a} - ch::month{b}).count(); }
VF_E int year_plus(int y, int d) { return int{ch::year{y} + ch::years{d}}; }
VF_E int year_minus(int y, int d) { return int{ch::year{y} - ch::years{d}}; }
VF_E int year_diff(int a, int b) { return (ch::year{a} - ch::year{b}).count(); }
VF_E unsigned day_plus(unsigned x, int d) { return unsigned{ch::day{x} + ch::days{d}}; }
VF_E unsigned day_minus(unsigned x, int d) { return unsigned{ch::day{x} - ch::days{d}}; }
VF_E int day_diff(unsigned a, unsigned b) { return (ch::day{a} - ch::day{b}).count(); }
VF_E void ym_plus_months(int y, unsigned m, int dm, int* yo, unsigned* mo) { auto r = ch::year_month{ch::year{y}, ch::month{m}} + ch::months{dm}; *yo = int{r.year()}; *mo = unsigned{r.month()}; }
VF_E void ym_minus_months(int y, unsigned m, int dm, int* yo, unsigned* mo) { auto r = ch::year_month{ch::year{y}, ch::month{m}} - ch::months{dm}; *yo = int{r.year()}; *mo = unsigned{r.month()}; }
VF_E void ym_plus_years(int y, unsigned m, int dy, int* yo, unsigned* mo) { auto r = ch::year_month{ch::year{y}, ch::month{m}} + ch::years{dy}; *yo = int{r.year()}; *mo = unsigned{r.month()}; }
VF_E void ymd_plus_months(int y, unsigned m, unsigned d, int dm, int* yo, unsigned* mo, unsigned* d_o) { auto r = ch::year_month_day{ch::year{y}, ch::month{m}, ch::day{d}} + ch::months{dm}; *yo = int{r.year()}; *mo = unsigned{r.month()}; *d_o = unsigned{r.day()}; }
VF_E void ymd_minus_months(int y, unsigned m, unsigned d, int dm, int* yo, unsigned* mo, unsigned* d_o) { auto r = ch::year_month_day{ch::year{y}, ch::month{m}, ch::day{d}} - ch::months{dm}; *yo = int{r.year()}; *mo = unsigned{r.month()}; *d_o = unsigned{r.day()}; }
VF_E void ymd_plus_years(int y, unsigned m, unsigned d, int dy, int* yo, unsigned* mo, unsigned* d_o) { auto r = ch::year_month_day{ch::year{y}, ch::month{m}, ch::day{d}} + ch::years{dy}; *yo = int{r.year()}; *mo = unsigned{r.month()}; *d_o = unsigned{r.day()}; }
VF_E void ymdl_plus_months(int y, unsigned m, int dm, int* yo, unsigned* mo) { auto r = ch::year_month_day_last{ch::year{y}, ch::month_day_last{ch::month{m}}} + ch::months{dm}; *yo = int{r.year()}; *mo = unsigned{r.month()}; }
VF_E bool md_ok(unsigned m, unsigned d) { return ch::month_day{ch::month{m}, ch::day{d}}.ok(); }
VF_E bool wdi_ok(unsigned w, unsigned i) { return ch::weekday_indexed{ch::weekday{w}, i}.ok(); }
VF_E unsigned wdi_index(unsigned w, unsigned i) { return ch::weekday_indexed{ch::weekday{w}, i}.index(); }
}
