// driver: chrono calendar types (C11)
#include <etl/chrono.hpp>
#define VF_E extern "C"
namespace vf {
namespace ch = etl::chrono;
VF_E void ymd_from_days(int z, int* y, unsigned* m, unsigned* d) { ch::year_month_day ymd{ch::sys_days{ch::days{z}}}; *y = int{ymd.year()}; *m = unsigned{ymd.month()}; *d = unsigned{ymd.day()}; }
VF_E int days_from_ymd(int y, unsigned m, unsigned d) { ch::year_month_day ymd{ch::year{y}, ch::month{m}, ch::day{d}}; return ch::sys_days{ymd}.time_since_epoch().count(); }
VF_E int days_from_ymd_local(int y, unsigned m, unsigned d) { ch::year_month_day ymd{ch::year{y}, ch::month{m}, ch::day{d}}; return ch::local_days{ymd}.time_since_epoch().count(); }
VF_E bool ymd_ok(int y, unsigned m, unsigned d) { return ch::year_month_day{ch::year{y}, ch::month{m}, ch::day{d}}.ok(); }
VF_E bool year_is_leap(int y) { return ch::year{y}.is_leap(); }
VF_E bool year_ok(int y) { return ch::year{y}.ok(); }
VF_E bool month_ok(unsigned m) { return ch::month{m}.ok(); }
VF_E bool day_ok(unsigned d) { return ch::day{d}.ok(); }
VF_E unsigned ymdl_day(int y, unsigned m) { return unsigned{ch::year_month_day_last{ch::year{y}, ch::month_day_last{ch::month{m}}}.day()}; }
VF_E bool ymdl_ok(int y, unsigned m) { return ch::year_month_day_last{ch::year{y}, ch::month_day_last{ch::month{m}}}.ok(); }
VF_E unsigned wd_from_days(int z) { return ch::weekday{ch::sys_days{ch::days{z}}}.c_encoding(); }
VF_E unsigned wd_ctor(unsigned w) { return ch::weekday{w}.c_encoding(); }
VF_E unsigned wd_iso(unsigned w) { return ch::weekday{w}.iso_encoding(); }
VF_E bool wd_ok(unsigned w) { return ch::weekday{w}.ok(); }
VF_E unsigned wd_plus(unsigned w, int d) { return (ch::weekday{w} + ch::days{d}).c_encoding(); }
VF_E unsigned wd_minus(unsigned w, int d) { return (ch::weekday{w} - ch::days{d}).c_encoding(); }
VF_E unsigned wd_plus_eq(unsigned w, int d) { auto x = ch::weekday{w}; x += ch::days{d}; return x.c_encoding(); }
VF_E unsigned wd_minus_eq(unsigned w, int d) { auto x = ch::weekday{w}; x -= ch::days{d}; return x.c_encoding(); }
VF_E unsigned wd_inc(unsigned w) { auto x = ch::weekday{w}; ++x; return x.c_encoding(); }
VF_E unsigned wd_dec(unsigned w) { auto x = ch::weekday{w}; --x; return x.c_encoding(); }
VF_E int wd_diff(unsigned a, unsigned b) { return (ch::weekday{a} - ch::weekday{b}).count(); }
VF_E unsigned month_plus(unsigned m, int d) { return unsigned{ch::month{m} + ch::months{d}}; }
VF_E unsigned month_minus(unsigned m, int d) { return unsigned{ch::month{m} - ch::months{d}}; }
VF_E unsigned month_inc(unsigned m) { auto x = ch::month{m}; ++x; return unsigned{x}; }
VF_E unsigned month_dec(unsigned m) { auto x = ch::month{m}; --x; return unsigned{x}; }
VF_E int month_diff(unsigned a, unsigned b) { return (ch::month{a} - ch::month{b}).count(); }
VF_E int year_plus(int y, int d) { return int{ch::year{y} + ch::years{d}}; }
VF_E int year_minus(int y, int d) { return int{ch::year{y} - ch::years{d}}; }
VF_E int year_diff(int a, int b) { return (ch::year{a} - ch::year{b}).count(); }
VF_E unsigned day_plus(unsigned x, int d) { return unsigned{ch::day{x} + ch::days{d}}; }
VF_E unsigned day_minus(unsigned x, int d) { return unsigned{ch::day{x} - ch::days{d}}; }
VF_E int day_diff(unsigned a, unsigned b) { return (ch::day{a} - ch::day{b}).count(); }
VF_E void ym_plus_months(int y, unsigned m, int dm, int* yo, unsigned* mo) { auto r = ch::year_month{ch::year{y}, ch::month{m}} + ch::months{dm}; *yo = int{r.year()}; *mo = unsigned{r.month()}; }
VF_E void ym_minus_months(int y, unsigned m, int dm, int* yo, unsigned* mo) { auto r = ch::year_month{ch::year{y}, ch::month{m}} - ch::months{dm}; *yo = int{r.year()}; *mo = unsigned{r.month()}; }
VF_E void ym_plus_years(int y, unsigned m, int dy, int* yo, unsigned* mo) { auto r = ch::year_month{ch::year{y}, ch::month{m}} + ch::years{dy}; *yo = int{r.year()}; *mo = unsigned{r.month()}; }
VF_E void ymd_plus_months(int y, unsigned m, unsigned d, int dm, int* yo, unsigned* mo, unsigned* d_o) { auto r = ch::year_month_day{ch::year{y}, ch::month{m}, ch::day{d}} + ch::months{dm}; *yo = int{r.year()}; *mo = unsigned{r.month()}; *d_o = unsigned{r.day()}; }
VF_E void ymd_minus_months(int y, unsigned m, unsigned d, int dm, int* yo, unsigned* mo, unsigned* d_o) { auto r = ch::year_month_day{ch::year{y}, ch::month{m}, ch::day{d}} - ch::months{dm}; *yo = int{r.year()}; *mo = unsigned{r.month()}; *d_o = unsigned{r.day()}; }
VF_E void ymd_plus_years(int y, unsigned m, unsigned d, int dy, int* yo, unsigned* mo, unsigned* d_o) { auto r = ch::year_month_day{ch::year{y}, ch::month{m}, ch::day{d}} + ch::years{dy}; *yo = int{r.year()}; *mo = unsigned{r.month()}; *d_o = unsigned{r.day()}; }
VF_E void ymdl_plus_months(int y, unsigned m, int dm, int* yo, unsigned* mo) { auto r = ch::year_month_day_last{ch::year{y}, ch::month_day_last{ch::month{m}}} + ch::months{dm}; *yo = int{r.year()}; *mo = unsigned{r.month()}; }
VF_E bool md_ok(unsigned m, unsigned d) { return ch::month_day{ch::month{m}, ch::day{d}}.ok(); }
VF_E bool wdi_ok(unsigned w, unsigned i) { return ch::weekday_indexed{ch::weekday{w}, i}.ok(); }
VF_E unsigned wdi_index(unsigned w, unsigned i) { return ch::weekday_indexed{ch::weekday{w}, i}.index(); }

// ---------------------------------------------------------------------------------------------------------------------
// Every mutating operator, every binary operator form, every ok(), every operator/ overload. The object is always built
// from its FIELDS (all of these classes are plain field records whose public constructor stores the fields; any
// representation detail behind it - e.g. a cached value - is the constructor's business), then the operator sequence is
// applied and EVERY accessor is read back: p[] after the first operator, o[] after the second.
//   compound ops: 0 x += months{a}   1 x -= months{a}   2 x += years{a}   3 x -= years{a}   >= 4 nothing
//   binary forms: 0 x + months  1 months + x  2 x - months  3 x + years  4 years + x  5 x - years
template <class T> static bool cop(T& x, unsigned op, int a) {
    if (op == 0) { return &(x += ch::months{a}) == &x; }
    if (op == 1) { return &(x -= ch::months{a}) == &x; }
    if (op == 2) { return &(x += ch::years{a}) == &x; }
    if (op == 3) { return &(x -= ch::years{a}) == &x; }
    return true;
}
template <class T> static T bop(T const& x, unsigned op, int a) {
    if (op == 0) { return x + ch::months{a}; }
    if (op == 1) { return ch::months{a} + x; }
    if (op == 2) { return x - ch::months{a}; }
    if (op == 3) { return x + ch::years{a}; }
    if (op == 4) { return ch::years{a} + x; }
    return x - ch::years{a};
}
static void rd_ym(ch::year_month const& x, int* o) { o[0] = int{x.year()}; o[1] = int(unsigned{x.month()}); o[2] = x.ok(); }
// days != 0: also the sys_days / local_days conversions (only of existing dates)
static void rd_ymd(ch::year_month_day const& x, int* o, int days) { o[0] = int{x.year()}; o[1] = int(unsigned{x.month()}); o[2] = int(unsigned{x.day()}); o[3] = x.ok();
    if (days != 0 && x.ok()) { o[4] = ch::sys_days{x}.time_since_epoch().count(); o[5] = ch::local_days{x}.time_since_epoch().count(); } }
static void rd_ymdl(ch::year_month_day_last const& x, int* o, int days) { o[0] = int{x.year()}; o[1] = int(unsigned{x.month()}); o[2] = int(unsigned{x.day()}); o[3] = x.ok();
    o[4] = int(unsigned{x.month_day_last().month()}); o[5] = x.month_day_last().ok();
    ch::year_month_day const c{x}; o[6] = int{c.year()}; o[7] = int(unsigned{c.month()}); o[8] = int(unsigned{c.day()}); o[9] = c.ok();
    if (days != 0 && c.ok()) { o[10] = ch::sys_days{c}.time_since_epoch().count(); } }
static void rd_ymw(ch::year_month_weekday const& x, int* o) { o[0] = int{x.year()}; o[1] = int(unsigned{x.month()}); o[2] = int(x.weekday().c_encoding()); o[3] = int(x.index());
    o[4] = int(x.weekday_indexed().weekday().c_encoding()); o[5] = int(x.weekday_indexed().index()); o[6] = x.ok(); }
VF_E void ym_cseq(int y, unsigned m, unsigned op1, int a1, unsigned op2, int a2, int* p, int* o) { auto x = ch::year_month{ch::year{y}, ch::month{m}}; p[11] = cop(x, op1, a1); rd_ym(x, p); o[11] = cop(x, op2, a2); rd_ym(x, o); }
VF_E void ymd_cseq(int y, unsigned m, unsigned d, unsigned op1, int a1, unsigned op2, int a2, int days, int* p, int* o) { auto x = ch::year_month_day{ch::year{y}, ch::month{m}, ch::day{d}}; p[11] = cop(x, op1, a1); rd_ymd(x, p, days); o[11] = cop(x, op2, a2); rd_ymd(x, o, days); }
VF_E void ymdl_cseq(int y, unsigned m, unsigned op1, int a1, unsigned op2, int a2, int days, int* p, int* o) { auto x = ch::year_month_day_last{ch::year{y}, ch::month_day_last{ch::month{m}}}; p[11] = cop(x, op1, a1); rd_ymdl(x, p, days); o[11] = cop(x, op2, a2); rd_ymdl(x, o, days); }
VF_E void ym_bin(int y, unsigned m, unsigned op, int a, int* o) { rd_ym(bop(ch::year_month{ch::year{y}, ch::month{m}}, op, a), o); }
VF_E void ymd_bin(int y, unsigned m, unsigned d, unsigned op, int a, int days, int* o) { rd_ymd(bop(ch::year_month_day{ch::year{y}, ch::month{m}, ch::day{d}}, op, a), o, days); }
VF_E void ymdl_bin(int y, unsigned m, unsigned op, int a, int days, int* o) { rd_ymdl(bop(ch::year_month_day_last{ch::year{y}, ch::month_day_last{ch::month{m}}}, op, a), o, days); }
VF_E void ymw_bin(int y, unsigned m, unsigned w, unsigned i, unsigned op, int a, int* o) { rd_ymw(bop(ch::year_month_weekday{ch::year{y}, ch::month{m}, ch::weekday_indexed{ch::weekday{w}, i}}, op, a), o); }
VF_E void ymw_get(int y, unsigned m, unsigned w, unsigned i, int* o) { rd_ymw(ch::year_month_weekday{ch::year{y}, ch::month{m}, ch::weekday_indexed{ch::weekday{w}, i}}, o); }
VF_E void ymdl_get(int y, unsigned m, int days, int* o) { rd_ymdl(ch::year_month_day_last{ch::year{y}, ch::month_day_last{ch::month{m}}}, o, days); }
VF_E bool ymw_eq(int y, unsigned m, unsigned w, unsigned i, int y2, unsigned m2, unsigned w2, unsigned i2) { return ch::year_month_weekday{ch::year{y}, ch::month{m}, ch::weekday_indexed{ch::weekday{w}, i}} == ch::year_month_weekday{ch::year{y2}, ch::month{m2}, ch::weekday_indexed{ch::weekday{w2}, i2}}; }
// single-field classes: op 0 ++x  1 x++  2 --x  3 x--  4 x += a  5 x -= a  (year: 6 -x  7 +x).  o[0] value afterwards, o[1] value of the expression, o[2] prefix/compound forms return *this, o[3] ok() afterwards
VF_E void year_step(int y, unsigned op, int a, int* o) { auto x = ch::year{y}; int r = 0; bool s = true;
    if (op == 0) { s = &(++x) == &x; r = int{x}; } else if (op == 1) { r = int{x++}; } else if (op == 2) { s = &(--x) == &x; r = int{x}; } else if (op == 3) { r = int{x--}; }
    else if (op == 4) { s = &(x += ch::years{a}) == &x; r = int{x}; } else if (op == 5) { s = &(x -= ch::years{a}) == &x; r = int{x}; } else if (op == 6) { r = int{-x}; } else { r = int{+x}; }
    o[0] = int{x}; o[1] = r; o[2] = s; o[3] = x.ok(); }
VF_E void month_step(unsigned m, unsigned op, int a, int* o) { auto x = ch::month{m}; unsigned r = 0; bool s = true;
    if (op == 0) { s = &(++x) == &x; r = unsigned{x}; } else if (op == 1) { r = unsigned{x++}; } else if (op == 2) { s = &(--x) == &x; r = unsigned{x}; } else if (op == 3) { r = unsigned{x--}; }
    else if (op == 4) { s = &(x += ch::months{a}) == &x; r = unsigned{x}; } else { s = &(x -= ch::months{a}) == &x; r = unsigned{x}; }
    o[0] = int(unsigned{x}); o[1] = int(r); o[2] = s; o[3] = x.ok(); }
VF_E void day_step(unsigned d, unsigned op, int a, int* o) { auto x = ch::day{d}; unsigned r = 0; bool s = true;
    if (op == 0) { s = &(++x) == &x; r = unsigned{x}; } else if (op == 1) { r = unsigned{x++}; } else if (op == 2) { s = &(--x) == &x; r = unsigned{x}; } else if (op == 3) { r = unsigned{x--}; }
    else if (op == 4) { s = &(x += ch::days{a}) == &x; r = unsigned{x}; } else { s = &(x -= ch::days{a}) == &x; r = unsigned{x}; }
    o[0] = int(unsigned{x}); o[1] = int(r); o[2] = s; o[3] = x.ok(); }
VF_E void weekday_step(unsigned w, unsigned op, int a, int* o) { auto x = ch::weekday{w}; unsigned r = 0; bool s = true;
    if (op == 0) { s = &(++x) == &x; r = x.c_encoding(); } else if (op == 1) { r = (x++).c_encoding(); } else if (op == 2) { s = &(--x) == &x; r = x.c_encoding(); } else if (op == 3) { r = (x--).c_encoding(); }
    else if (op == 4) { s = &(x += ch::days{a}) == &x; r = x.c_encoding(); } else { s = &(x -= ch::days{a}) == &x; r = x.c_encoding(); }
    o[0] = int(x.c_encoding()); o[1] = int(r); o[2] = s; o[3] = x.ok(); }
VF_E unsigned month_plus_c(unsigned m, int d) { return unsigned{ch::months{d} + ch::month{m}}; }
VF_E int year_plus_c(int y, int d) { return int{ch::years{d} + ch::year{y}}; }
VF_E unsigned day_plus_c(unsigned x, int d) { return unsigned{ch::days{d} + ch::day{x}}; }
VF_E unsigned wd_plus_c(unsigned w, int d) { return (ch::days{d} + ch::weekday{w}).c_encoding(); }
// ok() of the remaining classes
VF_E bool ym_ok(int y, unsigned m) { return ch::year_month{ch::year{y}, ch::month{m}}.ok(); }
VF_E bool mdl_ok(unsigned m) { return ch::month_day_last{ch::month{m}}.ok(); }
VF_E bool wdl_ok(unsigned w) { return ch::weekday_last{ch::weekday{w}}.ok(); }
VF_E bool mwd_ok(unsigned m, unsigned w, unsigned i) { return ch::month_weekday{ch::month{m}, ch::weekday_indexed{ch::weekday{w}, i}}.ok(); }
VF_E bool mwdl_ok(unsigned m, unsigned w) { return ch::month_weekday_last{ch::month{m}, ch::weekday_last{ch::weekday{w}}}.ok(); }
VF_E bool ymw_ok(int y, unsigned m, unsigned w, unsigned i) { return ch::year_month_weekday{ch::year{y}, ch::month{m}, ch::weekday_indexed{ch::weekday{w}, i}}.ok(); }
// every operator/ overload (and weekday[]) : the fields of the composed object, o[0..] in the order year, month, day / weekday, index; o[7] ok()
VF_E void slash_ym(unsigned f, int y, unsigned m, int* o) { rd_ym(f == 0 ? ch::year{y} / ch::month{m} : ch::year{y} / int(m), o); }
VF_E void slash_ymd(unsigned f, int y, unsigned m, unsigned d, int* o) { auto const Y = ch::year{y}; auto const M = ch::month{m}; auto const D = ch::day{d};
    if (f == 0) { rd_ymd(ch::year_month{Y, M} / D, o, 0); } else if (f == 1) { rd_ymd(ch::year_month{Y, M} / int(d), o, 0); } else if (f == 2) { rd_ymd(Y / ch::month_day{M, D}, o, 0); }
    else if (f == 3) { rd_ymd(y / ch::month_day{M, D}, o, 0); } else if (f == 4) { rd_ymd(ch::month_day{M, D} / Y, o, 0); } else { rd_ymd(ch::month_day{M, D} / y, o, 0); } }
VF_E void slash_md(unsigned f, unsigned m, unsigned d, int* o) { auto const M = ch::month{m}; auto const D = ch::day{d};
    auto const x = f == 0 ? M / D : f == 1 ? M / int(d) : f == 2 ? int(m) / D : f == 3 ? D / M : D / int(m);
    o[0] = int(unsigned{x.month()}); o[1] = int(unsigned{x.day()}); o[2] = x.ok(); }
VF_E void slash_mdl(unsigned f, unsigned m, int* o) { auto const M = ch::month{m};
    auto const x = f == 0 ? M / ch::last : f == 1 ? int(m) / ch::last : f == 2 ? ch::last / M : ch::last / int(m);
    o[0] = int(unsigned{x.month()}); o[1] = x.ok(); }
VF_E void slash_ymdl(unsigned f, int y, unsigned m, int* o) { auto const Y = ch::year{y}; auto const L = ch::month_day_last{ch::month{m}};
    if (f == 0) { rd_ymdl(ch::year_month{Y, ch::month{m}} / ch::last, o, 0); } else if (f == 1) { rd_ymdl(Y / L, o, 0); } else if (f == 2) { rd_ymdl(y / L, o, 0); } else if (f == 3) { rd_ymdl(L / Y, o, 0); } else { rd_ymdl(L / y, o, 0); } }
VF_E void slash_mwd(unsigned f, unsigned m, unsigned w, unsigned i, int* o) { auto const M = ch::month{m}; auto const W = ch::weekday{w}[i];
    auto const x = f == 0 ? M / W : f == 1 ? int(m) / W : f == 2 ? W / M : W / int(m);
    o[0] = int(unsigned{x.month()}); o[1] = int(x.weekday_indexed().weekday().c_encoding()); o[2] = int(x.weekday_indexed().index()); o[3] = x.ok(); }
VF_E void slash_mwdl(unsigned f, unsigned m, unsigned w, int* o) { auto const M = ch::month{m}; auto const W = ch::weekday{w}[ch::last];
    auto const x = f == 0 ? M / W : f == 1 ? int(m) / W : f == 2 ? W / M : W / int(m);
    o[0] = int(unsigned{x.month()}); o[1] = int(x.weekday_last().weekday().c_encoding()); o[2] = x.ok(); }
// comparison operators: bit 0 ==, 1 <, 2 <=, 3 >, 4 >=
VF_E unsigned year_cmp(int a, int b) { auto const x = ch::year{a}; auto const y = ch::year{b}; return unsigned(x == y) | (unsigned(x < y) << 1) | (unsigned(x <= y) << 2) | (unsigned(x > y) << 3) | (unsigned(x >= y) << 4); }
VF_E unsigned month_cmp(unsigned a, unsigned b) { auto const x = ch::month{a}; auto const y = ch::month{b}; return unsigned(x == y) | (unsigned(x < y) << 1) | (unsigned(x <= y) << 2) | (unsigned(x > y) << 3) | (unsigned(x >= y) << 4); }
VF_E unsigned day_cmp(unsigned a, unsigned b) { auto const x = ch::day{a}; auto const y = ch::day{b}; return unsigned(x == y) | (unsigned(x < y) << 1) | (unsigned(x <= y) << 2) | (unsigned(x > y) << 3) | (unsigned(x >= y) << 4); }
// operator== of the composite classes: bit 0 year_month, 1 year_month_day, 2 month_day, 3 month_day_last, 4 month_weekday, 5 month_weekday_last, 6 weekday, 7 weekday_indexed, 8 weekday_last
VF_E unsigned eq_all(int y, unsigned m, unsigned d, unsigned w, unsigned i, int y2, unsigned m2, unsigned d2, unsigned w2, unsigned i2) {
    auto const Y = ch::year{y}; auto const M = ch::month{m}; auto const D = ch::day{d}; auto const W = ch::weekday{w};
    auto const Y2 = ch::year{y2}; auto const M2 = ch::month{m2}; auto const D2 = ch::day{d2}; auto const W2 = ch::weekday{w2};
    unsigned r = 0;
    if (ch::year_month{Y, M} == ch::year_month{Y2, M2}) { r |= 1U; }
    if (ch::year_month_day{Y, M, D} == ch::year_month_day{Y2, M2, D2}) { r |= 2U; }
    if (ch::month_day{M, D} == ch::month_day{M2, D2}) { r |= 4U; }
    if (ch::month_day_last{M} == ch::month_day_last{M2}) { r |= 8U; }
    if (ch::month_weekday{M, ch::weekday_indexed{W, i}} == ch::month_weekday{M2, ch::weekday_indexed{W2, i2}}) { r |= 16U; }
    if (ch::month_weekday_last{M, ch::weekday_last{W}} == ch::month_weekday_last{M2, ch::weekday_last{W2}}) { r |= 32U; }
    if (W == W2) { r |= 64U; }
    if (ch::weekday_indexed{W, i} == ch::weekday_indexed{W2, i2}) { r |= 128U; }
    if (ch::weekday_last{W} == ch::weekday_last{W2}) { r |= 256U; }
    return r; }
// the local_days constructors (separate function bodies from the sys_days ones)
VF_E void ymd_from_local(int z, int* y, unsigned* m, unsigned* d) { ch::year_month_day ymd{ch::local_days{ch::days{z}}}; *y = int{ymd.year()}; *m = unsigned{ymd.month()}; *d = unsigned{ymd.day()}; }
VF_E unsigned wd_from_local(int z) { return ch::weekday{ch::local_days{ch::days{z}}}.c_encoding(); }
}
