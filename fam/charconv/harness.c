/* charconv: lemma harnesses for C10 (integer <-> text conversion is exact, round-trips, respects the buffer) and C02.
 * Oracles: [charconv.to.chars], [charconv.from.chars], C strtol/strtoul/atoi ([7.22.1]), [string.conversions]; the tetl-only
 * strings::from_integer / to_integer are held to the same numeral grammar (their own result/error enums).
 * Formatting: EXACT-size output buffer of symbolic length L in [0, W+2] (W = bit width = longest digit run, base 2), symbolic
 * value, base in [2,36]; the characters are read back by a Horner loop (128-bit accumulator).  Parsing: exact-size input of symbolic
 * length over ALL byte values, compared with the reference grammar loop s_parse_* (value, characters consumed, error class).
 * One type per group so that every known-finding witness class is probed on its own. */
typedef unsigned char u8; typedef unsigned short u16; typedef unsigned int u32; typedef unsigned long long u64;
typedef signed char i8; typedef short i16; typedef int i32; typedef long long i64;
#include "vf_handler.h"
#define EXPECT_VIOLATION() (vf_expect_handler = 1)

#define SMIN(W) (-((vf_i128)1 << ((W) - 1)))
#define SMAX(W) (((vf_i128)1 << ((W) - 1)) - 1)
#define UMAX(W) ((((vf_i128)1) << (W)) - 1)
#define LO_i8 SMIN(8)
#define HI_i8 SMAX(8)
#define LO_u8 0
#define HI_u8 UMAX(8)
#define LO_i16 SMIN(16)
#define HI_i16 SMAX(16)
#define LO_u16 0
#define HI_u16 UMAX(16)
#define LO_i32 SMIN(32)
#define HI_i32 SMAX(32)
#define LO_u32 0
#define HI_u32 UMAX(32)
#define LO_i64 SMIN(64)
#define HI_i64 SMAX(64)
#define LO_u64 0
#define HI_u64 UMAX(64)
#define SGN_i8 1
#define SGN_u8 0
#define SGN_i16 1
#define SGN_u16 0
#define SGN_i32 1
#define SGN_u32 0
#define SGN_i64 1
#define SGN_u64 0

/* 16-bit parse / round-trip groups: split=CC_B:2:36, one cell per base; digits of 2^16-1 in that base */
#ifdef CC_B
#define CC_D16 (CC_B == 2 ? 16 : (CC_B == 3 ? 11 : (CC_B == 4 ? 8 : (CC_B <= 6 ? 7 : (CC_B <= 9 ? 6 : (CC_B <= 15 ? 5 : 4))))))
#endif
/* fixed bases of the 32/64-bit groups: cell index CC_BI -> base 8, 16 (powers of two: cells 0:1), 10, 36 (cells 2:3);
 * base 2 has its own groups (longer unwinding) */
#ifdef CC_BI
#define CC_BASE (CC_BI == 0 ? 8 : (CC_BI == 1 ? 16 : (CC_BI == 2 ? 10 : 36)))
/* digits of 2^32-1 / 2^64-1 in that base */
#define CC_D32 (CC_BI == 0 ? 11 : (CC_BI == 1 ? 8 : (CC_BI == 2 ? 10 : 7)))
#define CC_D64 (CC_BI == 0 ? 22 : (CC_BI == 1 ? 16 : (CC_BI == 2 ? 20 : 13)))
#endif

/* ---- exact-size output buffer.  CBMC: malloc(L), an access outside [first,last) is a bounds failure.  Native replay: 16 guard
 * bytes on either side (ASan cannot see a store to p[0] of a zero-length range because malloc(0) is not portable) ------------ */
#ifdef VF_NATIVE
static char *cc_raw; static unsigned long cc_len;
static char *cc_alloc(unsigned long n) { cc_raw = (char *)malloc(n + 32); memset(cc_raw, 0x5A, n + 32); cc_len = n; return cc_raw + 16; }
static void cc_guard_check(void) { _Bool ok = 1; for (int i = 0; i < 16; ++i) ok = ok && cc_raw[i] == 0x5A && cc_raw[16 + cc_len + i] == 0x5A;
  if (!ok) vf_fail("C02: a byte outside [first,last) was written (guard bytes around the exact-size buffer changed)"); }
#define CC_GUARD_CHECK() cc_guard_check()
#else
#define cc_alloc(n) ((char *)malloc(n))
#define CC_GUARD_CHECK() ((void)0)
#endif
#define CC_OUT(name, n, MAX)                                                                                            \
    VF_INPUT_ARR(char, name##_in, (MAX) + 1);                                                                           \
    __CPROVER_assume((unsigned long)(n) <= (unsigned long)(MAX));                                                       \
    char *name = cc_alloc((unsigned long)(n));                                                                          \
    for (unsigned long vf_i_##name = 0; vf_i_##name < (unsigned long)(n); ++vf_i_##name) name[vf_i_##name] = name##_in[vf_i_##name]

/* same, but one constant-size heap object per possible length: the written index stays symbolic (the '-' of a negative value), and a
 * symbolic index into a symbolic-size object sends CBMC's array theory out of memory for the 64-bit groups */
#ifdef VF_NATIVE
#define CC_OUT_CASES(name, n, MAX) CC_OUT(name, n, MAX)
#else
#define CC_OUT_CASES(name, n, MAX)                                                                                      \
    VF_INPUT_ARR(char, name##_in, (MAX) + 1);                                                                           \
    __CPROVER_assume((unsigned long)(n) <= (unsigned long)(MAX));                                                       \
    char *name = 0;                                                                                                     \
    for (unsigned long vf_k_##name = 0; vf_k_##name <= (unsigned long)(MAX); ++vf_k_##name) if ((unsigned long)(n) == vf_k_##name) {            \
        name = (char *)malloc(vf_k_##name); for (unsigned long vf_i_##name = 0; vf_i_##name < vf_k_##name; ++vf_i_##name) name[vf_i_##name] = name##_in[vf_i_##name]; }
#endif
/* ---- character classes ----------------------------------------------------------------------------------------------- */
static int s_digit(char c) { if (c >= '0' && c <= '9') return c - '0'; if (c >= 'a' && c <= 'z') return c - 'a' + 10; if (c >= 'A' && c <= 'Z') return c - 'A' + 10; return 99; }
static int s_digit_lc(char c) { if (c >= '0' && c <= '9') return c - '0'; if (c >= 'a' && c <= 'z') return c - 'a' + 10; return 99; }
static _Bool s_space(char c) { return c == ' ' || c == '\t' || c == '\n' || c == '\v' || c == '\f' || c == '\r'; }

/* ---- formatting reference ---------------------------------------------------------------------------------------------- */
/* The reference accumulators are 128 bit wide for the 64-bit types (sfx w).  For the narrower types a 32-bit (W <= 16, sfx s) or 64-bit (W == 32, sfx n) accumulator
 * that SATURATES at 2^(W+1) (> every representable magnitude) is used: a 128-bit multiplication by a symbolic base costs minutes
 * of SAT time per harness, and saturation keeps the comparison with |value| / the limits exact (no wrap-around either way). */
typedef struct { _Bool sign_ok, digits_ok; vf_u128 acc; } rb_t;
#define DEF_FMT_SPEC(sfx, ACC)                                                                                            \
/* number of digits of mag in the base: the smallest n >= 1 with mag < base^n (no division) */                           \
static int s_ndigits_##sfx(vf_u128 mag_, int base, int D) { int n = 1; const ACC mag = (ACC)mag_; ACC pw = (ACC)base;      \
  for (int k = 0; k < D; ++k) { if (mag >= pw) { ++n; pw *= (ACC)base; } else break; } return n; }                       \
/* reads the numeral p[0..n) back: optional '-', then digits most significant first */                                   \
static rb_t s_readback_##sfx(const char *p, int n, int base, _Bool neg, int W, int D) { rb_t r; ACC acc = 0; const ACC cap = (ACC)1 << (W + 1); r.digits_ok = 1; \
  int i = 0; r.sign_ok = neg ? (n >= 1 && p[0] == '-') : (n >= 1 && p[0] != '-'); if (neg) i = 1;                        \
  if (i >= n) r.digits_ok = 0;                                                                                           \
  else if (p[i] == '0' && n - i > 1) r.digits_ok = 0;      /* no redundant leading zero */                               \
  for (int k = 0; k < D + 1; ++k) if (k >= i && k < n) { int d = s_digit_lc(p[k]); if (d >= base) r.digits_ok = 0; else { acc = acc * (ACC)base + (ACC)d; if (acc > cap) acc = cap; } } \
  r.acc = acc; return r; }
DEF_FMT_SPEC(s, u32)
DEF_FMT_SPEC(n, u64)
DEF_FMT_SPEC(w, vf_u128)
#define SFX_i8 s
#define SFX_u8 s
#define SFX_i16 s
#define SFX_u16 s
#define SFX_i32 n
#define SFX_u32 n
#define SFX_i64 w
#define SFX_u64 w
#define CAT_(a, b) a##b
#define CAT(a, b) CAT_(a, b)

#define SYM_BASE() VF_INPUT(int, base); __CPROVER_assume(base >= 2 && base <= 36)
/* inputs (function scope) and derived reference values for formatting one value of type T into an exact-size buffer of L <= MAXL */
#define FMT_VAL(T, W, D)                                                                                                   \
    VF_INPUT(T, v);                                                                                                      \
    const _Bool neg = SGN_##T && v < 0; const vf_u128 mag = neg ? (vf_u128)(-(vf_i128)v) : (vf_u128)v;                   \
    const int n = CAT(s_ndigits_, SFX_##T)(mag, base, D) + neg /* length of the numeral */
#define FMT_PRE(T, W, D, MAXL) VF_INPUT(u8, L_in); CC_OUT(p, L_in, MAXL); const int L = L_in; FMT_VAL(T, W, D)
#define FMT_PRE_CASES(T, W, D, MAXL) VF_INPUT(u8, L_in); CC_OUT_CASES(p, L_in, MAXL); const int L = L_in; FMT_VAL(T, W, D)
#define TO_CHARS_POST(T, W, D)                                                                                              \
    char *ptr = 0; int ec = 9; to_chars_##T(p, p + L, v, base, &ptr, &ec); CC_GUARD_CHECK();                              \
    if (n <= L) {                                                                                                        \
        VF_ASSERT(ec == 0, "to_chars<" #T ">: ec == errc{} whenever the numeral fits into [first,last), exact fit included"); \
        VF_ASSERT(ptr == p + n, "to_chars<" #T ">: ptr - first == length of the numeral");                               \
        rb_t rb = CAT(s_readback_, SFX_##T)(p, n, base, neg, W, D);                                                                  \
        VF_ASSERT(rb.sign_ok, "to_chars<" #T ">: '-' is the first character iff value < 0, in every base");                \
        VF_ASSERT(rb.digits_ok, "to_chars<" #T ">: lowercase digits below the base, at least one, no redundant leading zero"); \
        VF_ASSERT(rb.acc == mag, "to_chars<" #T ">: the digits read back by Horner's rule equal |value|");               \
    } else {                                                                                                             \
        VF_ASSERT(ec == 1, "to_chars<" #T ">: ec == value_too_large when the numeral does not fit");                     \
        VF_ASSERT(ptr == p + L, "to_chars<" #T ">: ptr == last when the numeral does not fit");                          \
    }                                                                                                                    \
    VF_REACH()
/* strings::from_integer with the default options appends a terminator: fits iff numeral + NUL <= length */
#define FROM_INTEGER_POST(T, W, D)                                                                                          \
    char *end = 0; int err = 9; from_integer_##T(v, p, (unsigned long)L, base, &end, &err); CC_GUARD_CHECK();            \
    if (n + 1 <= L) {                                                                                                    \
        VF_ASSERT(err == 0, "from_integer<" #T ">: error == none whenever numeral and terminator fit");                  \
        VF_ASSERT(end == p + n, "from_integer<" #T ">: end - str == length of the numeral");                             \
        VF_ASSERT(p[n] == 0, "from_integer<" #T ">: terminator behind the numeral");                                     \
        rb_t rb = CAT(s_readback_, SFX_##T)(p, n, base, neg, W, D);                                                                  \
        VF_ASSERT(rb.sign_ok, "from_integer<" #T ">: '-' is the first character iff value < 0, in every base");            \
        VF_ASSERT(rb.digits_ok, "from_integer<" #T ">: lowercase digits below the base, at least one, no redundant leading zero"); \
        VF_ASSERT(rb.acc == mag, "from_integer<" #T ">: the digits read back by Horner's rule equal |value|");           \
    } else {                                                                                                             \
        VF_ASSERT(err == 1, "from_integer<" #T ">: error == overflow when numeral and terminator do not fit");           \
    }                                                                                                                    \
    VF_REACH()

/* ---- parsing reference: optional whitespace, optional sign, optional 0x / base detection, longest digit run ---------------- */
#define F_WS 1u
#define F_MINUS 2u
#define F_PLUS 4u
#define F_PREFIX 8u
/* cls: 0 value, 1 no conversion (consumed == 0, value == 0), 2 out of range (value == the limit it was clamped to) */
typedef struct { vf_i128 value; int consumed; int cls; _Bool minus, plus, prefix; int ws; } ref_t;
/* Accumulation is exact: every step is computed in the double-width type WS/WU (64 bit for W <= 32, 128 bit for W == 64) and
 * compared with the limit BEFORE the running value is updated, so the running value cur always lies in [lo, 0] (signed targets:
 * negative accumulation reaches numeric_limits::min()) or [0, hi] (unsigned targets) and fits the narrow type NS/NU without wrap.
 * Keeping cur narrow matters for SAT only: a 128-bit chain against the library's 64-bit chain does not finish in 20 minutes. */
#define DEF_PARSE_SPEC(sfx, NS, NU, WS, WU)                                                                               \
static ref_t s_parse_##sfx(const char *s, int n, int base, unsigned fl, vf_i128 lo, vf_i128 hi, _Bool wrapneg, int W, int maxn) { \
  ref_t r; r.value = 0; r.consumed = 0; r.cls = 0; r.minus = 0; r.plus = 0; r.prefix = 0; int i = 0;                     \
  if (fl & F_WS) for (int k = 0; k < maxn; ++k) { if (i < n && s_space(s[i])) ++i; else break; }                        \
  r.ws = i;                                                                                                              \
  if (i < n && s[i] == '-' && (fl & F_MINUS)) { r.minus = 1; ++i; }                                                      \
  else if (i < n && s[i] == '+' && (fl & F_PLUS)) { r.plus = 1; ++i; }                                                   \
  if (fl & F_PREFIX) {                                                                                                   \
    if ((base == 16 || base == 0) && i + 2 < n && s[i] == '0' && (s[i + 1] == 'x' || s[i + 1] == 'X') && s_digit(s[i + 2]) < 16) { r.prefix = 1; i += 2; base = 16; } \
    else if (base == 0) base = (i < n && s[i] == '0') ? 8 : 10;                                                          \
  }                                                                                                                      \
  const int start = i; _Bool ovf = 0; const _Bool sgn = lo < 0; NS ncur = 0; NU ucur = 0;                                \
  for (int k = 0; k < maxn; ++k) { if (i >= n) break; const int d = s_digit(s[i]); if (d >= base) break; ++i;            \
    if (ovf) continue;                                                                                                   \
    if (sgn) { const WS wide = (WS)ncur * (WS)base - (WS)d; if (wide < (WS)lo) ovf = 1; else ncur = (NS)(ncur * (NS)base - (NS)d); } \
    else { const WU wide = (WU)ucur * (WU)base + (WU)d; if (wide > (WU)hi) ovf = 1; else ucur = (NU)(ucur * (NU)base + (NU)d); } } \
  if (i == start) { r.cls = 1; r.minus = 0; r.plus = 0; r.prefix = 0; return r; }                                       \
  r.consumed = i;                                                                                                        \
  if (sgn) { if (ovf) { r.cls = 2; r.value = r.minus ? lo : hi; }                                                        \
    else if (r.minus) r.value = (vf_i128)ncur;                                                                           \
    else if (-(vf_i128)ncur > hi) { r.cls = 2; r.value = hi; } else r.value = -(vf_i128)ncur; }                          \
  else { if (ovf) { r.cls = 2; r.value = hi; }  /* strtoul: range test on the magnitude, then negation in the unsigned type */ \
    else r.value = (wrapneg && r.minus && ucur != 0) ? ((((vf_i128)1) << W) - (vf_i128)ucur) : (vf_i128)ucur; }          \
  return r; }
DEF_PARSE_SPEC(s, i32, u32, i64, u64)
DEF_PARSE_SPEC(n, i32, u32, i64, u64)
DEF_PARSE_SPEC(w, i64, u64, vf_i128, vf_u128)

/* exact-size input range [s, s+n) over all byte values / exact-size terminated string of length <= n */
#define RANGE_IN(MAXL) VF_INPUT(u8, n_in); VF_BUF(char, s, n_in, MAXL); const int n = n_in
#define CSTR_IN(MAXL) VF_INPUT(u8, n_in); __CPROVER_assume(n_in <= (MAXL)); VF_BUF(char, s, (unsigned long)n_in + 1, (MAXL) + 1); s[n_in] = 0; const int n = n_in

#define FROM_CHARS_PRE(T, W, MAXL) VF_INPUT(T, val0); T val = val0; const ref_t r = CAT(s_parse_, SFX_##T)(s, n, base, SGN_##T ? F_MINUS : 0u, LO_##T, HI_##T, 0, W, MAXL)
#define FROM_CHARS_POST(T, PTR_GUARD)                                                                                    \
    char *ptr = 0; int ec = 9; from_chars_##T(s, s + n, &val, base, &ptr, &ec);                                          \
    VF_ASSERT(ec == (r.cls == 0 ? 0 : (r.cls == 1 ? 3 : 2)), "from_chars<" #T ">: ec is {} / invalid_argument (no digits) / result_out_of_range exactly beyond numeric_limits min and max"); \
    if (PTR_GUARD) VF_ASSERT(ptr == s + r.consumed, "from_chars<" #T ">: ptr == first + longest run matching the pattern (also on result_out_of_range), first if nothing matches"); \
    VF_ASSERT(val == (r.cls == 0 ? (T)r.value : val0), "from_chars<" #T ">: value == the parsed number, unmodified on error"); \
    VF_REACH()
#define TO_INTEGER_PRE(T, W, MAXL) const ref_t r = CAT(s_parse_, SFX_##T)(s, n, base, F_WS | (SGN_##T ? F_MINUS : 0u), LO_##T, HI_##T, 0, W, MAXL)
#define TO_INTEGER_POST(T)                                                                                               \
    char *end = 0; int err = 9; T val = 0; to_integer_##T(s, (unsigned long)n, (T)base, &end, &err, &val);                \
    VF_ASSERT(err == r.cls, "to_integer<" #T ">: error is none / invalid_input (no digits) / overflow exactly beyond numeric_limits min and max"); \
    if (r.cls == 0) { VF_ASSERT(val == (T)r.value, "to_integer<" #T ">: value == the parsed number");                    \
        VF_ASSERT(end == s + r.consumed, "to_integer<" #T ">: end == begin + whitespace + sign + longest digit run"); }    \
    VF_REACH()

/* C library: value / 0 and end == str without conversion / limit and end behind the digits when out of range */
#define STRTO_PRE(T, MAXL, WRAP) VF_INPUT_BOOL(want_end); const ref_t r = CAT(s_parse_, SFX_##T)(s, n, base, F_WS | F_MINUS | F_PLUS | F_PREFIX, LO_##T, HI_##T, WRAP, 64, MAXL)
#define STRTO_POST(FN, RT)                                                                                               \
    char *end = s + n; RT got = FN(s, want_end ? &end : (char **)0, base);                                                \
    VF_ASSERT(got == (RT)r.value, #FN ": result == parsed value; 0 without conversion; LONG_MIN/LONG_MAX/ULONG_MAX when out of range"); \
    if (want_end) VF_ASSERT(end == s + r.consumed, #FN ": *str_end == behind whitespace, sign, prefix and the longest digit run; str without conversion")
#define ATO_PRE(T, W, MAXL) const ref_t r = CAT(s_parse_, SFX_##T)(s, n, 10, F_WS | F_MINUS | F_PLUS, LO_##T, HI_##T, 0, W, MAXL)
#define ATO_POST(FN, RT) { RT got = FN(s); if (r.cls != 2) VF_ASSERT(got == (RT)r.value, #FN ": result == parsed value, 0 without conversion (out of range is undefined in C: no claim)"); }
/* sto*: std throws without conversion / out of range (no exceptions in tetl: no claim); otherwise value and *pos */
#define STO_PRE(T, W, MAXL, WRAP) VF_INPUT_BOOL(want_pos); const ref_t r = CAT(s_parse_, SFX_##T)(s, n, base, F_WS | F_MINUS | F_PLUS | F_PREFIX, LO_##T, HI_##T, WRAP, W, MAXL)
#define STO_POST(FN, RT) { unsigned long pos = 99; RT got = FN(s, (unsigned long)n, want_pos ? &pos : (unsigned long *)0, base);          \
    if (r.cls == 0) { VF_ASSERT(got == (RT)r.value, #FN ": result == parsed value"); if (want_pos) VF_ASSERT(pos == (unsigned long)r.consumed, #FN ": *pos == number of characters processed"); } }

/* =========================================== formatting, 8 bit (quick) ================================================== */
/*@GROUP name=to_chars_i8 props=C10,C02 kind=K unwind=12 solver=kissat@*/
void h_to_chars_i8(void) { SYM_BASE(); FMT_PRE(i8, 8, 8, 10);
  TO_CHARS_POST(i8, 8, 8); }

/*@GROUP name=to_chars_u8 props=C10,C02 kind=K unwind=12 solver=kissat@*/
void h_to_chars_u8(void) { SYM_BASE(); FMT_PRE(u8, 8, 8, 10);
  TO_CHARS_POST(u8, 8, 8); }

/*@GROUP name=from_integer_i8 props=C10,C02 kind=K unwind=12 solver=kissat@*/
void h_from_integer_i8(void) { SYM_BASE(); FMT_PRE(i8, 8, 8, 10);
  FROM_INTEGER_POST(i8, 8, 8); }

/*@GROUP name=from_integer_u8 props=C10,C02 kind=K unwind=12 solver=kissat@*/
void h_from_integer_u8(void) { SYM_BASE(); FMT_PRE(u8, 8, 8, 10);
  FROM_INTEGER_POST(u8, 8, 8); }

/* =========================================== parsing, 8 bit (quick) ===================================================== */
/*@GROUP name=from_chars_i8 props=C10,C02 kind=K unwind=14 solver=kissat@*/
void h_from_chars_i8(void) { SYM_BASE(); RANGE_IN(11); FROM_CHARS_PRE(i8, 8, 11);
  FROM_CHARS_POST(i8, VF_KNOWN_GUARD(C10_from_chars_out_of_range_ptr, r.cls == 2)); }

/*@GROUP name=from_chars_u8 props=C10,C02 kind=K unwind=14 solver=kissat@*/
void h_from_chars_u8(void) { SYM_BASE(); RANGE_IN(11); FROM_CHARS_PRE(u8, 8, 11);
  FROM_CHARS_POST(u8, VF_KNOWN_GUARD(C10_from_chars_out_of_range_ptr, r.cls == 2)); }

/*@GROUP name=to_integer_i8 props=C10,C02 kind=K unwind=14 solver=kissat@*/
void h_to_integer_i8(void) { SYM_BASE(); RANGE_IN(11); TO_INTEGER_PRE(i8, 8, 11);
  TO_INTEGER_POST(i8); }

/*@GROUP name=to_integer_u8 props=C10,C02 kind=K unwind=14 solver=kissat@*/
void h_to_integer_u8(void) { SYM_BASE(); RANGE_IN(11); TO_INTEGER_PRE(u8, 8, 11);
  TO_INTEGER_POST(u8); }

/* C-library grammar at 8 bits: value (negated in the unsigned type after '-'), end behind the digit run also on overflow, the clamp
 * (max, or min after '-' for the signed type; max for the unsigned type) and the error class */
/*@GROUP name=to_integer_c8 props=C10,C02 kind=K unwind=14 solver=kissat@*/
void h_to_integer_c8(void) { VF_INPUT(u8, bsel); const int base = bsel == 0 ? 0 : (bsel == 1 ? 10 : (bsel == 2 ? 16 : 2)); __CPROVER_assume(bsel <= 3); RANGE_IN(11); VF_INPUT_BOOL(sg);
  if (sg) { const ref_t r = s_parse_s(s, n, base, F_WS | F_MINUS | F_PLUS | F_PREFIX, LO_i8, HI_i8, 0, 8, 11); char *end = 0; int err = 9; i8 val = 0; to_integer_c_i8(s, (unsigned long)n, (i8)base, &end, &err, &val);
    VF_ASSERT(err == r.cls, "to_integer<i8, C grammar>: error class"); if (r.cls != 1) { VF_ASSERT(val == (i8)r.value, "to_integer<i8, C grammar>: value, clamped to min/max on overflow"); VF_ASSERT(end == s + r.consumed, "to_integer<i8, C grammar>: end behind the digit run, also on overflow"); } }
  else { const ref_t r = s_parse_s(s, n, base, F_WS | F_MINUS | F_PLUS | F_PREFIX, LO_u8, HI_u8, 1, 8, 11); char *end = 0; int err = 9; u8 val = 0; to_integer_c_u8(s, (unsigned long)n, (u8)base, &end, &err, &val);
    VF_ASSERT(err == r.cls, "to_integer<u8, C grammar>: error class"); if (r.cls != 1) { VF_ASSERT(val == (u8)r.value, "to_integer<u8, C grammar>: value negated in the unsigned type after '-', max on overflow (also after '-')"); VF_ASSERT(end == s + r.consumed, "to_integer<u8, C grammar>: end behind the digit run, also on overflow"); } }
  VF_REACH(); }

/* =========================================== round trip, 8 bit (quick) ================================================== */
/*@COMMON@*/
#define ROUNDTRIP_PRE(T, W) VF_INPUT(T, v); CC_OUT(p, (W) + 2, (W) + 2)
#define ROUNDTRIP_POST(T, W)                                                                                             \
    char *ptr = 0; int ec = 9; to_chars_##T(p, p + (W) + 2, v, base, &ptr, &ec); CC_GUARD_CHECK();                        \
    VF_ASSERT(ec == 0 && ptr > p && ptr <= p + (W) + 1, "to_chars<" #T "> succeeds in a buffer of digits+2 characters");  \
    T back = (T)~v; char *ptr2 = 0; int ec2 = 9; from_chars_##T(p, ptr, &back, base, &ptr2, &ec2);                        \
    VF_ASSERT(ec2 == 0 && ptr2 == ptr && back == v, "from_chars<" #T ">(to_chars(v, base), base) == v and the whole numeral is consumed"); \
    VF_REACH()
/* to_string<N>(v): base 10, result of size() == numeral length holding the numeral; the wrapper copies size() characters out */
#define TO_STRING_POST(FN, T, W, D, N)                                                                                      \
    unsigned long size = 99; CC_OUT(out, N, N); FN(v, &size, out); CC_GUARD_CHECK();                                      \
    VF_ASSERT(size == (unsigned long)n, #FN ": size() == length of the decimal numeral");                                \
    if (size == (unsigned long)n) { rb_t rb = CAT(s_readback_, SFX_##T)(out, n, 10, neg, W, D);                              \
        VF_ASSERT(rb.sign_ok && rb.digits_ok && rb.acc == mag, #FN ": '-' iff negative, decimal digits without leading zero, read back == |value|"); } \
    VF_REACH()

/*@GROUP name=roundtrip_i8 props=C10,C02 kind=K unwind=13 solver=kissat@*/
void h_roundtrip_i8(void) { SYM_BASE(); ROUNDTRIP_PRE(i8, 8);
  ROUNDTRIP_POST(i8, 8); }

/*@GROUP name=roundtrip_u8 props=C10,C02 kind=K unwind=13 solver=kissat@*/
void h_roundtrip_u8(void) { SYM_BASE(); ROUNDTRIP_PRE(u8, 8); ROUNDTRIP_POST(u8, 8); }

/* =========================================== to_string (base 10) ======================================================== */
/*@GROUP name=to_string_4 props=C10,C02,C05 kind=K unwind=13 solver=kissat@*/
void h_to_string_4(void) { const int base = 10; VF_INPUT_BOOL(uns);
  if (uns) { FMT_VAL(u32, 32, 10); __CPROVER_assume(n + 1 <= 4); TO_STRING_POST(to_string_4_uint, u32, 32, 10, 4); }
  else { FMT_VAL(i32, 32, 10); __CPROVER_assume(n + 1 <= 4); TO_STRING_POST(to_string_4_int, i32, 32, 10, 4); } }

/*@GROUP name=viol_to_string props=C05,C02 kind=K unwind=13 solver=kissat@*/
void h_viol_to_string(void) { const int base = 10; VF_INPUT_BOOL(uns); unsigned long size = 99; CC_OUT(out, 4, 4); EXPECT_VIOLATION();
  if (uns) { FMT_VAL(u32, 32, 10); __CPROVER_assume(n + 1 > 4); to_string_4_uint(v, &size, out); }
  else { FMT_VAL(i32, 32, 10); __CPROVER_assume(n + 1 > 4); to_string_4_int(v, &size, out); }
  VF_NORETURN_EXPECTED(); }

/* =========================================== 16 bit (thorough) ======================================================== */
/* formatting: symbolic base (5 - 10 min per group).  Parsing and round trip: one cell per base 2..36 (split=CC_B:2:36) with
 * digits(base)+3 characters: with a symbolic base and 19 characters a group needs > 20 min, a cell about half a minute; the 35 cells
 * together are the complete (type, every base) proof. */
/*@GROUP name=to_chars_i16 props=C10,C02 kind=K unwind=20 tier=thorough timeout=1200 cost=8 solver=kissat@*/
void h_to_chars_i16(void) { SYM_BASE(); FMT_PRE(i16, 16, 16, 18);
  TO_CHARS_POST(i16, 16, 16); }

/*@GROUP name=to_chars_u16 props=C10,C02 kind=K unwind=20 tier=thorough timeout=1200 cost=8 solver=kissat@*/
void h_to_chars_u16(void) { SYM_BASE(); FMT_PRE(u16, 16, 16, 18);
  TO_CHARS_POST(u16, 16, 16); }

/*@GROUP name=from_integer_i16 props=C10,C02 kind=K unwind=20 tier=thorough timeout=1200 cost=8 solver=kissat@*/
void h_from_integer_i16(void) { SYM_BASE(); FMT_PRE(i16, 16, 16, 18);
  FROM_INTEGER_POST(i16, 16, 16); }

/*@GROUP name=from_integer_u16 props=C10,C02 kind=K unwind=20 tier=thorough timeout=1200 cost=8 solver=kissat@*/
void h_from_integer_u16(void) { SYM_BASE(); FMT_PRE(u16, 16, 16, 18);
  FROM_INTEGER_POST(u16, 16, 16); }

/*@GROUP name=from_chars_i16 props=C10,C02 kind=K unwind=22 tier=thorough timeout=600 cost=3 split=CC_B:2:36 solver=kissat@*/
void h_from_chars_i16(void) { const int base = CC_B; RANGE_IN(CC_D16 + 3); FROM_CHARS_PRE(i16, 16, CC_D16 + 3);
  FROM_CHARS_POST(i16, VF_KNOWN_GUARD(C10_from_chars_out_of_range_ptr, r.cls == 2)); }

/*@GROUP name=from_chars_u16 props=C10,C02 kind=K unwind=22 tier=thorough timeout=600 cost=3 split=CC_B:2:36 solver=kissat@*/
void h_from_chars_u16(void) { const int base = CC_B; RANGE_IN(CC_D16 + 3); FROM_CHARS_PRE(u16, 16, CC_D16 + 3);
  FROM_CHARS_POST(u16, VF_KNOWN_GUARD(C10_from_chars_out_of_range_ptr, r.cls == 2)); }

/*@GROUP name=to_integer_i16 props=C10,C02 kind=K unwind=22 tier=thorough timeout=600 cost=3 split=CC_B:2:36 solver=kissat@*/
void h_to_integer_i16(void) { const int base = CC_B; RANGE_IN(CC_D16 + 3); TO_INTEGER_PRE(i16, 16, CC_D16 + 3); TO_INTEGER_POST(i16); }

/*@GROUP name=to_integer_u16 props=C10,C02 kind=K unwind=22 tier=thorough timeout=600 cost=3 split=CC_B:2:36 solver=kissat@*/
void h_to_integer_u16(void) { const int base = CC_B; RANGE_IN(CC_D16 + 3); TO_INTEGER_PRE(u16, 16, CC_D16 + 3); TO_INTEGER_POST(u16); }

/*@GROUP name=roundtrip_i16 props=C10,C02 kind=K unwind=21 tier=thorough timeout=600 cost=3 split=CC_B:2:36 solver=kissat@*/
void h_roundtrip_i16(void) { const int base = CC_B; ROUNDTRIP_PRE(i16, 16);
  ROUNDTRIP_POST(i16, 16); }

/*@GROUP name=roundtrip_u16 props=C10,C02 kind=K unwind=21 tier=thorough timeout=600 cost=3 split=CC_B:2:36 solver=kissat@*/
void h_roundtrip_u16(void) { const int base = CC_B; ROUNDTRIP_PRE(u16, 16); ROUNDTRIP_POST(u16, 16); }

/* =========================================== 32 / 64 bit, base fixed per cell (thorough) ================================== */
/* split=CC_BI:0:3 -> base 8, 16, 10, 36 (one K proof per (type, base) cell); base 2 in *_b2 groups (longest unwinding).
 * Symbolic-base division/multiplication relations at 32/64 bit are SAT-hard, a constant base is not.  What does not finish in
 * 20 minutes on the full domain (64-bit formatting in bases 10 and 36, the 64-bit C-string functions) is checked on a window
 * and declared kind=B. */
/*@COMMON@*/
/* value window (kind=B): |v| < 2^16, or within 2^16 of numeric_limits max, or of numeric_limits min */
#define WINDOW_VAL_(T, K) VF_INPUT(u8, win); { const vf_i128 vv = (vf_i128)v;                                             \
    __CPROVER_assume(win == 0 ? (vv > -(K) && vv < (K)) : (win == 1 ? vv > HI_##T - (K) : vv < LO_##T + (K))); }
#define WINDOW_VAL(T) WINDOW_VAL_(T, 65536)
/* string windows (kind=B).  Measured: the cost of the string groups is dominated by the unwinding over the buffer length, a 64-bit
 * C-string cell over the full digits+3 domain needs 15 - 20+ min.  So the 64-bit C-library / <string> functions are checked
 * (a) on every string of length <= 8 (all byte values) and (b) on numerals next to the limits: no leading whitespace, optional
 * sign, then the first digits-4 digits of numeric_limits max (of |min| behind '-'), then free bytes: limit, limit +- 1, one digit
 * too many and every shorter tail are inside.  The 64-bit arithmetic core (strings::to_integer) has its full-domain K proofs in
 * from_chars_i64 / from_chars_u64 / to_integer_u64. */
static int s_numeral_w(vf_u128 x, int base, char *out) { char tmp[66]; int n = 0;
  do { const int d = (int)(x % (vf_u128)base); tmp[n++] = (char)(d < 10 ? '0' + d : 'a' + d - 10); x /= (vf_u128)base; } while (x != 0);
  for (int k = 0; k < n; ++k) out[k] = tmp[n - 1 - k]; return n; }
#define NEAR_LIMIT_STR(T, MAXL) { char np[66], nm[66];                                                                    \
      const int lp = s_numeral_w((vf_u128)(HI_##T), base, np); const int lm = s_numeral_w(SGN_##T ? (vf_u128)(-(LO_##T)) : (vf_u128)(HI_##T), base, nm); \
      __CPROVER_assume(n >= 1); const _Bool m = s[0] == '-'; const int off = (s[0] == '-' || s[0] == '+') ? 1 : 0;        \
      for (int k = 0; k < (MAXL); ++k) if (k < (m ? lm : lp) - 4) __CPROVER_assume(off + k < n && s[off + k] == (m ? nm[k] : np[k])); }

/* ---- formatting ---- */
/*@GROUP name=to_chars_i32 props=C10,C02 kind=K unwind=17 tier=thorough timeout=1200 split=CC_BI:0:3 cost=6 solver=kissat@*/
void h_to_chars_i32(void) { const int base = CC_BASE; FMT_PRE(i32, 32, CC_D32, CC_D32 + 3);
  TO_CHARS_POST(i32, 32, CC_D32); }

/*@GROUP name=to_chars_u32 props=C10,C02 kind=K unwind=17 tier=thorough timeout=1200 split=CC_BI:0:3 cost=6 solver=kissat@*/
void h_to_chars_u32(void) { const int base = CC_BASE; FMT_PRE(u32, 32, CC_D32, CC_D32 + 3);
  TO_CHARS_POST(u32, 32, CC_D32); }

/* signed 64-bit groups and base 2 use FMT_PRE_CASES (one constant-size buffer object per length): a symbolic index (behind the '-')
 * into a symbolic-size heap object sends CBMC's array theory out of memory (17 M variables / 73 M clauses at 10 GB) */
/*@GROUP name=to_chars_i32_b2 props=C10,C02 kind=K unwind=38 tier=thorough timeout=1200 cost=6 solver=kissat@*/
void h_to_chars_i32_b2(void) { const int base = 2; FMT_PRE_CASES(i32, 32, 32, 35);
  TO_CHARS_POST(i32, 32, 32); }

/* 64 bit: full domain for the power-of-two bases 8 and 16 (cells 0:1) */
/*@GROUP name=to_chars_i64 props=C10,C02 kind=K unwind=28 tier=thorough timeout=1200 split=CC_BI:0:1 cost=9 solver=kissat@*/
void h_to_chars_i64(void) { const int base = CC_BASE; FMT_PRE_CASES(i64, 64, CC_D64, CC_D64 + 3);
  TO_CHARS_POST(i64, 64, CC_D64); }

/*@GROUP name=to_chars_u64 props=C10,C02 kind=K unwind=28 tier=thorough timeout=1200 split=CC_BI:0:1 cost=9 solver=kissat@*/
void h_to_chars_u64(void) { const int base = CC_BASE; FMT_PRE(u64, 64, CC_D64, CC_D64 + 3);
  TO_CHARS_POST(u64, 64, CC_D64); }

/* 64 bit, bases 10 and 36 (cells 2:3): the full domain does not finish in 20 min -> value window */
/*@GROUP name=to_chars_i64_win props=C10,C02 kind=B bound=|v|<2^16_or_within_2^16_of_min/max unwind=28 tier=thorough timeout=1200 split=CC_BI:2:3 cost=5 solver=kissat@*/
void h_to_chars_i64_win(void) { const int base = CC_BASE; FMT_PRE_CASES(i64, 64, CC_D64, CC_D64 + 3); WINDOW_VAL(i64);
  TO_CHARS_POST(i64, 64, CC_D64); }

/*@GROUP name=to_chars_u64_win props=C10,C02 kind=B bound=v<2^16_or_within_2^16_of_max unwind=28 tier=thorough timeout=1200 split=CC_BI:2:3 cost=5 solver=kissat@*/
void h_to_chars_u64_win(void) { const int base = CC_BASE; FMT_PRE(u64, 64, CC_D64, CC_D64 + 3); WINDOW_VAL(u64);
  TO_CHARS_POST(u64, 64, CC_D64); }

/*@GROUP name=to_string_int props=C10,C02,C05 kind=K unwind=14 tier=thorough timeout=1200 cost=6 solver=kissat@*/
void h_to_string_int(void) { const int base = 10; VF_INPUT_BOOL(uns);
  if (uns) { FMT_VAL(u32, 32, 10); TO_STRING_POST(to_string_12_uint, u32, 32, 10, 12); }
  else { FMT_VAL(i32, 32, 10); TO_STRING_POST(to_string_12_int, i32, 32, 10, 12); } }

/*@GROUP name=to_string_ll_win props=C10,C02,C05 kind=B bound=|v|<2^16_or_within_2^16_of_min/max unwind=24 tier=thorough timeout=1200 cost=5 solver=kissat@*/
void h_to_string_ll_win(void) { const int base = 10; VF_INPUT(u8, which);
  if (which == 0) { FMT_VAL(u64, 64, 20); WINDOW_VAL(u64); TO_STRING_POST(to_string_21_ull, u64, 64, 20, 21); }
  else if (which == 1) { FMT_VAL(i64, 64, 20); WINDOW_VAL(i64); TO_STRING_POST(to_string_21_ll, i64, 64, 20, 21); }
  else if (which == 2) { FMT_VAL(u64, 64, 20); WINDOW_VAL(u64); TO_STRING_POST(to_string_21_ulong, u64, 64, 20, 21); }
  else { FMT_VAL(i64, 64, 20); WINDOW_VAL(i64); TO_STRING_POST(to_string_21_long, i64, 64, 20, 21); } }

/* ---- parsing: from_chars / to_integer on the full domain ---- */
/*@GROUP name=from_chars_i32 props=C10,C02 kind=K unwind=17 tier=thorough timeout=1200 split=CC_BI:0:3 cost=6 solver=kissat@*/
void h_from_chars_i32(void) { const int base = CC_BASE; RANGE_IN(CC_D32 + 3); FROM_CHARS_PRE(i32, 32, CC_D32 + 3);
  FROM_CHARS_POST(i32, VF_KNOWN_GUARD(C10_from_chars_out_of_range_ptr, r.cls == 2)); }

/*@GROUP name=from_chars_u32 props=C10,C02 kind=K unwind=17 tier=thorough timeout=1200 split=CC_BI:0:3 cost=6 solver=kissat@*/
void h_from_chars_u32(void) { const int base = CC_BASE; RANGE_IN(CC_D32 + 3); FROM_CHARS_PRE(u32, 32, CC_D32 + 3);
  FROM_CHARS_POST(u32, VF_KNOWN_GUARD(C10_from_chars_out_of_range_ptr, r.cls == 2)); }

/*@GROUP name=from_chars_i32_b2 props=C10,C02 kind=K unwind=38 tier=thorough timeout=1200 cost=6 solver=kissat@*/
void h_from_chars_i32_b2(void) { const int base = 2; RANGE_IN(35); FROM_CHARS_PRE(i32, 32, 35);
  FROM_CHARS_POST(i32, VF_KNOWN_GUARD(C10_from_chars_out_of_range_ptr, r.cls == 2)); }

/*@GROUP name=from_chars_i64 props=C10,C02 kind=K unwind=28 tier=thorough timeout=1500 split=CC_BI:0:3 cost=9 solver=kissat@*/
void h_from_chars_i64(void) { const int base = CC_BASE; RANGE_IN(CC_D64 + 3); FROM_CHARS_PRE(i64, 64, CC_D64 + 3);
  FROM_CHARS_POST(i64, VF_KNOWN_GUARD(C10_from_chars_out_of_range_ptr, r.cls == 2)); }

/*@GROUP name=from_chars_u64 props=C10,C02 kind=K unwind=28 tier=thorough timeout=1200 split=CC_BI:0:3 cost=6 solver=kissat@*/
void h_from_chars_u64(void) { const int base = CC_BASE; RANGE_IN(CC_D64 + 3); FROM_CHARS_PRE(u64, 64, CC_D64 + 3);
  FROM_CHARS_POST(u64, VF_KNOWN_GUARD(C10_from_chars_out_of_range_ptr, r.cls == 2)); }

/*@GROUP name=from_chars_u64_b2 props=C10,C02 kind=K unwind=70 tier=thorough timeout=1200 cost=6 solver=kissat@*/
void h_from_chars_u64_b2(void) { const int base = 2; RANGE_IN(67); FROM_CHARS_PRE(u64, 64, 67);
  FROM_CHARS_POST(u64, VF_KNOWN_GUARD(C10_from_chars_out_of_range_ptr, r.cls == 2)); }

/*@GROUP name=to_integer_i32 props=C10,C02 kind=K unwind=17 tier=thorough timeout=1200 split=CC_BI:0:3 cost=6 solver=kissat@*/
void h_to_integer_i32(void) { const int base = CC_BASE; RANGE_IN(CC_D32 + 3); TO_INTEGER_PRE(i32, 32, CC_D32 + 3); TO_INTEGER_POST(i32); }

/*@GROUP name=to_integer_u64 props=C10,C02 kind=K unwind=28 tier=thorough timeout=1200 split=CC_BI:0:3 cost=9 solver=kissat@*/
void h_to_integer_u64(void) { const int base = CC_BASE; RANGE_IN(CC_D64 + 3); TO_INTEGER_PRE(u64, 64, CC_D64 + 3); TO_INTEGER_POST(u64); }

/* =========================================== C library and <string> families =========================================== */
/* long == long long == 64 bit here.  Terminated exact-size strings; reference = C strtol grammar (s_parse_w with every flag). */
/*@COMMON@*/
#define STRTO_ANY(fn) if (fn == 0) { STRTO_POST(c_strtol, long); } else if (fn == 1) { STRTO_POST(c_strtoll, long long); }  \
    else if (fn == 2) { STRTO_POST(c_strtoul, unsigned long); } else { STRTO_POST(c_strtoull, unsigned long long); }
#define REF64(uns, MAXL) ((uns) ? s_parse_w(s, n, base, F_WS | F_MINUS | F_PLUS | F_PREFIX, LO_u64, HI_u64, 1, 64, MAXL)    \
                                : s_parse_w(s, n, base, F_WS | F_MINUS | F_PLUS | F_PREFIX, LO_i64, HI_i64, 0, 64, MAXL))

/* base 0 (auto-detection: 0x -> 16, 0 -> 8, else 10) next to bases 10 and 16 on short strings: all four functions */
/*@GROUP name=strto_short props=C10,C02 kind=B bound=strlen<=4,base_in_{0,10,16} unwind=8 solver=kissat@*/
void h_strto_short(void) { VF_INPUT(u8, bsel); const int base = bsel == 0 ? 0 : (bsel == 1 ? 10 : 16); VF_INPUT(u8, fn); CSTR_IN(4); const _Bool uns = fn >= 2;
  VF_INPUT_BOOL(want_end); const ref_t r = REF64(uns, 4);
  STRTO_ANY(fn)
  VF_REACH(); }

/* every string of length <= 8 in bases 8, 16, 10, 36: strtol, strtoll, strtoul, strtoull */
/*@GROUP name=strtol_len8 props=C10,C02 kind=B bound=strlen<=8 unwind=12 tier=thorough timeout=1200 split=CC_BI:0:2 cost=4 solver=kissat@*/
void h_strtol_len8(void) { const int base = CC_BASE; VF_INPUT_BOOL(ll); CSTR_IN(8); STRTO_PRE(i64, 8, 0);
  if (ll) { STRTO_POST(c_strtoll, long long); } else { STRTO_POST(c_strtol, long); }
  VF_REACH(); }

/* signed, base 36: eight free base-36 digits do not finish in 20 min (signed 64-bit chain) -> strlen <= 6 */
/*@GROUP name=strtol_len6_b36 props=C10,C02 kind=B bound=strlen<=6 unwind=10 tier=thorough timeout=1200 split=CC_BI:3:3 cost=4 solver=kissat@*/
void h_strtol_len6_b36(void) { const int base = CC_BASE; VF_INPUT_BOOL(ll); CSTR_IN(6); STRTO_PRE(i64, 6, 0);
  if (ll) { STRTO_POST(c_strtoll, long long); } else { STRTO_POST(c_strtol, long); }
  VF_REACH(); }

/*@GROUP name=strtoul_len8 props=C10,C02 kind=B bound=strlen<=8 unwind=12 tier=thorough timeout=1200 split=CC_BI:0:3 cost=4 solver=kissat@*/
void h_strtoul_len8(void) { const int base = CC_BASE; VF_INPUT_BOOL(ll); CSTR_IN(8); STRTO_PRE(u64, 8, 1);
  if (ll) { STRTO_POST(c_strtoull, unsigned long long); } else { STRTO_POST(c_strtoul, unsigned long); }
  VF_REACH(); }

/* numerals next to LONG_MIN / LONG_MAX / ULONG_MAX in bases 16 and 10 (cells 1:2): overflow exactly at the limits.  One function
 * per group (strtol, strtoul, atol, stol, stoul); the long long twins are the same template instantiation shape and are covered on
 * strlen <= 8. */
/*@GROUP name=strtol_near props=C10,C02 kind=B bound=first_digits-4_digits_equal_LONG_MIN/MAX;no_whitespace unwind=29 tier=thorough timeout=1200 split=CC_BI:1:2 cost=7 solver=kissat@*/
void h_strtol_near(void) { const int base = CC_BASE; CSTR_IN(CC_D64 + 3); NEAR_LIMIT_STR(i64, CC_D64 + 3); STRTO_PRE(i64, CC_D64 + 3, 0);
  STRTO_POST(c_strtol, long);
  VF_REACH(); }

/*@GROUP name=strtoul_near props=C10,C02 kind=B bound=first_digits-4_digits_equal_ULONG_MAX;no_whitespace unwind=29 tier=thorough timeout=1200 split=CC_BI:1:2 cost=7 solver=kissat@*/
void h_strtoul_near(void) { const int base = CC_BASE; CSTR_IN(CC_D64 + 3); NEAR_LIMIT_STR(u64, CC_D64 + 3); STRTO_PRE(u64, CC_D64 + 3, 1);
  STRTO_POST(c_strtoul, unsigned long);
  VF_REACH(); }

/*@GROUP name=atoi props=C10,C02 kind=K unwind=17 cost=4 solver=kissat@*/
void h_atoi(void) { CSTR_IN(13); ATO_PRE(i32, 32, 13);
  ATO_POST(c_atoi, int); VF_REACH(); }

/* quick stand-in for the long / long long spellings (separate function bodies): every string of at most 4 characters */
/*@GROUP name=atol_len4 props=C10,C02 kind=B bound=strlen<=4 unwind=8 cost=2 solver=kissat@*/
void h_atol_len4(void) { VF_INPUT_BOOL(ll); CSTR_IN(4); ATO_PRE(i64, 64, 4);
  if (ll) ATO_POST(c_atoll, long long) else ATO_POST(c_atol, long)
  VF_REACH(); }

/*@GROUP name=atol_len8 props=C10,C02 kind=B bound=strlen<=8 unwind=12 tier=thorough timeout=1200 cost=3 solver=kissat@*/
void h_atol_len8(void) { VF_INPUT_BOOL(ll); CSTR_IN(8); ATO_PRE(i64, 64, 8);
  if (ll) ATO_POST(c_atoll, long long) else ATO_POST(c_atol, long)
  VF_REACH(); }

/*@GROUP name=atol_near props=C10,C02 kind=B bound=first_15_digits_equal_LONG_MIN/MAX;no_whitespace unwind=27 tier=thorough timeout=1200 cost=7 solver=kissat@*/
void h_atol_near(void) { const int base = 10; CSTR_IN(23); NEAR_LIMIT_STR(i64, 23); ATO_PRE(i64, 64, 23);
  ATO_POST(c_atol, long)
  VF_REACH(); }

/*@GROUP name=stoi props=C10,C02 kind=K unwind=17 tier=thorough timeout=1200 split=CC_BI:0:3 cost=6 solver=kissat@*/
void h_stoi(void) { const int base = CC_BASE; RANGE_IN(CC_D32 + 3); STO_PRE(i32, 32, CC_D32 + 3, 0);
  STO_POST(s_stoi, int) VF_REACH(); }

/* stol, stoll, stoul, stoull on every range of length <= 8 (0x prefix included in the base 16 cell) */
/*@GROUP name=stol_len8 props=C10,C02 kind=B bound=len<=8 unwind=12 tier=thorough timeout=1200 split=CC_BI:0:2 cost=4 solver=kissat@*/
void h_stol_len8(void) { const int base = CC_BASE; VF_INPUT_BOOL(ll); RANGE_IN(8); STO_PRE(i64, 64, 8, 0);
  if (ll) STO_POST(s_stoll, long long) else STO_POST(s_stol, long)
  VF_REACH(); }

/*@GROUP name=stol_len6_b36 props=C10,C02 kind=B bound=len<=6 unwind=10 tier=thorough timeout=1200 split=CC_BI:3:3 cost=4 solver=kissat@*/
void h_stol_len6_b36(void) { const int base = CC_BASE; VF_INPUT_BOOL(ll); RANGE_IN(6); STO_PRE(i64, 64, 6, 0);
  if (ll) STO_POST(s_stoll, long long) else STO_POST(s_stol, long)
  VF_REACH(); }

/*@GROUP name=stoul_len8 props=C10,C02 kind=B bound=len<=8 unwind=12 tier=thorough timeout=1200 split=CC_BI:0:3 cost=4 solver=kissat@*/
void h_stoul_len8(void) { const int base = CC_BASE; VF_INPUT_BOOL(ll); RANGE_IN(8); STO_PRE(u64, 64, 8, 1);
  if (ll) STO_POST(s_stoull, unsigned long long) else STO_POST(s_stoul, unsigned long)
  VF_REACH(); }

/*@GROUP name=stol_near props=C10,C02 kind=B bound=first_15_digits_equal_LONG_MIN/MAX;no_whitespace;base_10 unwind=28 tier=thorough timeout=1200 split=CC_BI:2:2 cost=7 solver=kissat@*/
void h_stol_near(void) { const int base = CC_BASE; RANGE_IN(CC_D64 + 3); NEAR_LIMIT_STR(i64, CC_D64 + 3); STO_PRE(i64, 64, CC_D64 + 3, 0);
  STO_POST(s_stol, long)
  VF_REACH(); }

/*@GROUP name=stoul_near props=C10,C02 kind=B bound=first_16_digits_equal_ULONG_MAX;no_whitespace;base_10 unwind=28 tier=thorough timeout=1200 split=CC_BI:2:2 cost=7 solver=kissat@*/
void h_stoul_near(void) { const int base = CC_BASE; RANGE_IN(CC_D64 + 3); NEAR_LIMIT_STR(u64, CC_D64 + 3); STO_PRE(u64, 64, CC_D64 + 3, 1);
  STO_POST(s_stoul, unsigned long)
  VF_REACH(); }
