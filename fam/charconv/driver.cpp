// driver: integer <-> text conversion (C10): strings::from_integer / to_integer, to_chars / from_chars, to_string, sto*, strto*, ato*
#include <etl/charconv.hpp>
#include <etl/cstdlib.hpp>
#include <etl/string.hpp>
#include <etl/string_view.hpp>
#include <etl/strings.hpp>
#include <etl/new.hpp>

#define VF_E extern "C"
namespace vf {
using u8 = unsigned char; using u16 = unsigned short; using u32 = unsigned int; using u64 = unsigned long long;
using i8 = signed char; using i16 = short; using i32 = int; using i64 = long long;
using etl::size_t;

// error classes seen by the harness: 0 none, 1 value_too_large, 2 result_out_of_range, 3 invalid_argument, 9 anything else
static constexpr int ec_class(etl::errc e) {
  return e == etl::errc{} ? 0 : e == etl::errc::value_too_large ? 1 : e == etl::errc::result_out_of_range ? 2 : e == etl::errc::invalid_argument ? 3 : 9; }

#define VF_INTS(X) X(i8) X(u8) X(i16) X(u16) X(i32) X(u32) X(i64) X(u64)
#define X(T) \
  VF_E void to_chars_##T(char* first, char* last, T v, int base, char const** ptr, int* ec) { auto r = etl::to_chars(first, last, v, base); *ptr = r.ptr; *ec = ec_class(r.ec); } \
  VF_E void from_integer_##T(T v, char* str, size_t len, int base, char** end, int* err) { auto r = etl::strings::from_integer<T>(v, str, len, base); *end = r.end; *err = int(r.error); } \
  VF_E void from_chars_##T(char const* first, char const* last, T* value, int base, char const** ptr, int* ec) { auto r = etl::from_chars(first, last, *value, base); *ptr = r.ptr; *ec = ec_class(r.ec); } \
  VF_E void to_integer_##T(char const* s, size_t n, T base, char const** end, int* err, T* value) { auto r = etl::strings::to_integer<T>(etl::string_view{s, n}, base); *end = r.end; *err = int(r.error); *value = r.value; }
VF_INTS(X)
#undef X

// C library family (terminated strings)
VF_E long c_strtol(char const* s, char const** last, int base) { return etl::strtol(s, last, base); }
VF_E long long c_strtoll(char const* s, char const** last, int base) { return etl::strtoll(s, last, base); }
VF_E unsigned long c_strtoul(char const* s, char const** last, int base) { return etl::strtoul(s, last, base); }
VF_E unsigned long long c_strtoull(char const* s, char const** last, int base) { return etl::strtoull(s, last, base); }
VF_E int c_atoi(char const* s) { return etl::atoi(s); }
VF_E long c_atol(char const* s) { return etl::atol(s); }
VF_E long long c_atoll(char const* s) { return etl::atoll(s); }

// <string> family over string_view
VF_E int s_stoi(char const* s, size_t n, size_t* pos, int base) { return etl::stoi(etl::string_view{s, n}, pos, base); }
VF_E long s_stol(char const* s, size_t n, size_t* pos, int base) { return etl::stol(etl::string_view{s, n}, pos, base); }
VF_E long long s_stoll(char const* s, size_t n, size_t* pos, int base) { return etl::stoll(etl::string_view{s, n}, pos, base); }
VF_E unsigned long s_stoul(char const* s, size_t n, size_t* pos, int base) { return etl::stoul(etl::string_view{s, n}, pos, base); }
VF_E unsigned long long s_stoull(char const* s, size_t n, size_t* pos, int base) { return etl::stoull(etl::string_view{s, n}, pos, base); }

// to_string<Capacity>: result copied out as (size, characters)
template <size_t N, typename T>
static void ts(T v, size_t* size, char* out) { auto const s = etl::to_string<N>(v); *size = s.size(); for (size_t i = 0; i < s.size(); ++i) { out[i] = s[i]; } }
VF_E void to_string_12_int(int v, size_t* size, char* out) { ts<12>(v, size, out); }
VF_E void to_string_12_uint(unsigned v, size_t* size, char* out) { ts<12>(v, size, out); }
VF_E void to_string_4_int(int v, size_t* size, char* out) { ts<4>(v, size, out); }
VF_E void to_string_4_uint(unsigned v, size_t* size, char* out) { ts<4>(v, size, out); }
VF_E void to_string_21_ll(long long v, size_t* size, char* out) { ts<21>(v, size, out); }
VF_E void to_string_21_ull(unsigned long long v, size_t* size, char* out) { ts<21>(v, size, out); }
VF_E void to_string_21_long(long v, size_t* size, char* out) { ts<21>(v, size, out); }
VF_E void to_string_21_ulong(unsigned long v, size_t* size, char* out) { ts<21>(v, size, out); }

// the C-library grammar (to_integer_c_options: '+', '-' on unsigned types, 0x prefix / base 0, saturation) at 8 bits, so that overflow
// combined with a sign is reachable with short strings (strtoul & co. instantiate it at 64 bits only)
VF_E void to_integer_c_u8(char const* s, size_t n, unsigned char base, char const** end, int* err, unsigned char* value) { auto r = etl::strings::to_integer<unsigned char, etl::strings::to_integer_c_options>(etl::string_view{s, n}, base); *end = r.end; *err = int(r.error); *value = r.value; }
VF_E void to_integer_c_i8(char const* s, size_t n, signed char base, char const** end, int* err, signed char* value) { auto r = etl::strings::to_integer<signed char, etl::strings::to_integer_c_options>(etl::string_view{s, n}, base); *end = r.end; *err = int(r.error); *value = r.value; }
}
