/* bitset: etl::bitset<N> / basic_bitset<N,Word> against [template.bitset] — C17.
 * view(b) = the N-bit vector; wf(b) = every padding bit of the last word is zero.  Because wf is the ONLY assumption on the padding
 * and every mutator must re-establish it, "unused high bits never influence any result" is what is proved.  A ghost bit index g
 * (symbolic, < N) stands for "for every bit". */
#define N VF_N
#ifndef VF_WB
#define VF_WB 64
#endif
#define WB VF_WB
#define CAT_(a, b) a##b
#define CAT(a, b) CAT_(a, b)
#if VF_WB == 8
typedef unsigned char WT;
#define WNAME unsignedchar
#elif VF_WB == 16
typedef unsigned short WT;
#define WNAME unsignedshort
#elif VF_WB == 32
typedef unsigned int WT;
#define WNAME unsignedint
#else
typedef unsigned long WT;
#define WNAME unsignedlong
#endif
#if defined(VF_BASIC) && VF_WB == 64
typedef struct CAT(etl_basic_bitset_, VF_N) B;   /* size_t is the default word type: clang elides it from the type name */
#elif defined(VF_BASIC)
typedef struct CAT(CAT(CAT(etl_basic_bitset_, VF_N), _), WNAME) B;
#else
typedef struct CAT(etl_bitset_, VF_N) B;
#endif
#define NW ((N + WB - 1) / WB)
#define WORD(b, i) (((WT *)&(b))[i])
#define PADMASK ((N % WB) == 0 ? (WT)0 : (WT)((WT)~(WT)0 << (N % WB)))
#define WF(b) ((WORD(b, NW - 1) & PADMASK) == 0)
static _Bool bit(const B *b, unsigned long i) { return (_Bool)((WORD(*b, i / WB) >> (i % WB)) & 1); }
/* number of set bits among the N bits.  Cardinality is additive over any partition of the index set: the indices are summed octet by
 * octet (independent of the word type), each octet in a narrow counter -- the same number as a flat sum, but a far smaller SAT problem */
static unsigned long s_count(const B *b) { unsigned long c = 0;
  for (unsigned long k = 0; k < N; k += 8) { unsigned char oc = 0; for (unsigned long i = k; i < k + 8 && i < N; ++i) oc += bit(b, i); c += oc; }
  return c; }
B vf_snap; B *vf_snap_of;
#define VF_HANDLER_CHECK() do { if (vf_snap_of) { _Bool same = 1; for (int i = 0; i < NW; ++i) same = same && WORD(*vf_snap_of, i) == WORD(vf_snap, i); \
    __CPROVER_assert(same, "C05: the bitset is unmodified when the assertion handler runs"); } } while (0)
#define EXPECT_VIOLATION(v) do { vf_expect_handler = 1; vf_snap = (v); vf_snap_of = &(v); } while (0)
#include "vf_handler.h"
#define ARB(b) VF_INPUT(B, b); __CPROVER_assume(WF(b))
#define GHOST(g) VF_INPUT(unsigned long, g); __CPROVER_assume(g < N)
#define UNW 132

/*@GROUP name=ctor props=C17,C02 kind=K unwind=VF_N+4@*/
void h_ctor(void) { VF_INPUT(B, a); VF_INPUT(B, b); VF_INPUT(unsigned long long, v); GHOST(g);
  b_default(&a); VF_ASSERT(WF(a) && !bit(&a, g) && b_none(&a), "default construction: all bits zero");
  b_from_ull(&b, v); VF_ASSERT(WF(b), "bitset(unsigned long long) leaves the padding bits zero");
  VF_ASSERT(bit(&b, g) == (g < 64 ? (_Bool)((v >> g) & 1) : 0), "bitset(unsigned long long): bit i == bit i of val for i < 64, 0 above (val truncated to N bits)");
  VF_REACH(); }

/*@GROUP name=whole props=C17,C02 kind=K unwind=VF_N+4@*/
void h_whole(void) { ARB(b); GHOST(g); VF_INPUT(unsigned char, op); B o = b;
  if (op == 0) { b_set_all(&b); VF_ASSERT(WF(b) && bit(&b, g) && b_all(&b) && b_count(&b) == N, "set(): every bit 1, all() true, count() == N"); }
  else if (op == 1) { b_reset_all(&b); VF_ASSERT(WF(b) && !bit(&b, g) && b_none(&b) && b_count(&b) == 0, "reset(): every bit 0"); }
  else { b_flip_all(&b); VF_ASSERT(WF(b) && bit(&b, g) == !bit(&o, g), "flip(): every bit inverted, padding stays zero"); VF_ASSERT(b_count(&b) == N - s_count(&o), "count after flip() == N - count before"); }
  VF_REACH(); }

/*@GROUP name=single props=C17,C02,C05 kind=K unwind=VF_N+4@*/
void h_single(void) { ARB(b); GHOST(g); VF_INPUT(unsigned long, p); VF_INPUT_BOOL(v); VF_INPUT(unsigned char, op); __CPROVER_assume(p < N); B o = b;
  if (op == 0) { b_set_pos(&b, p, v); VF_ASSERT(bit(&b, g) == (g == p ? v : bit(&o, g)), "set(p,v): bit p == v, every other bit unchanged"); }
  else if (op == 1) { b_reset_pos(&b, p); VF_ASSERT(bit(&b, g) == (g == p ? 0 : bit(&o, g)), "reset(p): bit p == 0, every other bit unchanged"); }
  else if (op == 2) { b_flip_pos(&b, p); VF_ASSERT(bit(&b, g) == (g == p ? !bit(&o, g) : bit(&o, g)), "flip(p): bit p inverted, every other bit unchanged"); }
  else if (op == 3) { b_ref_assign(&b, p, v); VF_ASSERT(bit(&b, g) == (g == p ? v : bit(&o, g)), "b[p] = v through the proxy reference"); }
  else if (op == 4) { b_ref_flip(&b, p); VF_ASSERT(bit(&b, g) == (g == p ? !bit(&o, g) : bit(&o, g)), "b[p].flip() through the proxy reference"); }
#ifndef VF_BASIC
  else if (op == 5) { b_set_pos1(&b, p); VF_ASSERT(bit(&b, g) == (g == p ? 1 : bit(&o, g)), "set(p): value defaults to true"); }
#endif
  VF_ASSERT(WF(b), "single-bit mutators keep the padding bits zero");
  VF_REACH(); }

/*@GROUP name=ref_assign_ref props=C17,C02 kind=K unwind=VF_N+4@*/
void h_ref_assign_ref(void) { ARB(b); ARB(c); GHOST(g); VF_INPUT(unsigned long, p); VF_INPUT(unsigned long, q); __CPROVER_assume(p < N && q < N); B o = b, oc = c;
  b_ref_assign_ref(&b, p, &c, q);
  VF_ASSERT(bit(&b, g) == (g == p ? bit(&oc, q) : bit(&o, g)) && bit(&c, g) == bit(&oc, g) && WF(b) && WF(c), "b[p] = c[q]: copies the bit VALUE, source unchanged");
  VF_REACH(); }

/*@GROUP name=observers props=C17,C02,C05 kind=K unwind=VF_N+4@*/
void h_observers(void) { ARB(b); VF_INPUT(unsigned long, p); __CPROVER_assume(p < N); unsigned long c = s_count(&b);
  VF_ASSERT(b_test(&b, p) == bit(&b, p) && b_index_const(&b, p) == bit(&b, p) && b_ref_read(&b, p) == bit(&b, p) && b_ref_not(&b, p) == !bit(&b, p), "test/operator[]/reference read bit p");
  VF_ASSERT(b_count(&b) == c, "count() == number of set bits among the N bits");
  VF_ASSERT(b_all(&b) == (c == N) && b_any(&b) == (c != 0) && b_none(&b) == (c == 0), "all/any/none follow the N bits");
  VF_ASSERT(b_size(&b) == N, "size() == N");
  VF_REACH(); }

/*@GROUP name=compare props=C17,C02 kind=K unwind=VF_N+4@*/
void h_compare(void) { ARB(a); ARB(b); _Bool eq = 1; for (unsigned long i = 0; i < N; ++i) eq = eq && bit(&a, i) == bit(&b, i);
  VF_ASSERT(b_eq(&a, &b) == eq && b_ne(&a, &b) == !eq, "== / != compare exactly the N bits");
  VF_REACH(); }

/*@GROUP name=bitwise props=C17,C02 kind=K unwind=VF_N+4@*/
void h_bitwise(void) { ARB(a); ARB(b); GHOST(g); VF_INPUT(unsigned char, op); VF_INPUT(B, r); B oa = a, ob = b;
  if (op == 0) { b_and_eq(&a, &b); VF_ASSERT(WF(a) && bit(&a, g) == (bit(&oa, g) && bit(&ob, g)), "&="); }
  else if (op == 1) { b_or_eq(&a, &b); VF_ASSERT(WF(a) && bit(&a, g) == (bit(&oa, g) || bit(&ob, g)), "|="); }
  else if (op == 2) { b_xor_eq(&a, &b); VF_ASSERT(WF(a) && bit(&a, g) == (bit(&oa, g) != bit(&ob, g)), "^="); }
  else if (op == 3) { b_and(&r, &a, &b); VF_ASSERT(WF(r) && bit(&r, g) == (bit(&oa, g) && bit(&ob, g)) && bit(&a, g) == bit(&oa, g), "operator&"); }
  else if (op == 4) { b_or(&r, &a, &b); VF_ASSERT(WF(r) && bit(&r, g) == (bit(&oa, g) || bit(&ob, g)), "operator|"); }
  else if (op == 5) { b_xor(&r, &a, &b); VF_ASSERT(WF(r) && bit(&r, g) == (bit(&oa, g) != bit(&ob, g)), "operator^"); }
  else { b_not(&r, &a); VF_ASSERT(WF(r) && bit(&r, g) == !bit(&oa, g) && bit(&a, g) == bit(&oa, g), "operator~: every bit inverted, padding zero, operand unchanged"); }
  VF_ASSERT(bit(&b, g) == bit(&ob, g), "right operand unchanged");
  VF_REACH(); }

/* Aliasing: [template.bitset] states every binary operation bit-wise on the VALUES of its operands; nothing exempts the case that
 * two (or all three) of left operand l / right operand r / destination x are the SAME object.  a and b are both arbitrary, so l = a
 * without loss of generality; r and x range over {a, b}: x op= x, x == x, x op x, x = x op x, x = x op y, x = y op x, x = y op y and
 * the all-distinct forms are covered.  (Four call sites with constant addresses: a symbolic choice of the POINTERS is the same
 * statement, but costs CBMC a case split at every dereference.) */
/*@GROUP name=alias props=C17,C02 kind=K unwind=VF_N+4@*/
static void alias_case(B *a, B *b, B *L, B *R, B *X, unsigned long g, unsigned char op) { B r; B oa = *a, ob = *b; const B oL = *L, oR = *R;
  _Bool l = bit(&oL, g), q = bit(&oR, g); B *W = 0;   /* W: the one object the operation may write (0: none) */
  if (op == 0) { b_and_eq(L, R); W = L; VF_ASSERT(bit(L, g) == (l && q), "l &= r, r possibly the same object as l: bit i == old l[i] & old r[i]  (x &= x leaves x)"); }
  else if (op == 1) { b_or_eq(L, R); W = L; VF_ASSERT(bit(L, g) == (l || q), "l |= r, r possibly the same object as l: bit i == old l[i] | old r[i]  (x |= x leaves x)"); }
  else if (op == 2) { b_xor_eq(L, R); W = L; VF_ASSERT(bit(L, g) == (l != q), "l ^= r, r possibly the same object as l: bit i == old l[i] ^ old r[i]  (x ^= x clears x)"); }
  else if (op == 3) { b_and(&r, L, R); VF_ASSERT(WF(r) && bit(&r, g) == (l && q), "l & r with possibly identical operands"); }
  else if (op == 4) { b_or(&r, L, R); VF_ASSERT(WF(r) && bit(&r, g) == (l || q), "l | r with possibly identical operands"); }
  else if (op == 5) { b_xor(&r, L, R); VF_ASSERT(WF(r) && bit(&r, g) == (l != q), "l ^ r with possibly identical operands  (x ^ x is empty)"); }
  else if (op == 6) { b_assign_and(X, L, R); W = X; VF_ASSERT(bit(X, g) == (l && q), "x = l & r, x possibly one of the operands"); }
  else if (op == 7) { b_assign_or(X, L, R); W = X; VF_ASSERT(bit(X, g) == (l || q), "x = l | r, x possibly one of the operands"); }
  else if (op == 8) { b_assign_xor(X, L, R); W = X; VF_ASSERT(bit(X, g) == (l != q), "x = l ^ r, x possibly one of the operands"); }
  else if (op == 9) { b_assign(X, R); W = X; VF_ASSERT(bit(X, g) == q, "x = r, possibly self-assignment"); }
  else if (op == 10) { b_chain_xor_and(L, R); W = L; VF_ASSERT(bit(L, g) == (l != q), "(x ^= r) &= x: the returned reference IS x, and-ing x with itself keeps x ^ r"); }
  else if (op == 11) { b_chain_or_xor(L, R); W = L; VF_ASSERT(!bit(L, g) && b_none(L), "(x |= r) ^= x: the returned reference IS x, xor-ing x with itself clears it"); }
  else { _Bool eq = 1; for (unsigned long i = 0; i < N; ++i) eq = eq && bit(&oL, i) == bit(&oR, i);
    VF_ASSERT(b_eq(L, R) == eq && b_ne(L, R) == !eq, "l == r / l != r compare the N bits, also when l and r are the same object");
    if (L == R) VF_ASSERT(b_eq(L, R) && !b_ne(L, R), "x == x is true, x != x is false"); }
  VF_ASSERT(WF(*a) && WF(*b), "padding bits of both objects stay zero");
  VF_ASSERT((W == a || bit(a, g) == bit(&oa, g)) && (W == b || bit(b, g) == bit(&ob, g)), "no object other than the destination is modified"); }
void h_alias(void) { ARB(a); ARB(b); GHOST(g); VF_INPUT(unsigned char, op); VF_INPUT_BOOL(rb); VF_INPUT_BOOL(xb);
  if (!rb && !xb) alias_case(&a, &b, &a, &a, &a, g, op); else if (!rb) alias_case(&a, &b, &a, &a, &b, g, op);
  else if (!xb) alias_case(&a, &b, &a, &b, &a, g, op); else alias_case(&a, &b, &a, &b, &b, g, op);
  VF_REACH(); }

/*@GROUP name=ref_alias props=C17,C02 kind=K unwind=VF_N+4@*/
void h_ref_alias(void) { ARB(b); GHOST(g); VF_INPUT(unsigned long, p); VF_INPUT(unsigned long, q); VF_INPUT_BOOL(v); VF_INPUT(unsigned char, op); __CPROVER_assume(p < N && q < N); B o = b;
  if (op == 0) { b_ref_assign_ref(&b, p, &b, q); VF_ASSERT(bit(&b, g) == (g == p ? bit(&o, q) : bit(&o, g)), "b[p] = b[q] within ONE bitset (same or different word, p == q included): bit p takes the old bit q, the rest is unchanged"); }
  else { b_ref_assign(&b, p, v); b_ref_assign_ref(&b, q, &b, p); VF_ASSERT(bit(&b, g) == (g == p || g == q ? v : bit(&o, g)), "b[p] = v; b[q] = b[p]: both bits are v, the rest is unchanged"); }
  VF_ASSERT(WF(b), "proxy assignment within one bitset keeps the padding bits zero");
  VF_REACH(); }

/*@GROUP name=to_integer props=C17,C02 kind=K unwind=VF_N+4 when=(VF_N<=64)*(VF_BASIC==0)@*/
void h_to_integer(void) { ARB(b); unsigned long long e = 0; for (unsigned long i = 0; i < N; ++i) if (bit(&b, i)) e |= 1ULL << i;
  VF_ASSERT(b_to_ullong(&b) == e && b_to_ulong(&b) == (unsigned long)e, "to_ulong/to_ullong: bit i is binary digit i");
  VF_REACH(); }

/*@GROUP name=to_string props=C17,C02 kind=K unwind=VF_N+4 objbits=16 when=VF_BASIC==0@*/
void h_to_string(void) { ARB(b); GHOST(g); VF_INPUT(char, zero); VF_INPUT(char, one); char out[N + 1]; unsigned long len;
  b_to_string(&b, out, &len, zero, one);
  VF_ASSERT(len == N && out[N - 1 - g] == (bit(&b, g) ? one : zero), "to_string(zero,one): N characters, character N-1-i shows bit i (most significant first)");
  VF_REACH(); }

/*@GROUP name=from_string props=C17,C02 kind=K unwind=VF_N+4 when=(VF_BASIC==0)*(VF_N<=9) bound=string-length<=11@*/
void h_from_string(void) { VF_INPUT(B, b); VF_INPUT(B, c); GHOST(g); VF_INPUT(unsigned char, len); VF_INPUT(unsigned char, pos); VF_INPUT(unsigned long, n); VF_INPUT(char, zero); VF_INPUT(char, one);
#define LMAX ((N < 10 ? N : 10) + 2)   /* the string is at most 12 characters (all lengths up to N+2 for N <= 10) */
  __CPROVER_assume(len <= LMAX && pos <= len && zero != one); VF_BUF(char, s, len, LMAX);
  unsigned long rlen = n < (unsigned long)(len - pos) ? n : (unsigned long)(len - pos); __CPROVER_assume(rlen <= N);
  for (unsigned long i = 0; i < LMAX; ++i) if (i < len) __CPROVER_assume(s_in[i] == zero || s_in[i] == one);   /* std throws on other characters: outside the domain */
  VF_KNOWN(C17_string_ctor_reversed, rlen >= 2);   /* for N == 1 the witness class is empty */
  b_from_sv(&b, s, len, pos, n, zero, one);
  /* [bitset.cons]: character at pos + rlen - 1 - i initialises bit i (the LAST character is bit 0); bits >= rlen are zero */
  VF_ASSERT(WF(b) && bit(&b, g) == (g < rlen ? s_in[pos + rlen - 1 - g] == one : 0), "bitset(string_view,pos,n,zero,one): character pos+rlen-1-i initialises bit i, remaining bits zero");
  VF_REACH(); }

/* the remaining constructor overloads (separate bodies): bitset(char const*, n, zero, one) with an explicit count and with n == npos
 * (NUL-terminated), and bitset(string_view) with every default argument */
/*@GROUP name=from_cstr props=C17,C02 kind=K unwind=VF_N+6 when=(VF_BASIC==0)*(VF_N<=9) bound=string-length<=N@*/
void h_from_cstr(void) { VF_INPUT(B, b); GHOST(g); VF_INPUT(unsigned char, len); VF_INPUT(unsigned char, n8); VF_INPUT(unsigned char, form); VF_INPUT(char, zero); VF_INPUT(char, one);
  __CPROVER_assume(len <= N && zero != one); VF_BUF(char, s, len + 1, N + 1);   /* len characters and the terminator */
  for (unsigned long i = 0; i < N + 1; ++i) { if (i < len) __CPROVER_assume(s_in[i] == zero || s_in[i] == one); if (i == len) __CPROVER_assume(s_in[i] == 0); }
  unsigned long rlen = len;
  if (form == 0) { __CPROVER_assume(n8 <= len); rlen = n8; b_from_cstr(&b, s, n8, zero, one); }   /* [bitset.cons]: the first n characters of str */
  else if (form == 1) { __CPROVER_assume(zero != 0 && one != 0); b_from_cstr(&b, s, (unsigned long)-1, zero, one); }   /* n == npos: up to the terminator */
  else { __CPROVER_assume(zero == '0' && one == '1'); b_from_sv_default(&b, s, len); }
  VF_ASSERT(WF(b) && bit(&b, g) == (g < rlen ? s_in[rlen - 1 - g] == one : 0), "bitset(char const*, n, zero, one) / bitset(string_view): character rlen-1-i initialises bit i, remaining bits zero");
  VF_REACH(); }

/*@GROUP name=viol props=C05,C02 kind=K unwind=VF_N+4@*/
void h_viol(void) { ARB(b); VF_INPUT(unsigned long, p); VF_INPUT(unsigned char, op); __CPROVER_assume(p >= N); EXPECT_VIOLATION(b);
  if (op == 0) b_test(&b, p); else if (op == 1) b_set_pos(&b, p, 1); else if (op == 2) b_reset_pos(&b, p); else if (op == 3) b_flip_pos(&b, p); else if (op == 4) b_index_const(&b, p); else b_ref_read(&b, p);
  VF_NORETURN_EXPECTED(); }
