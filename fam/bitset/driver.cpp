// driver: bitset<VF_N> (word = size_t) or, with VF_BASIC, basic_bitset<VF_N, WT> with VF_WB-bit words (C17)
#include <etl/bitset.hpp>
#include <etl/string_view.hpp>
#include <etl/string.hpp>
#include <etl/new.hpp>
#ifndef VF_N
#define VF_N 8
#endif
#ifndef VF_WB
#define VF_WB 64
#endif
#define VF_E extern "C"
namespace vf {
#if VF_WB == 8
using WT = unsigned char;
#elif VF_WB == 16
using WT = unsigned short;
#elif VF_WB == 32
using WT = unsigned int;
#else
using WT = etl::size_t;
#endif
using size_type = etl::size_t;
#ifdef VF_BASIC
using B = etl::basic_bitset<VF_N, WT>;
VF_E void b_set_pos(B& b, size_type p, bool v) { b.unchecked_set(p, v); }
VF_E void b_reset_pos(B& b, size_type p) { b.unchecked_reset(p); }
VF_E void b_flip_pos(B& b, size_type p) { b.unchecked_flip(p); }
VF_E bool b_test(B const& b, size_type p) { return b.unchecked_test(p); }
VF_E void b_not(B* out, B const& a) { new (out) B(a); out->flip(); }
#else
using B = etl::bitset<VF_N>;
VF_E void b_set_pos(B& b, size_type p, bool v) { b.set(p, v); }
VF_E void b_set_pos1(B& b, size_type p) { b.set(p); }
VF_E void b_reset_pos(B& b, size_type p) { b.reset(p); }
VF_E void b_flip_pos(B& b, size_type p) { b.flip(p); }
VF_E bool b_test(B const& b, size_type p) { return b.test(p); }
VF_E void b_not(B* out, B const& a) { new (out) B(~a); }
VF_E void b_from_sv(B* out, char const* s, size_type len, size_type pos, size_type n, char zero, char one) { new (out) B(etl::string_view(s, len), pos, n, zero, one); }
VF_E void b_from_sv_default(B* out, char const* s, size_type len) { new (out) B(etl::string_view(s, len)); }
VF_E void b_from_cstr(B* out, char const* s, size_type n, char zero, char one) { new (out) B(s, n, zero, one); }
VF_E void b_to_string(B const& b, char* out, size_type* len, char zero, char one) { auto s = b.to_string<VF_N>(zero, one); *len = s.size(); for (size_type i = 0; i < s.size(); ++i) { out[i] = s[i]; } }
#if VF_N <= 64
VF_E unsigned long b_to_ulong(B const& b) { return b.to_ulong(); }
VF_E unsigned long long b_to_ullong(B const& b) { return b.to_ullong(); }
#endif
#endif
VF_E void b_default(B* out) { new (out) B; }
VF_E void b_from_ull(B* out, unsigned long long v) { new (out) B(v); }
VF_E void b_set_all(B& b) { b.set(); }
VF_E void b_reset_all(B& b) { b.reset(); }
VF_E void b_flip_all(B& b) { b.flip(); }
VF_E bool b_index_const(B const& b, size_type p) { return b[p]; }
VF_E void b_ref_assign(B& b, size_type p, bool v) { b[p] = v; }
VF_E void b_ref_assign_ref(B& b, size_type p, B& c, size_type q) { b[p] = c[q]; }
VF_E void b_ref_flip(B& b, size_type p) { b[p].flip(); }
VF_E bool b_ref_not(B& b, size_type p) { return ~b[p]; }
VF_E bool b_ref_read(B& b, size_type p) { return b[p]; }
VF_E bool b_all(B const& b) { return b.all(); }
VF_E bool b_any(B const& b) { return b.any(); }
VF_E bool b_none(B const& b) { return b.none(); }
VF_E size_type b_count(B const& b) { return b.count(); }
VF_E size_type b_size(B const& b) { return b.size(); }
VF_E bool b_eq(B const& a, B const& b) { return a == b; }
VF_E bool b_ne(B const& a, B const& b) { return a != b; }
VF_E void b_and_eq(B& a, B const& b) { a &= b; }
VF_E void b_or_eq(B& a, B const& b) { a |= b; }
VF_E void b_xor_eq(B& a, B const& b) { a ^= b; }
VF_E void b_and(B* out, B const& a, B const& b) { new (out) B(a & b); }
VF_E void b_or(B* out, B const& a, B const& b) { new (out) B(a | b); }
VF_E void b_xor(B* out, B const& a, B const& b) { new (out) B(a ^ b); }
// "x = l op r" with x allowed to be the same object as an operand (x ^= x, x = x ^ x, ... are written in the harness by passing the same object)
VF_E void b_assign_and(B& x, B const& l, B const& r) { x = l & r; }
VF_E void b_assign_or(B& x, B const& l, B const& r) { x = l | r; }
VF_E void b_assign_xor(B& x, B const& l, B const& r) { x = l ^ r; }
VF_E void b_assign(B& x, B const& l) { x = l; }
// chained compound form: the reference returned by the first operator is the right operand of the second, (x op= r) op2= x
VF_E void b_chain_xor_and(B& x, B const& r) { (x ^= r) &= x; }
VF_E void b_chain_or_xor(B& x, B const& r) { (x |= r) ^= x; }
}
