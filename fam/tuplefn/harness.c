/* tuplefn: pair, tuple and callable wrappers forward values and calls faithfully (C20); the call of an empty inplace_function
 * reaches the contract-check handler without calling anything (C05).  Run-time VALUES, call counts and wrapper STATE only.
 * Every harness starts from arbitrary (symbolic) element values / an arbitrary well-formed wrapper state; the callables are the
 * driver's functors, which log (call count, argument values) into a vf::Log owned by the harness.
 * Specifications: [pairs.pair] [pairs.spec] [tuple.cnstr] [tuple.elem] [tuple.rel] [tuple.apply] [func.invoke] [refwrap]
 * [func.bind.front] [func.not.fn], P0792 (function_ref), SG14 inplace_function. */
typedef struct etl_pair_int_int Pii; typedef struct etl_pair_long_long Qii;
typedef struct etl_pair_int_char Pic; typedef struct etl_pair_long_int Qic;
typedef struct etl_tuple_int_char Tic; typedef struct etl_tuple_int_int_int T3;
typedef struct vf_Log Log; typedef struct vf_Fun Fun; typedef struct vf_Cnt Cnt; typedef struct vf_Sml Sml; typedef struct vf_S3 S3;
typedef struct etl_reference_wrapper_int RW; typedef struct etl_detail_function_ref_false_int_int FR;
typedef struct etl_inplace_function_int_int_16_8 IF; typedef struct etl_inplace_function_int_int_32_8 IFW;
typedef struct etl_detail_inplace_func_vtable_int_int VT;
typedef struct etl_tuple_vf_Mk_int TMk; typedef struct etl_pair_vf_Mk_int PMk;

/* the log behind the free functions with a fixed signature (EXTERNAL ghost hook vf::g_log of the driver) */
Log vf_glog;
Log *_ZN2vf5g_logEv(void) { return &vf_glog; }

/* ---- assertion handler.  harness/vf_handler.h cannot be used as it is: the only violating path of this family is
 * etl::raise<bad_function_call>, and clang 14 (the lowering front end) does not define __cpp_consteval, so the lowered raise() is the
 * variant WITHOUT source_location (line 0, file nullptr by the library's own design; g++ takes the source_location variant - the
 * native replay prints its line).  The handler therefore checks the message instead of (file, line); everything else is the same:
 * it must not fire for valid calls; for the violating call it must be reached with the wrapper and both call logs untouched. */
int vf_expect_handler; int vf_handler_fired;
Log vf_snap_log, vf_snap_glog; Log *vf_snap_log_of; IF vf_snap_f; IF *vf_snap_f_of;
static _Bool log_eq(const Log *x, const Log *y) { return x->calls == y->calls && x->a0 == y->a0 && x->a1 == y->a1 && x->a2 == y->a2; }
void _ZN3etl14assert_handlerINS_10assert_msgEEEvRKT_(struct etl_assert_msg *m)
{
    vf_handler_fired = 1;
#ifdef VF_NATIVE
    if (!vf_quiet) printf("REPLAY-HANDLER line=%d expected=%d\n", m->line, vf_expect_handler);
    if (!vf_expect_handler) vf_fail("C05: assert_handler fired although the call respects the documented precondition");
    vf_exit();
#else
    if (vf_expect_handler) {
        __CPROVER_assert(m->expression != 0 && m->expression[0] == 'e' && m->expression[1] == 'm', "C05: handler receives the bad_function_call message");
        __CPROVER_assert(log_eq(vf_snap_log_of, &vf_snap_log) && log_eq(&vf_glog, &vf_snap_glog), "C05: nothing was called when the handler runs (both call logs unchanged)");
        _Bool same = vf_snap_f_of->_vtable == vf_snap_f._vtable;
        same = same && ((unsigned long *)&vf_snap_f_of->_storage)[0] == ((unsigned long *)&vf_snap_f._storage)[0] && ((unsigned long *)&vf_snap_f_of->_storage)[1] == ((unsigned long *)&vf_snap_f._storage)[1];
        __CPROVER_assert(same, "C05: the wrapper is unmodified when the assertion handler runs");
        __CPROVER_assert(0, "VACUITY: the violating call reaches the assertion handler");
    } else {
        __CPROVER_assert(0, "C05: assert_handler fired although the call respects the documented precondition");
    }
    __CPROVER_assume(0);
#endif
}
#define VF_NORETURN_EXPECTED() __CPROVER_assert(0, "C05: call with violated precondition returned normally instead of reaching the assertion handler")

/* ---- reference semantics -------------------------------------------------------------------------------------------- */
static int ENC3(int a, int b, int c) { return (int)((unsigned)a ^ ((unsigned)b << 11) ^ ((unsigned)c << 22)); }
/* lexicographic three-way comparison of (first, second), built on < only ([pairs.spec]) */
#define LEX(a, b) ((a).first < (b).first ? -1 : ((b).first < (a).first ? 1 : ((a).second < (b).second ? -1 : ((b).second < (a).second ? 1 : 0))))
/* the functor was called exactly once with argument x (unary callables write a0 only) */
static _Bool logged1(const Log *n, const Log *o, int x) { return n->calls == o->calls + 1u && n->a0 == x && n->a1 == o->a1 && n->a2 == o->a2; }
static _Bool logged2(const Log *n, const Log *o, int x, int y) { return n->calls == o->calls + 1u && n->a0 == x && n->a1 == y && n->a2 == o->a2; }
static _Bool logged3(const Log *n, const Log *o, int x, int y, int z) { return n->calls == o->calls + 1u && n->a0 == x && n->a1 == y && n->a2 == z; }

#define PAIRS(X) X(ii, int, int, long, long) X(ic, int, char, long, int)
#define TIC0(t) ((t)._impl.b0._value)
#define TIC1(t) ((t)._impl.b1._value)
#define T3_0(t) ((t)._impl.b0._value)
#define T3_1(t) ((t)._impl.b1._value)
#define T3_2(t) ((t)._impl.b2._value)

/* ---- inplace_function<int(int),16,8>: wf(f) = f._vtable is the empty vtable or the vtable of a stored type -------------
 * g__ZN3etl6detail12empty_vtableIiJiEEE = detail::empty_vtable<int,int>; g__ZZN3etl16inplace_functionIFiiELm16ELm8EEC1IRKN2vf3CntES5_EEOT_E2vt / g__ZZN3etl16inplace_functionIFiiELm16ELm8EEC1IN2vf3CntES5_EEOT_E2vt / g__ZZN3etl16inplace_functionIFiiELm16ELm8EEC1IRKN2vf3SmlES5_EEOT_E2vt = cxx2c's names of the function-local
 * `static constexpr vtable_t vt` of inplace_function(T&&) for T = Cnt const&, Cnt (rvalue), Sml const&.
 * In the native replay those objects live in the real object code: their addresses are obtained from constructed wrappers and
 * the arbitrary state is produced through the constructors (the CBMC side writes the representation directly). */
#ifdef VF_NATIVE
static VT *VT_EMPTY, *VT_CNT_C, *VT_CNT_M, *VT_SML;
static void vt_init(void) { IF t; Cnt c = {0, 0, 0}; Sml s = {0};
  if_default(&t); VT_EMPTY = t._vtable; if_from_cnt(&t, &c); VT_CNT_C = t._vtable; if_from_cnt_rv(&t, &c); VT_CNT_M = t._vtable; if_from_sml(&t, &s); VT_SML = t._vtable; }
#else
#define VT_EMPTY ((VT *)&g__ZN3etl6detail12empty_vtableIiJiEEE)
#define VT_CNT_C ((VT *)&g__ZZN3etl16inplace_functionIFiiELm16ELm8EEC1IRKN2vf3CntES5_EEOT_E2vt)
#define VT_CNT_M ((VT *)&g__ZZN3etl16inplace_functionIFiiELm16ELm8EEC1IN2vf3CntES5_EEOT_E2vt)
#define VT_SML ((VT *)&g__ZZN3etl16inplace_functionIFiiELm16ELm8EEC1IRKN2vf3SmlES5_EEOT_E2vt)
#define vt_init() ((void)0)
#endif
/* abstract view: kind 0 empty, 1 holds a Cnt (log,k,n), 2 holds a Sml (k); -1 = not well-formed */
typedef struct { int kind; Log *log; int k; unsigned n; } fview_t;
static fview_t fview_vs(VT *vt, void *st) { fview_t v; v.kind = 0; v.log = 0; v.k = 0; v.n = 0;
  if (vt == VT_CNT_C || vt == VT_CNT_M) { Cnt *c = (Cnt *)st; v.kind = 1; v.log = c->log; v.k = c->k; v.n = c->n; }
  else if (vt == VT_SML) { v.kind = 2; v.k = ((Sml *)st)->k; }
  else if (vt != VT_EMPTY) v.kind = -1;
  return v; }
static fview_t fview(IF *f) { return fview_vs(f->_vtable, &f->_storage); }
static fview_t fview_w(IFW *f) { return fview_vs(f->_vtable, &f->_storage); }
static _Bool fview_eq(fview_t x, fview_t y) { return x.kind == y.kind && x.kind >= 0 && (x.kind != 1 || (x.log == y.log && x.k == y.k && x.n == y.n)) && (x.kind != 2 || x.k == y.k); }
static fview_t fview_empty(void) { fview_t v; v.kind = 0; v.log = 0; v.k = 0; v.n = 0; return v; }
static void mk_if(IF *f, unsigned char sel, Log *lg, int k, unsigned n) {
  vt_init(); __CPROVER_assume(sel <= 3);
#ifdef VF_NATIVE
  Cnt c = {lg, k, n}; Sml s = {k};
  if (sel == 0) if_default(f); else if (sel == 1) if_from_cnt(f, &c); else if (sel == 2) if_from_cnt_rv(f, &c); else if_from_sml(f, &s);
#else
  f->_vtable = sel == 0 ? VT_EMPTY : (sel == 1 ? VT_CNT_C : (sel == 2 ? VT_CNT_M : VT_SML));
  if (sel == 1 || sel == 2) { Cnt *c = (Cnt *)&f->_storage; c->log = lg; c->k = k; c->n = n; }
  else if (sel == 3) ((Sml *)&f->_storage)->k = k;
#endif
}
/* arbitrary well-formed wrapper: every byte symbolic, then the representation invariant */
#define ARBF(f, lg) VF_INPUT(IF, f); VF_INPUT(unsigned char, f##_sel); VF_INPUT(int, f##_k); VF_INPUT(unsigned, f##_n); mk_if(&f, f##_sel, lg, f##_k, f##_n)
/* reference semantics of a call on a view: result, the view afterwards, the effect on the log */
static int sp_call_result(fview_t v, int x) { return v.kind == 1 ? (x ^ v.k ^ (int)(v.n + 1u)) : (int)((unsigned)x + (unsigned)v.k); }
static fview_t sp_call_view(fview_t v) { if (v.kind == 1) v.n = v.n + 1u; return v; }
static _Bool sp_call_logged(fview_t v, const Log *n, const Log *o, int x) { return v.kind == 1 ? logged1(n, o, x) : log_eq(n, o); }
#define OBSERVERS(f, nonempty) (if_bool(&(f)) == (nonempty) && if_eq_null(&(f)) == !(nonempty) && if_null_eq(&(f)) == !(nonempty) && if_ne_null(&(f)) == (nonempty) && if_null_ne(&(f)) == (nonempty))

/* ==== pair =========================================================================================================== */
/*@GROUP name=pair_ctor props=C20,C02 kind=F@*/
void h_pair_ctor(void) {
#define X(S, T1, T2, W1, W2) VF_INPUT(P##S, p##S); VF_INPUT(T1, a##S); VF_INPUT(T2, b##S); VF_INPUT(unsigned char, w##S); VF_INPUT(short, sh##S); VF_INPUT(signed char, sc##S); T1 a0##S = a##S; T2 b0##S = b##S; \
  if (w##S == 0) { p##S##_default(&p##S); VF_ASSERT(p##S.first == 0 && p##S.second == 0, "pair<" #T1 "," #T2 ">(): both elements value-initialised"); }               \
  else if (w##S == 4) { p##S##_ctor_conv(&p##S, sh##S, sc##S); VF_ASSERT(p##S.first == sh##S && p##S.second == sc##S, "pair<" #T1 "," #T2 ">(short&, signed char&): each element converted from its argument"); } \
  else { if (w##S == 1) p##S##_ctor_val(&p##S, &a##S, &b##S); else if (w##S == 2) p##S##_ctor_fwd(&p##S, a##S, b##S); else p##S##_make(&p##S, a##S, b##S);              \
    VF_ASSERT(p##S.first == a0##S && p##S.second == b0##S, "pair<" #T1 "," #T2 ">(x,y), pair(U1&&,U2&&), make_pair(x,y): first == x, second == y");                    \
    VF_ASSERT(a##S == a0##S && b##S == b0##S, "construction leaves the arguments unchanged"); }
  PAIRS(X)
#undef X
  VF_REACH(); }

/*@GROUP name=pair_copy_assign props=C20,C02 kind=F@*/
void h_pair_copy_assign(void) {
#define X(S, T1, T2, W1, W2) VF_INPUT(P##S, s##S); VF_INPUT(P##S, t##S); VF_INPUT(Q##S, q##S); VF_INPUT(unsigned char, w##S); T1 f##S = s##S.first; T2 g##S = s##S.second; \
  __CPROVER_assume(w##S <= 7);                                                                                                                                         \
  if (w##S == 0) p##S##_copy(&t##S, &s##S); else if (w##S == 1) p##S##_move(&t##S, &s##S); else if (w##S == 2) p##S##_assign(&t##S, &s##S); else if (w##S == 3) p##S##_move_assign(&t##S, &s##S); \
  else if (w##S == 4) p##S##_conv_copy(&q##S, &s##S); else if (w##S == 5) p##S##_conv_move(&q##S, &s##S); else if (w##S == 6) p##S##_conv_assign(&q##S, &s##S); else p##S##_conv_move_assign(&q##S, &s##S); \
  if (w##S <= 3) VF_ASSERT(t##S.first == f##S && t##S.second == g##S, "pair<" #T1 "," #T2 "> copy/move construction and assignment: target == source, element by element"); \
  else VF_ASSERT(q##S.first == (W1)f##S && q##S.second == (W2)g##S, "pair<" #W1 "," #W2 "> converting construction/assignment from pair<" #T1 "," #T2 ">: each element converted"); \
  VF_ASSERT(s##S.first == f##S && s##S.second == g##S, "the source keeps its element values (scalar elements: a move is a copy)");
  PAIRS(X)
#undef X
  VF_REACH(); }

/*@GROUP name=pair_self_assign props=C20,C02 kind=F@*/
void h_pair_self_assign(void) {
#define X(S, T1, T2, W1, W2) VF_INPUT(P##S, s##S); VF_INPUT_BOOL(mv##S); T1 f##S = s##S.first; T2 g##S = s##S.second;                                                  \
  if (mv##S) p##S##_move_assign(&s##S, &s##S); else p##S##_assign(&s##S, &s##S);                                                                                       \
  VF_ASSERT(s##S.first == f##S && s##S.second == g##S, "pair<" #T1 "," #T2 "> self-assignment keeps both elements");
  PAIRS(X)
#undef X
  VF_REACH(); }

/*@GROUP name=pair_swap props=C20,C02 kind=F@*/
void h_pair_swap(void) {
#define X(S, T1, T2, W1, W2) VF_INPUT(P##S, a##S); VF_INPUT(P##S, b##S); VF_INPUT_BOOL(fr##S); VF_INPUT_BOOL(self##S); P##S oa##S = a##S, ob##S = b##S;                   \
  if (self##S) { if (fr##S) p##S##_swap_free(&a##S, &a##S); else p##S##_swap(&a##S, &a##S);                                                                             \
    VF_ASSERT(a##S.first == oa##S.first && a##S.second == oa##S.second, "pair<" #T1 "," #T2 "> self-swap keeps both elements"); }                                       \
  else { if (fr##S) p##S##_swap_free(&a##S, &b##S); else p##S##_swap(&a##S, &b##S);                                                                                     \
    VF_ASSERT(a##S.first == ob##S.first && a##S.second == ob##S.second && b##S.first == oa##S.first && b##S.second == oa##S.second, "pair<" #T1 "," #T2 ">::swap / swap(x,y) exchange first with first and second with second"); }
  PAIRS(X)
#undef X
  VF_REACH(); }

/*@GROUP name=pair_get props=C20,C02 kind=F@*/
void h_pair_get(void) {
#define X(S, T1, T2, W1, W2) VF_INPUT(P##S, p##S); P##S o##S = p##S;                                                                                                   \
  VF_ASSERT(p##S##_get0(&p##S) == &p##S.first && p##S##_get1(&p##S) == &p##S.second, "get<0>/get<1>(pair&) refer to first/second of the same object");                  \
  VF_ASSERT(p##S##_cget0(&p##S) == &p##S.first && p##S##_cget1(&p##S) == &p##S.second, "get<0>/get<1>(pair const&) refer to first/second of the same object");          \
  VF_ASSERT(p##S##_rget0(&p##S) == o##S.first && p##S##_rget1(&p##S) == o##S.second, "get<I>(pair&&) delivers the element value");                                      \
  VF_ASSERT(p##S.first == o##S.first && p##S.second == o##S.second, "get leaves the pair unchanged");
  PAIRS(X)
#undef X
  VF_INPUT(Pic, q); VF_INPUT(char, c); char c0 = c; int r = pic_sb(&q, &c);
  VF_ASSERT(r == q.first && c == q.second, "structured binding `auto [a, b] = p` delivers first and second"); (void)c0;
  VF_REACH(); }

/*@GROUP name=pair_rel props=C20,C02 kind=F@*/
void h_pair_rel(void) {
#define X(S, T1, T2, W1, W2) VF_INPUT(P##S, a##S); VF_INPUT(P##S, b##S); int c##S = LEX(a##S, b##S); _Bool e##S = a##S.first == b##S.first && a##S.second == b##S.second; \
  VF_ASSERT(p##S##_eq(&a##S, &b##S) == e##S && p##S##_ne(&a##S, &b##S) == !e##S, "pair<" #T1 "," #T2 "> == / != : both elements equal");                                \
  VF_ASSERT(p##S##_lt(&a##S, &b##S) == (c##S < 0) && p##S##_le(&a##S, &b##S) == (c##S <= 0) && p##S##_gt(&a##S, &b##S) == (c##S > 0) && p##S##_ge(&a##S, &b##S) == (c##S >= 0), \
            "pair<" #T1 "," #T2 "> <, <=, >, >= are the lexicographic comparison (first, then second; ties on first are inside the domain)");                        \

  PAIRS(X)
#undef X
  VF_REACH(); }

/* ==== tuple ========================================================================================================== */
/*@GROUP name=tuple_ctor props=C20,C02 kind=F@*/
void h_tuple_ctor(void) { VF_INPUT(Tic, t); VF_INPUT(T3, u); VF_INPUT(int, a); VF_INPUT(char, b); VF_INPUT(int, c); VF_INPUT(int, d); VF_INPUT(short, sh); VF_INPUT(unsigned char, w);
  int a0 = a, c0 = c, d0 = d; char b0 = b;
  if (w == 0) { tic_default(&t); t3_default(&u); VF_ASSERT(TIC0(t) == 0 && TIC1(t) == 0 && T3_0(u) == 0 && T3_1(u) == 0 && T3_2(u) == 0, "tuple(): every element value-initialised"); }
  else if (w == 4) { tic_ctor_conv(&t, sh, b); VF_ASSERT(TIC0(t) == sh && TIC1(t) == b0, "tuple<int,char>(short&, char&): each element converted from its argument"); }
  else { if (w == 1) { tic_ctor_val(&t, &a, &b); t3_ctor_val(&u, &a, &c, &d); } else if (w == 2) { tic_ctor_fwd(&t, a, b); t3_ctor_fwd(&u, a, c, d); } else { tic_make(&t, a, b); t3_make(&u, a, c, d); }
    VF_ASSERT(TIC0(t) == a0 && TIC1(t) == b0, "tuple<int,char>(x,y), tuple(U&&...), make_tuple: element I == argument I");
    VF_ASSERT(T3_0(u) == a0 && T3_1(u) == c0 && T3_2(u) == d0, "tuple<int,int,int>(x,y,z), tuple(U&&...), make_tuple: element I == argument I (no permutation)");
    VF_ASSERT(a == a0 && b == b0 && c == c0 && d == d0, "construction leaves the arguments unchanged"); }
  VF_REACH(); }

/*@GROUP name=tuple_copy props=C20,C02 kind=F@*/
void h_tuple_copy(void) { VF_INPUT(Tic, s); VF_INPUT(Tic, t); VF_INPUT(T3, u); VF_INPUT(T3, v); VF_INPUT_BOOL(mv); Tic os = s; T3 ou = u;
  if (mv) { tic_move(&t, &s); t3_move(&v, &u); } else { tic_copy(&t, &s); t3_copy(&v, &u); }
  VF_ASSERT(TIC0(t) == TIC0(os) && TIC1(t) == TIC1(os) && T3_0(v) == T3_0(ou) && T3_1(v) == T3_1(ou) && T3_2(v) == T3_2(ou), "tuple copy/move construction: element I of the target == element I of the source");
  VF_ASSERT(TIC0(s) == TIC0(os) && TIC1(s) == TIC1(os) && T3_0(u) == T3_0(ou) && T3_1(u) == T3_1(ou) && T3_2(u) == T3_2(ou), "the source keeps its element values");
  VF_REACH(); }

/*@GROUP name=tuple_get props=C20,C02 kind=F@*/
void h_tuple_get(void) { VF_INPUT(Tic, t); VF_INPUT(T3, u); Tic ot = t; T3 ou = u;
  VF_ASSERT(tic_get0(&t) == &TIC0(t) && tic_get1(&t) == &TIC1(t) && tic_cget0(&t) == &TIC0(t) && tic_cget1(&t) == &TIC1(t), "get<I>(tuple<int,char>&/const&) refers to element I of the same object");
  VF_ASSERT(t3_get0(&u) == &T3_0(u) && t3_get1(&u) == &T3_1(u) && t3_get2(&u) == &T3_2(u) && t3_cget0(&u) == &T3_0(u) && t3_cget1(&u) == &T3_1(u) && t3_cget2(&u) == &T3_2(u), "get<I>(tuple<int,int,int>&/const&) refers to element I of the same object");
  VF_ASSERT(tic_rget0(&t) == TIC0(ot) && tic_rget1(&t) == TIC1(ot) && t3_rget2(&u) == T3_2(ou), "get<I>(tuple&&) delivers the element value");
  VF_ASSERT(TIC0(t) == TIC0(ot) && TIC1(t) == TIC1(ot) && T3_0(u) == T3_0(ou) && T3_1(u) == T3_1(ou) && T3_2(u) == T3_2(ou), "get leaves the tuple unchanged");
  VF_REACH(); }

/*@GROUP name=tuple_swap props=C20,C02 kind=F@*/
void h_tuple_swap(void) { VF_INPUT(Tic, a); VF_INPUT(Tic, b); VF_INPUT(T3, c); VF_INPUT(T3, d); VF_INPUT_BOOL(self); Tic oa = a, ob = b; T3 oc = c, od = d;
  if (self) { tic_swap(&a, &a); t3_swap(&c, &c);
    VF_ASSERT(TIC0(a) == TIC0(oa) && TIC1(a) == TIC1(oa) && T3_0(c) == T3_0(oc) && T3_1(c) == T3_1(oc) && T3_2(c) == T3_2(oc), "tuple self-swap keeps every element"); }
  else { tic_swap(&a, &b); t3_swap(&c, &d);
    VF_ASSERT(TIC0(a) == TIC0(ob) && TIC1(a) == TIC1(ob) && TIC0(b) == TIC0(oa) && TIC1(b) == TIC1(oa), "tuple<int,char>::swap exchanges element I with element I");
    VF_ASSERT(T3_0(c) == T3_0(od) && T3_1(c) == T3_1(od) && T3_2(c) == T3_2(od) && T3_0(d) == T3_0(oc) && T3_1(d) == T3_1(oc) && T3_2(d) == T3_2(oc), "tuple<int,int,int>::swap exchanges element I with element I"); }
  VF_REACH(); }

/*@GROUP name=tuple_eq props=C20,C02 kind=F@*/
void h_tuple_eq(void) { VF_INPUT(Tic, a); VF_INPUT(Tic, b); VF_INPUT(T3, c); VF_INPUT(T3, d);
  _Bool e2 = TIC0(a) == TIC0(b) && TIC1(a) == TIC1(b); _Bool e3 = T3_0(c) == T3_0(d) && T3_1(c) == T3_1(d) && T3_2(c) == T3_2(d);
  VF_ASSERT(tic_eq(&a, &b) == e2 && tic_ne(&a, &b) == !e2, "tuple<int,char> == / != : all elements equal");
  VF_ASSERT(t3_eq(&c, &d) == e3 && t3_ne(&c, &d) == !e3, "tuple<int,int,int> == / != : all elements equal (a difference in the last element only is inside the domain)");

  VF_REACH(); }

/*@GROUP name=tuple_apply props=C20,C02 kind=F@*/
void h_tuple_apply(void) { VF_INPUT(Log, l); VF_INPUT(T3, u); VF_INPUT(Tic, t); VF_INPUT(Pic, p); VF_INPUT(int, a); VF_INPUT(int, b); VF_INPUT(int, c); VF_INPUT(unsigned char, w);
  Log o = l; T3 ou = u; Tic ot = t; Pic op = p; __CPROVER_assume(w <= 4);
  if (w == 0) { int r = t3_apply(&l, &u);
    VF_ASSERT(logged3(&l, &o, T3_0(ou), T3_1(ou), T3_2(ou)), "apply(f, tuple<int,int,int>): f called exactly once with (get<0>, get<1>, get<2>) in this order");
    VF_ASSERT(r == ENC3(T3_0(ou), T3_1(ou), T3_2(ou)), "apply returns f's result unchanged"); }
  else if (w == 1) { int r = tic_apply(&l, &t);
    VF_ASSERT(logged2(&l, &o, TIC0(ot), TIC1(ot)) && r == ENC3(TIC0(ot), TIC1(ot), 0), "apply(f, tuple<int,char>): called once with (get<0>, get<1>), result unchanged"); }
  else if (w == 2) { int r = pic_apply(&l, &p);
    VF_ASSERT(logged2(&l, &o, op.first, op.second) && r == ENC3(op.first, op.second, 0), "apply(f, pair<int,char>): called once with (first, second), result unchanged"); }
  else if (w == 3) { t3_apply_mut(&u);
    VF_ASSERT(T3_0(u) == T3_2(ou) && T3_2(u) == T3_1(ou) && T3_1(u) == T3_0(ou), "apply(f, tuple&) passes the elements themselves (by reference): f's writes land in the tuple"); }
  else { int r = t_fat_apply(&l, a, b, c);
    VF_ASSERT(logged3(&l, &o, a, b, c) && r == ENC3(a, b, c), "apply(f, forward_as_tuple(x,y,z)): called once with (x,y,z), result unchanged"); }
  if (w != 3) VF_ASSERT(T3_0(u) == T3_0(ou) && T3_1(u) == T3_1(ou) && T3_2(u) == T3_2(ou) && TIC0(t) == TIC0(ot) && TIC1(t) == TIC1(ot) && p.first == op.first && p.second == op.second, "apply leaves the tuple unchanged");
  VF_REACH(); }

/*@GROUP name=tuple_make_from props=C20,C02 kind=F@*/
void h_tuple_make_from(void) { VF_INPUT(T3, u); VF_INPUT(Tic, t); VF_INPUT(Pic, p); VF_INPUT(S3, s); VF_INPUT(Pic, pr); VF_INPUT(Tic, tr);
  t3_make_from(&s, &u); VF_ASSERT(s.a == T3_0(u) && s.b == T3_1(u) && s.c == T3_2(u), "make_from_tuple<S>(tuple<int,int,int>): S(get<0>, get<1>, get<2>)");
  tic_make_from(&pr, &t); VF_ASSERT(pr.first == TIC0(t) && pr.second == TIC1(t), "make_from_tuple<pair<int,char>>(tuple<int,char>)");
  pic_make_from(&tr, &p); VF_ASSERT(TIC0(tr) == p.first && TIC1(tr) == p.second, "make_from_tuple<tuple<int,char>>(pair<int,char>)");
  VF_REACH(); }

/*@GROUP name=tuple_tie props=C20,C02 kind=F@*/
void h_tuple_tie(void) { VF_INPUT(int, a); VF_INPUT(char, b); VF_INPUT(int, c); VF_INPUT(char, d); VF_INPUT(int, x); VF_INPUT(char, y);
  VF_ASSERT(t_tie_eq(&a, &b, &c, &d) == (a == c && b == d), "tie(a,b) == tie(c,d) compares the referenced objects");
  VF_ASSERT(t_fat_addr0(&a, b) == &a, "get<0>(forward_as_tuple(a, ...)) is a itself");
  t_tie_store(&a, &b, x, y); VF_ASSERT(a == x && b == y, "get<I>(tie(a,b)) = v writes through to the tied object");
  VF_REACH(); }

/* ==== invoke, reference_wrapper, function_ref, bind_front, not_fn ===================================================== */
/*@GROUP name=invoke props=C20,C02 kind=F@*/
void h_invoke(void) { VF_INPUT(Log, l); VF_INPUT(int, x); VF_INPUT(int, y); VF_INPUT(int, k); VF_INPUT(unsigned char, w); __CPROVER_assume(w <= 7); Log o = l; Fun f; f.log = &l; f.k = k;
  if (w <= 1) { int r = w == 0 ? iv_free(&l, x, y) : iv_fptr(&l, x, y);
    VF_ASSERT(logged2(&l, &o, x, y), "invoke(free function / function pointer, l, x, y): called exactly once with the same arguments in the same order");
    VF_ASSERT(r == ENC3(x, y, 0), "invoke returns the result unchanged"); }
  else if (w <= 5) { int r = w == 2 ? iv_fun(&f, x) : (w == 3 ? iv_cfun(&f, x) : (w == 4 ? iv_rfun(&l, k, x) : iv_lambda(&l, k, x)));
    VF_ASSERT(logged1(&l, &o, x), "invoke(functor lvalue / const lvalue / rvalue / lambda, x): called exactly once with x");
    VF_ASSERT(r == (x ^ k), "invoke returns the callable's result unchanged"); }
  else if (w == 6) { long r = ivr_long(&f, x); VF_ASSERT(logged1(&l, &o, x) && r == (long)(x ^ k), "invoke_r<long>: called once with x, result converted to long"); }
  else { ivr_void(&f, x); VF_ASSERT(logged1(&l, &o, x), "invoke_r<void>: called once with x, result discarded"); }
  VF_ASSERT(f.log == &l && f.k == k, "the callable is unchanged");
  VF_REACH(); }

/*@GROUP name=refwrap props=C20,C02 kind=F@*/
void h_refwrap(void) { VF_INPUT(int, a); VF_INPUT(int, b); VF_INPUT(int, v); VF_INPUT(RW, r); VF_INPUT(RW, q); VF_INPUT(unsigned char, w); VF_INPUT(Log, l); VF_INPUT(int, x); VF_INPUT(int, k);
  int a0 = a, b0 = b; Log o = l; Fun f; f.log = &l; f.k = k; __CPROVER_assume(w <= 8);
  if (w == 0) { rw_ctor(&r, &a); VF_ASSERT(r._ptr == &a, "reference_wrapper(x) refers to x"); }
  else if (w == 1) { rw_ref(&r, &a); VF_ASSERT(r._ptr == &a, "ref(x) refers to x"); }
  else if (w == 2) { q._ptr = &a; rw_ref_rw(&r, &q); VF_ASSERT(r._ptr == &a && q._ptr == &a, "ref(reference_wrapper) refers to the same object"); }
  else if (w == 3) { q._ptr = &a; rw_copy(&r, &q); VF_ASSERT(r._ptr == &a && q._ptr == &a, "copy construction refers to the same object"); }
  else if (w == 4) { r._ptr = &a; VF_ASSERT(rw_get(&r) == &a && rw_conv(&r) == &a && rw_cref(&a) == &a, "get(), operator T&() and cref(x).get() are the referenced object itself"); }
  else if (w == 5) { r._ptr = &a; q._ptr = &b; rw_assign(&r, &q);
    VF_ASSERT(r._ptr == &b && q._ptr == &b && a == a0 && b == b0, "assignment rebinds: no value is copied between the referenced objects");
    *rw_get(&r) = v; VF_ASSERT(b == v && a == a0, "a write through the rebound wrapper lands in the new target only"); }
  else { int res = w == 6 ? rwf_call(&f, x) : (w == 7 ? rwf_call_c(&f, x) : rwf_invoke(&f, x));
    VF_ASSERT(logged1(&l, &o, x) && res == (x ^ k), "reference_wrapper<F>::operator() / invoke(ref(f), x): the referenced callable is called exactly once with x, result unchanged");
    VF_ASSERT(f.log == &l && f.k == k, "the referenced callable is unchanged"); }
  VF_REACH(); }

/*@GROUP name=function_ref props=C20,C02 kind=F when=VF_FUNCTION_REF@*/
void h_function_ref(void) { VF_INPUT(Log, l); VF_INPUT(Log, l2); VF_INPUT(Log, gl); VF_INPUT(int, x); VF_INPUT(int, k); VF_INPUT(int, k2); VF_INPUT(FR, r); VF_INPUT(FR, q); VF_INPUT(unsigned char, w);
  __CPROVER_assume(w <= 4); vf_glog = gl; Log o = l, o2 = l2; Fun f; f.log = &l; f.k = k; Fun f2; f2.log = &l2; f2.k = k2;
  if (w <= 1) { if (w == 0) fr_from_fun(&r, &f); else fr_from_cfun(&r, &f);
    VF_ASSERT(r._obj == (void *)&f && log_eq(&l, &o), "function_ref(f) refers to f and does not call it");
    int res = fr_call(&r, x); VF_ASSERT(logged1(&l, &o, x) && res == (x ^ k), "function_ref::operator()(x): the referenced callable is called exactly once with x, result unchanged"); }
  else if (w == 2) { fr_from_free(&r); int res = fr_call(&r, x);
    VF_ASSERT(logged1(&vf_glog, &gl, x) && res == (x ^ 0x55), "function_ref(free function): called exactly once with x, result unchanged"); }
  else if (w == 3) { fr_from_fun(&q, &f); fr_copy(&r, &q);
    VF_ASSERT(r._obj == q._obj && r._callable == q._callable, "copy construction: same target");
    int res = fr_call(&r, x); VF_ASSERT(logged1(&l, &o, x) && res == (x ^ k), "a copy calls the same target"); }
  else { fr_from_fun(&q, &f); fr_from_fun(&r, &f2); fr_assign(&r, &q);
    VF_ASSERT(r._obj == (void *)&f && r._callable == q._callable, "assignment rebinds to the source's target");
    int res = fr_call(&r, x); VF_ASSERT(logged1(&l, &o, x) && res == (x ^ k) && log_eq(&l2, &o2), "after rebinding only the new target is called"); }
  if (w != 2) VF_ASSERT(log_eq(&vf_glog, &gl), "no other callable is called");
  VF_ASSERT(f.log == &l && f.k == k, "the referenced callable is unchanged");
  VF_REACH(); }

/*@GROUP name=function_ref_copy props=C20,C02 kind=F when=VF_FUNCTION_REF@*/
void h_function_ref_copy(void) { VF_INPUT(FR, s); VF_INPUT(FR, t); VF_INPUT_BOOL(as); FR os = s; /* arbitrary representation (_obj, _callable) */
  if (as) fr_assign(&t, &s); else fr_copy(&t, &s);
  VF_ASSERT(t._obj == os._obj && t._callable == os._callable && s._obj == os._obj && s._callable == os._callable, "function_ref copy construction / assignment copy (object, thunk) and leave the source unchanged");
  VF_REACH(); }

/*@GROUP name=bind_front props=C20,C02 kind=F@*/
void h_bind_front(void) { VF_INPUT(Log, l); VF_INPUT(int, a); VF_INPUT(int, b); VF_INPUT(int, a2); VF_INPUT(int, x); VF_INPUT(unsigned char, w); __CPROVER_assume(w <= 4); Log o = l;
  if (w <= 2) { int r = bf_call(&l, a, b, a2, x, w);
    VF_ASSERT(logged3(&l, &o, a, b, x), "bind_front(f,a,b)(x) [&, const&, && call operators]: f called exactly once with (a, b, x): bound arguments first, as captured BY VALUE at bind time");
    VF_ASSERT(r == ENC3(a, b, x), "bind_front returns f's result unchanged"); }
  else if (w == 3) { int r = bf_ref(&l, a, a2, b, x);
    VF_ASSERT(logged3(&l, &o, a2, b, x) && r == ENC3(a2, b, x), "bind_front(f, ref(a), b)(x): a reference_wrapper argument is bound by reference (the value at call time is delivered)"); }
  else { int r = bf_all(&l, a, b, x); VF_ASSERT(logged3(&l, &o, a, b, x) && r == ENC3(a, b, x), "bind_front(f,a,b,c)(): all arguments bound"); }
  VF_REACH(); }

/*@GROUP name=not_fn props=C20,C02 kind=F@*/
void h_not_fn(void) { VF_INPUT(Log, l); VF_INPUT(Log, gl); VF_INPUT(int, x); VF_INPUT(int, k); VF_INPUT(unsigned char, w); __CPROVER_assume(w <= 3); vf_glog = gl; Log o = l; Fun f; f.log = &l; f.k = k;
  if (w <= 2) { _Bool r = nf_call(&f, x, w);
    VF_ASSERT(logged1(&l, &o, x) && log_eq(&vf_glog, &gl), "not_fn(f)(x) [&, const&, && call operators]: f called exactly once with x");
    VF_ASSERT(r == !((x ^ k) != 0), "not_fn(f)(x) == !f(x)"); }
  else { _Bool r = nf_stateless(x);
    VF_ASSERT(logged1(&vf_glog, &gl, x) && log_eq(&l, &o), "not_fn<&free_function>()(x): called exactly once with x");
    VF_ASSERT(r == !((x ^ 0x55) != 0), "not_fn<fn>()(x) == !fn(x)"); }
  VF_ASSERT(f.log == &l && f.k == k, "the callable is unchanged");
  VF_REACH(); }

/* ==== inplace_function<int(int),16,8> ================================================================================ */
/*@GROUP name=ipf_ctors props=C20,C02,C05 kind=F@*/
void h_ipf_ctors(void) { VF_INPUT(IF, f); /* indeterminate storage */ VF_INPUT(Log, l); VF_INPUT(int, k); VF_INPUT(unsigned, n); VF_INPUT(int, x); VF_INPUT(unsigned char, w); __CPROVER_assume(w <= 4); vt_init();
  Log o = l; Cnt c; c.log = &l; c.k = k; c.n = n; Sml s; s.k = k; fview_t e = fview_empty();
  if (w == 0) if_default(&f); else if (w == 1) if_nullptr(&f);
  else if (w == 2) { if_from_cnt(&f, &c); e.kind = 1; e.log = &l; e.k = k; e.n = n; }
  else if (w == 3) { if_from_cnt_rv(&f, &c); e.kind = 1; e.log = &l; e.k = k; e.n = n; }
  else { if_from_sml(&f, &s); e.kind = 2; e.k = k; }
  VF_ASSERT(fview_eq(fview(&f), e), "inplace_function(), (nullptr): empty; (callable): holds a copy of the callable (well-formed in every case)");
  VF_ASSERT(OBSERVERS(f, e.kind != 0), "operator bool and the four comparisons with nullptr report emptiness");
  VF_ASSERT(log_eq(&l, &o) && c.log == &l && c.k == k && c.n == n && s.k == k, "construction calls nothing and leaves the argument unchanged");
  if (e.kind != 0) { int r = if_call(&f, x);
    VF_ASSERT(r == sp_call_result(e, x) && sp_call_logged(e, &l, &o, x), "operator()(x): the stored callable is called exactly once with x, result unchanged");
    VF_ASSERT(fview_eq(fview(&f), sp_call_view(e)) && c.n == n, "the call acts on the stored copy, not on the argument it was constructed from"); }
  VF_REACH(); }

/*@GROUP name=ipf_copy_move props=C20,C02,C05 kind=F@*/
void h_ipf_copy_move(void) { VF_INPUT(Log, ls); VF_INPUT(Log, lt); ARBF(s, &ls); VF_INPUT(IF, t); VF_INPUT(unsigned char, t_sel); VF_INPUT(int, t_k); VF_INPUT(unsigned, t_n); VF_INPUT(unsigned char, w); VF_INPUT(int, x);
  __CPROVER_assume(w <= 3); fview_t os = fview(&s); Log o = ls, ot = lt;
  if (w == 0) if_copy(&t, &s); /* t: indeterminate storage */
  else if (w == 1) { mk_if(&t, t_sel, &lt, t_k, t_n); if_assign(&t, &s); }
  else if (w == 2) if_move(&t, &s);
  else { mk_if(&t, t_sel, &lt, t_k, t_n); if_move_assign(&t, &s); }
  VF_ASSERT(fview_eq(fview(&t), os), "copy/move construction and assignment over all (empty, Cnt, Sml) x (empty, Cnt, Sml) pairs: target == old source");
  VF_ASSERT(fview_eq(fview(&s), w <= 1 ? os : fview_empty()), "copy leaves the source unchanged; move leaves it empty");
  VF_ASSERT(OBSERVERS(t, os.kind != 0) && OBSERVERS(s, w <= 1 && os.kind != 0), "operator bool / nullptr comparisons follow the state");
  VF_ASSERT(log_eq(&ls, &o) && log_eq(&lt, &ot), "copying / moving calls nothing");
  if (os.kind != 0) { int r = if_call(&t, x);
    VF_ASSERT(r == sp_call_result(os, x) && sp_call_logged(os, &ls, &o, x) && log_eq(&lt, &ot), "the copy calls an equivalent target: same result as the source for an arbitrary argument, exactly one call");
    VF_ASSERT(fview_eq(fview(&t), sp_call_view(os)), "the call advances the copy's own state");
    if (w <= 1) { VF_ASSERT(fview_eq(fview(&s), os), "independent state: calling the copy leaves the source's callable unchanged");
      Log o2 = ls; int r2 = if_call(&s, x); VF_ASSERT(r2 == r && sp_call_logged(os, &ls, &o2, x), "the source, called with the same argument, gives the same result"); } }
  VF_REACH(); }

/*@GROUP name=ipf_assign props=C20,C02,C05 kind=F@*/
void h_ipf_assign(void) { VF_INPUT(Log, lf); VF_INPUT(Log, l); ARBF(f, &lf); VF_INPUT(int, k); VF_INPUT(unsigned, n); VF_INPUT(int, x); VF_INPUT(unsigned char, w); __CPROVER_assume(w <= 2);
  Log of = lf, o = l; Cnt c; c.log = &l; c.k = k; c.n = n; Sml s; s.k = k; fview_t e = fview_empty();
  if (w == 0) if_assign_null(&f); else if (w == 1) { if_assign_cnt(&f, &c); e.kind = 1; e.log = &l; e.k = k; e.n = n; } else { if_assign_sml(&f, &s); e.kind = 2; e.k = k; }
  VF_ASSERT(fview_eq(fview(&f), e), "= nullptr: empty; = callable: holds a copy of the callable (from every well-formed state)");
  VF_ASSERT(OBSERVERS(f, e.kind != 0) && log_eq(&lf, &of) && log_eq(&l, &o) && c.n == n && c.k == k && c.log == &l && s.k == k, "assignment calls nothing and leaves the argument unchanged");
  if (e.kind != 0) { int r = if_call(&f, x); VF_ASSERT(r == sp_call_result(e, x) && sp_call_logged(e, &l, &o, x) && log_eq(&lf, &of), "the newly assigned callable (and only it) is called"); }
  VF_REACH(); }

/*@GROUP name=ipf_swap props=C20,C02,C05 kind=F@*/
void h_ipf_swap(void) { VF_INPUT(Log, la); VF_INPUT(Log, lb); ARBF(a, &la); ARBF(b, &lb); VF_INPUT_BOOL(fr); VF_INPUT(int, x); fview_t oa = fview(&a), ob = fview(&b); Log o1 = la, o2 = lb;
  if (fr) if_swap_free(&a, &b); else if_swap(&a, &b);
  VF_ASSERT(fview_eq(fview(&a), ob) && fview_eq(fview(&b), oa), "swap exchanges the stored callables over all nine (empty, Cnt, Sml) pairs");
  VF_ASSERT(OBSERVERS(a, ob.kind != 0) && OBSERVERS(b, oa.kind != 0) && log_eq(&la, &o1) && log_eq(&lb, &o2), "swap calls nothing; emptiness is exchanged");
  if (ob.kind != 0) { int r = if_call(&a, x); VF_ASSERT(r == sp_call_result(ob, x) && sp_call_logged(ob, &lb, &o2, x) && log_eq(&la, &o1) && fview_eq(fview(&b), oa), "after swap a calls b's former target only"); }
  VF_REACH(); }

/*@GROUP name=ipf_self_assign props=C20,C02,C05 kind=F@*/
void h_ipf_self_assign(void) { VF_INPUT(Log, la); ARBF(a, &la); VF_INPUT_BOOL(mv); fview_t oa = fview(&a); Log o = la;
  if (mv) if_move_assign(&a, &a); else if_assign(&a, &a);
  VF_ASSERT(fview_eq(fview(&a), oa) && log_eq(&la, &o), "self-assignment (copy and move) keeps the stored callable and calls nothing");
  VF_REACH(); }

/*@GROUP name=ipf_call props=C20,C02,C05 kind=F@*/
void h_ipf_call(void) { VF_INPUT(Log, l); VF_INPUT(Log, gl); ARBF(f, &l); VF_INPUT(int, x); VF_INPUT(int, y); fview_t of = fview(&f); Log o = l; vf_glog = gl; __CPROVER_assume(of.kind != 0);
  VF_ASSERT(OBSERVERS(f, 1), "a wrapper holding a callable is not empty");
  int r = if_call(&f, x);
  VF_ASSERT(r == sp_call_result(of, x) && sp_call_logged(of, &l, &o, x) && log_eq(&vf_glog, &gl), "operator()(x) from every non-empty state: the stored callable is called exactly once with x, result unchanged, nothing else is called");
  VF_ASSERT(fview_eq(fview(&f), sp_call_view(of)), "the wrapper still holds the same callable (its own state advanced by one call)");
  Log o2 = l; int r2 = if_call(&f, y); VF_ASSERT(r2 == sp_call_result(sp_call_view(of), y) && sp_call_logged(of, &l, &o2, y), "a second call sees the state left by the first");
  VF_REACH(); }

/*@GROUP name=ipf_widen props=C20,C02,C05 kind=F@*/
void h_ipf_widen(void) { VF_INPUT(Log, ls); ARBF(s, &ls); VF_INPUT(IFW, t); VF_INPUT_BOOL(mv); VF_INPUT(int, x); fview_t os = fview(&s); Log o = ls;
  if (mv) ifw_move(&t, &s); else ifw_copy(&t, &s);
  VF_ASSERT(fview_eq(fview_w(&t), os) && ifw_bool(&t) == (os.kind != 0), "inplace_function<int(int),32>(inplace_function<int(int),16> const& / &&): target == old source");
  VF_ASSERT(fview_eq(fview(&s), mv ? fview_empty() : os) && log_eq(&ls, &o), "copy leaves the source unchanged; move leaves it empty; nothing is called");
  if (os.kind != 0) { int r = ifw_call(&t, x); VF_ASSERT(r == sp_call_result(os, x) && sp_call_logged(os, &ls, &o, x) && fview_eq(fview_w(&t), sp_call_view(os)), "the widened copy calls an equivalent target");
    if (!mv) VF_ASSERT(fview_eq(fview(&s), os), "independent state"); }
  VF_REACH(); }

/* ---- C05: the call operator of an empty wrapper trips the contract check, nothing is called ---------------------------- */
/*@GROUP name=viol_ipf_call props=C05,C20,C02 kind=F@*/
void h_viol_ipf_call(void) { VF_INPUT(Log, l); VF_INPUT(Log, gl); ARBF(f, &l); VF_INPUT(int, x); VF_INPUT(unsigned char, how); VF_INPUT(IF, g); __CPROVER_assume(how <= 3); vf_glog = gl;
  /* every way of being empty: arbitrary empty state, default / nullptr constructed, moved-from, assigned nullptr (the storage may still hold the bytes of a former callable) */
  if (how == 0) __CPROVER_assume(f_sel == 0);
  else if (how == 1) if_default(&f);
  else if (how == 2) if_move(&g, &f);
  else if_assign_null(&f);
  VF_ASSERT(OBSERVERS(f, 0), "C20: an empty wrapper reports empty");
  vf_snap_log = l; vf_snap_log_of = &l; vf_snap_glog = vf_glog; vf_snap_f = f; vf_snap_f_of = &f; vf_expect_handler = 1;
  if_call(&f, x);
  VF_NORETURN_EXPECTED(); }

/* ==== switched off until the tool chain supports the construct (see driver.cpp; enable with variant defs) ================ */
/*@GROUP name=tuple_cat props=C20,C02 kind=F when=VF_TUPLE_CAT@*/
#define EL(t, i) ((t)._impl.b##i._value)
void h_tuple_cat(void) { VF_INPUT(Tic, a); VF_INPUT(T3, b); VF_INPUT(T3, c); VF_INPUT(Pii, p);
  VF_INPUT(struct etl_tuple_int_char, r1); VF_INPUT(struct etl_tuple_int_char_int_int_int, r2); VF_INPUT(struct etl_tuple_int_int_int_int_char_int_int_int, r3); VF_INPUT(struct etl_tuple_int_int_int_char, r4);
  t_cat1(&r1, &a); VF_ASSERT(EL(r1, 0) == TIC0(a) && EL(r1, 1) == TIC1(a), "tuple_cat(t) == t");
  t_cat2(&r2, &a, &b); VF_ASSERT(EL(r2, 0) == TIC0(a) && EL(r2, 1) == TIC1(a) && EL(r2, 2) == T3_0(b) && EL(r2, 3) == T3_1(b) && EL(r2, 4) == T3_2(b), "tuple_cat(t,u): the elements of t followed by the elements of u, in order");
  t_cat3(&r3, &b, &a, &c); VF_ASSERT(EL(r3, 0) == T3_0(b) && EL(r3, 1) == T3_1(b) && EL(r3, 2) == T3_2(b) && EL(r3, 3) == TIC0(a) && EL(r3, 4) == TIC1(a) && EL(r3, 5) == T3_0(c) && EL(r3, 6) == T3_1(c) && EL(r3, 7) == T3_2(c), "tuple_cat(t,u,v): concatenation in argument order");
  t_cat_pair(&r4, &p, &a); VF_ASSERT(EL(r4, 0) == p.first && EL(r4, 1) == p.second && EL(r4, 2) == TIC0(a) && EL(r4, 3) == TIC1(a), "tuple_cat(pair, tuple)");
  VF_REACH(); }

/*@GROUP name=invoke_memptr props=C20,C02 kind=F when=VF_MEMPTR@*/
void h_invoke_memptr(void) { VF_INPUT(Log, l); VF_INPUT(int, x); VF_INPUT(int, k); VF_INPUT(int, d); VF_INPUT(unsigned char, w); __CPROVER_assume(w <= 4); Log o = l; struct vf_Obj ob; ob.log = &l; ob.k = k; ob.data = d;
  if (w <= 2) { int r = w == 0 ? iv_memfn(&ob, x) : (w == 1 ? iv_memfn_ptr(&ob, x) : iv_memfn_ref(&ob, x));
    VF_ASSERT(logged1(&l, &o, x) && r == (w == 1 ? (x ^ k ^ 1) : (x ^ k)), "invoke(&C::f, obj / &obj / ref(obj), x): the member function is called exactly once on that object with x, result unchanged"); }
  else if (w == 3) VF_ASSERT(iv_memdata(&ob) == &ob.data && log_eq(&l, &o), "invoke(&C::m, obj) is obj.m itself");
  else VF_ASSERT(iv_memdata_ptr(&ob) == d && log_eq(&l, &o), "invoke(&C::m, &obj) delivers obj.m");
  VF_ASSERT(ob.log == &l && ob.k == k && ob.data == d, "the object is unchanged");
  VF_REACH(); }

/* ---- value categories, observed through values: Mk's move operations mark their source with v == -1, copies leave it alone.
 * get<I>(tuple&&) / get<I>(pair&&) must hand out an rvalue (initialising from it MOVES), get<I>(tuple&) an lvalue (COPIES);
 * apply and make_from_tuple forward the tuple's value category to the callee / constructor. */
/*@GROUP name=value_category props=C20,C02 kind=F unwind=3@*/
void h_value_category(void) { VF_INPUT(int, a); VF_INPUT(int, b); VF_INPUT(unsigned char, which); __CPROVER_assume(a != -1 && which < 16);
  TMk t; PMk p; mk_tuple(&t, a, b); mk_pair(&p, a, b);
  VF_ASSERT(mk_tval(&t) == a && mk_pval(&p) == a, "tuple/pair construction from an rvalue element stores its value");
  switch (which) {
  case 0: VF_ASSERT(mk_tget_rv(&t) == a && mk_tval(&t) == -1, "C20: get<0>(tuple&&) is an rvalue: initialising from it moves the element out"); break;
  case 1: VF_ASSERT(mk_tget_lv(&t) == a && mk_tval(&t) == a, "C20: get<0>(tuple&) is an lvalue: initialising from it copies"); break;
  case 2: VF_ASSERT(mk_tget_clv(&t) == a && mk_tval(&t) == a, "C20: get<0>(tuple const&) copies"); break;
  case 3: VF_ASSERT(mk_pget_rv(&p) == a && mk_pval(&p) == -1, "C20: get<0>(pair&&) is an rvalue: initialising from it moves the element out"); break;
  case 4: VF_ASSERT(mk_pget_lv(&p) == a && mk_pval(&p) == a, "C20: get<0>(pair&) is an lvalue: initialising from it copies"); break;
  case 5: VF_ASSERT(mk_apply_rv(&t) == 1, "C20: apply(f, tuple&&) passes the elements as rvalues"); break;
  case 6: VF_ASSERT(mk_apply_lv(&t) == 2, "C20: apply(f, tuple&) passes the elements as lvalues"); break;
  case 7: VF_ASSERT(mk_apply_clv(&t) == 3, "C20: apply(f, tuple const&) passes the elements as const lvalues"); break;
  case 8: VF_ASSERT(mk_from_rv(&t) == a && mk_tval(&t) == -1, "C20: make_from_tuple<T>(tuple&&) moves the elements into the constructor"); break;
  case 9: VF_ASSERT(mk_from_lv(&t) == a && mk_tval(&t) == a, "C20: make_from_tuple<T>(tuple&) copies the elements"); break;
  case 10: { TMk u; mk_tmove(&u, &t); VF_ASSERT(mk_tval(&u) == a && mk_tval(&t) == -1, "C20: tuple move construction moves each element"); } break;
  case 11: { TMk u; mk_tcopy(&u, &t); VF_ASSERT(mk_tval(&u) == a && mk_tval(&t) == a, "C20: tuple copy construction copies each element"); } break;
  case 12: { PMk q; mk_pmove(&q, &p); VF_ASSERT(mk_pval(&q) == a && mk_pval(&p) == -1, "C20: pair move construction moves each element"); } break;
  case 13: { PMk q; mk_pcopy(&q, &p); VF_ASSERT(mk_pval(&q) == a && mk_pval(&p) == a, "C20: pair copy construction copies each element"); } break;
  case 14: { PMk q; mk_pair(&q, b, a); mk_passign_rv(&q, &p); VF_ASSERT(mk_pval(&q) == a && mk_pval(&p) == -1, "C20: pair move assignment moves each element"); } break;
  default: { PMk q; mk_pair(&q, b, a); mk_passign_lv(&q, &p); VF_ASSERT(mk_pval(&q) == a && mk_pval(&p) == a, "C20: pair copy assignment copies each element"); } break;
  }
  VF_REACH(); }

/*@COMMON@*/
/* ==== value categories II: reference elements, converting operations, every call overload of the wrappers ==========================
 * Mk's move constructor / move assignment mark their source (v == MOVED afterwards); a copy leaves the source alone.  Every object
 * below is symbolic (all bytes), reference elements are bound to a live symbolic Mk (that is the whole representation invariant);
 * wrappers (bind_front_t, not_fn_t) are arbitrary representations whose target logs into the harness's Log.
 * Oracle: [pairs.pair]/6-.. (first initialised / assigned with forward<U1>(p.first)): value element of an rvalue pair -> moved from,
 * lvalue-reference element -> copied from, rvalue-reference element -> moved from; [tuple.elem] get<I>(T&&) is forward<E&&>;
 * [func.bind.partial] g(call...) == invoke(fd, bound..., call...) with fd / bound taking the value category and constness of g;
 * [func.not.fn] likewise; [refwrap.invoke] invoke(get(), forward<Args>(args)...). */
typedef struct vf_Mk Mk; typedef struct vf_Q4 Q4; typedef struct vf_TgtV TgtV; typedef struct vf_TakeMk TakeMk; typedef struct vf_CatP CatP;
typedef struct etl_pair_vf_Mk_long PMkL; typedef struct etl_pair_long_vf_Mk PLMk; typedef struct etl_pair_vf_MkR_int PRi; typedef struct etl_pair_int_vf_MkR PiR;
typedef struct etl_pair_constvf_MkR_int PCi; typedef struct etl_pair_vf_MkRR_int PXi;
typedef struct etl_tuple_vf_MkR_int TRi; typedef struct etl_tuple_constvf_MkR_int TCi; typedef struct etl_tuple_vf_MkRR_int TXi; typedef struct etl_tuple_vf_Mk_int_vf_Mk_int TMk2;
typedef struct etl_detail_bind_front_t_vf_TgtV_vf_Mk BFV; typedef struct etl_detail_bind_front_t_vf_Cat4_vf_Mk BFC; typedef struct etl_detail_bind_front_t_vf_CatA_int BFA;
typedef struct etl_detail_not_fn_t_vf_Q4 NFQ; typedef struct etl_detail_not_fn_t_vf_CatP NFP; typedef struct etl_inplace_function_int_vf_Mk_int_16_8 IFV;
#define MOVED (-1)
/* modes: 0 lvalue, 1 const lvalue, 2 rvalue, 3 const rvalue.  ARGCAT: the overload a Mk argument of that category selects in the probes
 * Cat4 / CatA / CatP (1 Mk&&, 2 Mk&, 3 Mk const&, 4 Mk const&&); FNCAT: the call operator of Q4 / TgtV that runs (1 &, 2 const&, 3 &&, 4 const&&) */
static int ARGCAT(int mode) { return mode == 0 ? 2 : (mode == 1 ? 3 : (mode == 2 ? 1 : 4)); }
#define FNCAT(mode) ((mode) + 1)
#define TMK0(t) ((t)._impl.b0._value.v)
#define TMK1(t) ((t)._impl.b1._value)
#define TREF(t) ((t)._impl.b0._value)   /* reference element: the lowered member is a pointer */
#define BOUND(w) ((w)._boundArgs._impl.b0._value)
/* inplace_function<int(int),16,8> holding a Q4 (constructed from Q4 const&, Q4&&, Q4&), inplace_function<int(int),32,8> holding a BFV */
#ifdef VF_NATIVE
static VT *VT_Q4_C, *VT_Q4_M, *VT_Q4_L, *VT_BFV_C, *VT_BFV_M;
static void vtq_init(void) { IF t; IFW u; Q4 q; BFV w; memset(&q, 0, sizeof q); memset(&w, 0, sizeof w); vt_init();
  if_from_q4(&t, &q); VT_Q4_C = t._vtable; if_from_q4_rv(&t, &q); VT_Q4_M = t._vtable; if_default(&t); if_assign_q4(&t, &q, 0); VT_Q4_L = t._vtable;
  ifw_from_bfv(&u, &w); VT_BFV_C = u._vtable; ifw_from_bfv_rv(&u, &w); VT_BFV_M = u._vtable; }
#else
#define VT_Q4_C ((VT *)&g__ZZN3etl16inplace_functionIFiiELm16ELm8EEC1IRKN2vf2Q4ES5_EEOT_E2vt)
#define VT_Q4_M ((VT *)&g__ZZN3etl16inplace_functionIFiiELm16ELm8EEC1IN2vf2Q4ES5_EEOT_E2vt)
#define VT_Q4_L ((VT *)&g__ZZN3etl16inplace_functionIFiiELm16ELm8EEC1IRN2vf2Q4ES5_EEOT_E2vt)
#define VT_BFV_C ((VT *)&g__ZZN3etl16inplace_functionIFiiELm32ELm8EEC1IRKNS_6detail12bind_front_tIN2vf4TgtVEJNS6_2MkEEEES9_EEOT_E2vt)
#define VT_BFV_M ((VT *)&g__ZZN3etl16inplace_functionIFiiELm32ELm8EEC1INS_6detail12bind_front_tIN2vf4TgtVEJNS6_2MkEEEES9_EEOT_E2vt)
#define vtq_init() ((void)0)
#endif
#define HOLDS_Q4(f) ((f)._vtable == VT_Q4_C || (f)._vtable == VT_Q4_M || (f)._vtable == VT_Q4_L)
#define Q4_OF(f) ((Q4 *)&(f)._storage)
#define HOLDS_BFV(f) ((f)._vtable == VT_BFV_C || (f)._vtable == VT_BFV_M)
#define BFV_OF(f) ((BFV *)&(f)._storage)
/* arbitrary well-formed wrapper: sel 0..2 holds a Q4 {lg, m} behind one of its three vtables, sel 3 is empty */
static void mk_ifq(IF *f, unsigned char sel, Log *lg, int m) { vtq_init(); __CPROVER_assume(sel <= 3);
#ifdef VF_NATIVE
  Q4 q; memset(&q, 0, sizeof q); q.log = lg; q.m.v = m;
  if (sel == 0) if_from_q4(f, &q); else if (sel == 1) if_from_q4_rv(f, &q); else if (sel == 2) { if_default(f); if_assign_q4(f, &q, 0); } else if_default(f);
#else
  f->_vtable = sel == 0 ? VT_Q4_C : (sel == 1 ? VT_Q4_M : (sel == 2 ? VT_Q4_L : VT_EMPTY));
  if (sel <= 2) { Q4_OF(*f)->log = lg; Q4_OF(*f)->m.v = m; }
#endif
}
/* sel 0..1 holds a BFV {target {lg, tag}, bound}, sel 2 is empty */
static void mk_ifw(IFW *f, unsigned char sel, Log *lg, int bound, int tag) { vtq_init(); __CPROVER_assume(sel <= 2);
#ifdef VF_NATIVE
  BFV w; memset(&w, 0, sizeof w); w._func.log = lg; w._func.tag.v = tag; BOUND(w).v = bound; IF e;
  if (sel == 0) ifw_from_bfv(f, &w); else if (sel == 1) ifw_from_bfv_rv(f, &w); else { if_default(&e); ifw_move(f, &e); }
#else
  f->_vtable = sel == 0 ? VT_BFV_C : (sel == 1 ? VT_BFV_M : VT_EMPTY);
  if (sel <= 1) { BFV_OF(*f)->_func.log = lg; BFV_OF(*f)->_func.tag.v = tag; BOUND(*BFV_OF(*f)).v = bound; }
#endif
}

/* ---- pair: converting copy/move construction and assignment over the element kinds value / T& (first, second) / T const& / T&& ------- */
/*@GROUP name=pair_conv_cat props=C20,C02 kind=F@*/
void h_pair_conv_cat(void) { VF_INPUT(Mk, o); VF_INPUT(unsigned char, src); VF_INPUT(unsigned char, op); VF_INPUT(PMk, sv); VF_INPUT(PRi, sr); VF_INPUT(PiR, ss); VF_INPUT(PCi, sc); VF_INPUT(PXi, sx);
  VF_INPUT(PMkL, d); VF_INPUT(PLMk, e); __CPROVER_assume(src <= 4 && op <= 3);
  sr.first = &o; ss.second = &o; sc.first = &o; sx.first = &o;   /* well-formed: the reference element is bound to a live object */
  int v0 = src == 0 ? sv.first.v : o.v; int i0 = src == 0 ? sv.second : (src == 1 ? sr.second : (src == 2 ? ss.first : (src == 3 ? sc.second : sx.second)));
  _Bool rv = op == 1 || op == 3;   /* op: 0 pair(pair<U1,U2> const&), 1 pair(pair<U1,U2>&&), 2 operator=(pair<U1,U2> const&), 3 operator=(pair<U1,U2>&&) */
  VF_KNOWN(C20_pair_conv_move_assign_ref, (src == 1 || src == 2) && op == 3);
  if (src == 0) { if (op == 0) pv_cc(&d, &sv); else if (op == 1) pv_cm(&d, &sv); else if (op == 2) pv_ca(&d, &sv); else pv_cma(&d, &sv); }
  else if (src == 1) { if (op == 0) pr_cc(&d, &sr); else if (op == 1) pr_cm(&d, &sr); else if (op == 2) pr_ca(&d, &sr); else pr_cma(&d, &sr); }
  else if (src == 2) { if (op == 0) ps_cc(&e, &ss); else if (op == 1) ps_cm(&e, &ss); else if (op == 2) ps_ca(&e, &ss); else ps_cma(&e, &ss); }
  else if (src == 3) { if (op == 0) pc_cc(&d, &sc); else if (op == 1) pc_cm(&d, &sc); else if (op == 2) pc_ca(&d, &sc); else pc_cma(&d, &sc); }
  else { if (op == 0) px_cc(&d, &sx); else if (op == 1) px_cm(&d, &sx); else if (op == 2) px_ca(&d, &sx); else px_cma(&d, &sx); }
  if (src == 2) VF_ASSERT(e.first == (long)i0 && e.second.v == v0, "pair<long,Mk> converting construction/assignment from pair<int,Mk&>: each element converted from the source's element");
  else VF_ASSERT(d.first.v == v0 && d.second == (long)i0, "pair<Mk,long> converting construction/assignment from pair<Mk|Mk&|Mk const&|Mk&&, int>: each element converted from the source's element");
  if (src == 0) VF_ASSERT(sv.first.v == (rv ? MOVED : v0) && sv.second == i0, "C20: VALUE element: forward<U1>(p.first) of an rvalue pair is an rvalue (moved from); a const pair& is copied from");
  else if (src == 4) VF_ASSERT(o.v == (rv ? MOVED : v0), "C20: RVALUE-reference element: forward<Mk&&>(p.first) of an rvalue pair is an rvalue (the referenced object is moved from); a const pair& is copied from");
  else VF_ASSERT(o.v == v0, "C20: LVALUE-reference element (Mk&, Mk const&): forward<U1>(p.first) is an lvalue whatever the category of the pair: the referenced object is copied from, never moved from");
  VF_ASSERT(sr.first == &o && ss.second == &o && sc.first == &o && sx.first == &o && sr.second == (src == 1 ? i0 : sr.second), "the source's references stay bound");
  VF_REACH(); }

/* ---- pair with a reference element: construction binds, copy/move construction rebind, assignment and swap act on the REFERENCED object */
/*@GROUP name=pair_ref_ops props=C20,C02 kind=F@*/
void h_pair_ref_ops(void) { VF_INPUT(Mk, o); VF_INPUT(Mk, o2); VF_INPUT(int, i); VF_INPUT(PRi, a); VF_INPUT(PRi, b); VF_INPUT(PCi, c); VF_INPUT(PXi, x); VF_INPUT(PMk, sv); VF_INPUT(unsigned char, w); VF_INPUT_BOOL(alias);
  __CPROVER_assume(w <= 9); Mk *ob = alias ? &o : &o2; a.first = &o; b.first = ob; c.first = &o; x.first = &o;
  int v0 = o.v, v2 = ob->v, o20 = o2.v, a2 = a.second, b2 = b.second, s0 = sv.first.v, s1 = sv.second;
  VF_KNOWN(C20_pair_move_assign_ref, w == 3);
  if (w == 0) { pri_ctor(&a, &o2, i); VF_ASSERT(a.first == &o2 && a.second == i && o2.v == o20 && o.v == v0, "pair<Mk&,int>(x, i): first IS x (bound, nothing copied), second == i"); }
  else if (w == 1 || w == 2) { if (w == 1) pri_copy(&a, &b); else pri_move(&a, &b);
    VF_ASSERT(a.first == ob && a.second == b2 && b.first == ob && b.second == b2 && ob->v == v2 && o.v == v0, "pair<Mk&,int> copy / move construction bind to the same object; the referenced object is neither copied nor moved from"); }
  else if (w == 3) { pri_move_assign(&a, &b);
    VF_ASSERT(a.first == &o && b.first == ob && a.second == b2, "pair<Mk&,int> = pair<Mk&,int>&&: references are not rebound; second assigned");
    VF_ASSERT(o.v == v2, "assignment writes THROUGH the reference: the target's referenced object takes the value of the source's");
    VF_ASSERT(ob->v == v2, "C20: first = forward<Mk&>(p.first) is an lvalue: the source's referenced object is copied from, never moved from"); }
  else if (w == 4 || w == 5) { if (w == 4) pw_ca(&a, &sv); else pw_cma(&a, &sv);
    VF_ASSERT(a.first == &o && o.v == s0 && a.second == s1, "pair<Mk&,int> = pair<Mk,int> const& / &&: assigns through the reference, element by element");
    VF_ASSERT(sv.first.v == (w == 5 ? MOVED : s0) && sv.second == s1, "C20: a VALUE element of an rvalue source is moved from, of a const lvalue source copied from"); }
  else if (w == 6) { pri_swap(&a, &b);
    VF_ASSERT(a.first == &o && b.first == ob && a.second == b2 && b.second == a2, "pair<Mk&,int>::swap: references stay bound, second exchanged");
    VF_ASSERT(o.v == v2 && ob->v == v0, "swap exchanges the values of the referenced objects (nothing is lost when both refer to the same object)"); }
  else if (w == 7) VF_ASSERT(pri_get0(&a) == &o && pri_cget0(&a) == &o && pci_get0(&c) == &o && pri_get1(&a) == &a.second && o.v == v0, "get<0>(pair<Mk&,int>&/const&), get<0>(pair<Mk const&,int>&) are the referenced object itself");
  else if (w == 8) VF_ASSERT(pxi_get_rv(&x) == v0 && o.v == MOVED, "C20: get<0>(pair<Mk&&,int>&&) is an rvalue: initialising from it moves from the referenced object");
  else VF_ASSERT(pxi_get_lv(&x) == v0 && o.v == v0, "C20: get<0>(pair<Mk&&,int>&) is an lvalue (reference collapsing): initialising from it copies");
  VF_REACH(); }

/* ---- pair<Mk,int>: forwarding constructors, make_pair, swap, get / apply / make_from_tuple in all four value categories ---------------- */
/*@GROUP name=pair_fwd props=C20,C02 kind=F@*/
void h_pair_fwd(void) { VF_INPUT(Mk, a); VF_INPUT(int, b); VF_INPUT(PMk, p); VF_INPUT(PMk, q); VF_INPUT(unsigned char, w); VF_INPUT(unsigned char, mode); VF_INPUT_BOOL(fr); VF_INPUT_BOOL(self);
  __CPROVER_assume(w <= 8 && mode <= 3); int a0 = a.v, b0 = b, p0 = p.first.v, p1 = p.second, q0 = q.first.v, q1 = q.second;
  if (w <= 4) { if (w == 0) pmk_ctor_lv(&p, &a, &b); else if (w == 1) pmk_ctor_clv(&p, &a, &b); else if (w == 2) pmk_ctor_rv(&p, &a, b); else if (w == 3) pmk_make_lv(&p, &a, &b); else pmk_make_rv(&p, &a, b);
    VF_ASSERT(p.first.v == a0 && p.second == b0 && b == b0, "pair<Mk,int>(x, y) [U1&&,U2&& and T1 const&,T2 const&], make_pair(x, y): first == x, second == y");
    VF_ASSERT(a.v == ((w == 2 || w == 4) ? MOVED : a0), "C20: forward<U1>(x): an lvalue argument is copied from (unchanged), an rvalue argument is moved from"); }
  else if (w == 5) { if (self) { pmk_swap(&p, &p, fr); VF_ASSERT(p.first.v == p0 && p.second == p1, "pair<Mk,int> self-swap keeps both elements (move-based swap restores the value)"); }
    else { pmk_swap(&p, &q, fr); VF_ASSERT(p.first.v == q0 && p.second == q1 && q.first.v == p0 && q.second == p1, "pair<Mk,int>::swap / swap(x,y): elements exchanged, no value left in the moved-from state"); } }
  else if (w == 6) VF_ASSERT(pmk_getcat(&p, mode) == ARGCAT(mode) && p.first.v == p0 && p.second == p1, "C20: get<0>(pair&) is Mk&, (pair const&) Mk const&, (pair&&) Mk&&, (pair const&&) Mk const&&; get moves nothing by itself");
  else if (w == 7) VF_ASSERT(pmk_applycat(&p, mode) == ARGCAT(mode) && p.first.v == p0 && p.second == p1, "C20: apply(f, pair) passes get<I>(forward<Pair>(p)): the element arrives with the pair's value category and constness");
  else VF_ASSERT(pmk_from(&p, mode) == p0 && p.first.v == (mode == 2 ? MOVED : p0) && p.second == p1, "C20: make_from_tuple<T>(pair): T's by-value parameter is move-constructed from a non-const rvalue pair only, copy-constructed otherwise");
  VF_REACH(); }

/* ---- tuple<Mk,int>: same sweep ------------------------------------------------------------------------------------------------------- */
/*@GROUP name=tuple_fwd props=C20,C02 kind=F@*/
void h_tuple_fwd(void) { VF_INPUT(Mk, a); VF_INPUT(int, b); VF_INPUT(TMk, p); VF_INPUT(TMk, q); VF_INPUT(unsigned char, w); VF_INPUT(unsigned char, mode); VF_INPUT_BOOL(self);
  __CPROVER_assume(w <= 8 && mode <= 3); int a0 = a.v, b0 = b, p0 = TMK0(p), p1 = TMK1(p), q0 = TMK0(q), q1 = TMK1(q);
  if (w <= 4) { if (w == 0) tmk_ctor_lv(&p, &a, &b); else if (w == 1) tmk_ctor_clv(&p, &a, &b); else if (w == 2) tmk_ctor_rv(&p, &a, b); else if (w == 3) tmk_make_lv(&p, &a, &b); else tmk_make_rv(&p, &a, b);
    VF_ASSERT(TMK0(p) == a0 && TMK1(p) == b0 && b == b0, "tuple<Mk,int>(x, y) [Args&&... and Ts const&...], make_tuple(x, y): element I == argument I");
    VF_ASSERT(a.v == ((w == 2 || w == 4) ? MOVED : a0), "C20: forward<Args>(args): an lvalue argument is copied from (unchanged), an rvalue argument is moved from"); }
  else if (w == 5) { if (self) { tmk_swap(&p, &p); VF_ASSERT(TMK0(p) == p0 && TMK1(p) == p1, "tuple<Mk,int> self-swap keeps every element"); }
    else { tmk_swap(&p, &q); VF_ASSERT(TMK0(p) == q0 && TMK1(p) == q1 && TMK0(q) == p0 && TMK1(q) == p1, "tuple<Mk,int>::swap: elements exchanged, no value left in the moved-from state"); } }
  else if (w == 6) VF_ASSERT(tmk_getcat(&p, mode) == ARGCAT(mode) && TMK0(p) == p0 && TMK1(p) == p1, "C20: get<0>(tuple&) is Mk&, (tuple const&) Mk const&, (tuple&&) Mk&&, (tuple const&&) Mk const&&; get moves nothing by itself");
  else if (w == 7) VF_ASSERT(tmk_applycat(&p, mode) == ARGCAT(mode) && TMK0(p) == p0 && TMK1(p) == p1, "C20: apply(f, tuple) passes get<I>(forward<Tuple>(t)): the element arrives with the tuple's value category and constness");
  else VF_ASSERT(tmk_from(&p, mode) == p0 && TMK0(p) == (mode == 2 ? MOVED : p0) && TMK1(p) == p1, "C20: make_from_tuple<T>(tuple): T's by-value parameter is move-constructed from a non-const rvalue tuple only, copy-constructed otherwise");
  VF_REACH(); }

/*@GROUP name=tuple_cat_fwd props=C20,C02 kind=F when=VF_TUPLE_CAT@*/
void h_tuple_cat_fwd(void) { VF_INPUT(TMk, t); VF_INPUT(TMk, u); VF_INPUT(TMk, r); VF_INPUT(TMk2, r2); VF_INPUT(unsigned char, w); VF_INPUT_BOOL(rv); __CPROVER_assume(w <= 1);
  int t0 = TMK0(t), t1 = TMK1(t), u0 = TMK0(u), u1 = TMK1(u);
  if (w == 0) { tcat_mk(&r, &t, rv ? 2 : 1);
    VF_ASSERT(TMK0(r) == t0 && TMK1(r) == t1 && TMK1(t) == t1, "tuple_cat(t) == t, element by element");
    VF_ASSERT(TMK0(t) == (rv ? MOVED : t0), "C20: tuple_cat(tuple&&) moves the elements out, tuple_cat(tuple const&) copies them"); }
  else { tcat_mk2(&r2, &t, &u, rv);
    VF_ASSERT(r2._impl.b0._value.v == t0 && r2._impl.b1._value == t1 && r2._impl.b2._value.v == u0 && r2._impl.b3._value == u1, "tuple_cat(t, u): the elements of t followed by the elements of u");
    VF_ASSERT(TMK0(t) == (rv ? MOVED : t0) && TMK0(u) == (rv ? u0 : MOVED) && TMK1(t) == t1 && TMK1(u) == u1, "C20: tuple_cat forwards EACH argument with its own value category: the rvalue tuple is moved from, the const lvalue tuple copied from"); }
  VF_REACH(); }

/* ---- tuple with reference elements, tie / forward_as_tuple round trips ----------------------------------------------------------------- */
/*@GROUP name=tuple_ref props=C20,C02 kind=F@*/
void h_tuple_ref(void) { VF_INPUT(Mk, o); VF_INPUT(Mk, o2); VF_INPUT(int, i); VF_INPUT(int, j); VF_INPUT(TRi, a); VF_INPUT(TRi, b); VF_INPUT(TCi, c); VF_INPUT(TXi, x); VF_INPUT(unsigned char, w); VF_INPUT_BOOL(alias); VF_INPUT_BOOL(rv);
  __CPROVER_assume(w <= 16); Mk *ob = alias ? &o : &o2; TREF(a) = &o; TREF(b) = ob; TREF(c) = &o; TREF(x) = &o;
  int v0 = o.v, v2 = ob->v, o20 = o2.v, a1 = TMK1(a), b1 = TMK1(b), i0 = i;
  if (w == 0) { tri_ctor(&a, &o2, i); VF_ASSERT(TREF(a) == &o2 && TMK1(a) == i && o.v == v0 && o2.v == o20, "tuple<Mk&,int>(x, i): element 0 IS x (bound, nothing copied), element 1 == i"); }
  else if (w == 1) { if (rv) tri_move(&a, &b); else tri_copy(&a, &b);
    VF_ASSERT(TREF(a) == ob && TMK1(a) == b1 && TREF(b) == ob && TMK1(b) == b1 && ob->v == v2 && o.v == v0, "tuple<Mk&,int> copy / move construction bind to the same object; the referenced object is neither copied nor moved from"); }
  else if (w == 2) { tri_swap(&a, &b);
    VF_ASSERT(TREF(a) == &o && TREF(b) == ob && TMK1(a) == b1 && TMK1(b) == a1 && o.v == v2 && ob->v == v0, "tuple<Mk&,int>::swap exchanges the values of the referenced objects; the references stay bound"); }
  else if (w == 3) VF_ASSERT(tri_get0(&a) == &o && tri_cget0(&a) == &o && tci_get0(&c) == &o && o.v == v0, "get<0>(tuple<Mk&,int>&/const&), get<0>(tuple<Mk const&,int>&) are the referenced object itself");
  else if (w == 4) VF_ASSERT((rv ? tri_init_clv(&a) : tri_init_lv(&a)) == v0 && o.v == v0, "C20: get<0>(tuple<Mk&,int>&/const&) is an lvalue: initialising from it copies");
  else if (w == 5) { int cat = tri_applycat(&a, rv);
    if (VF_KNOWN_GUARD(C20_tuple_const_get_ref, rv)) VF_ASSERT(cat == 2, "C20: apply(f, tuple<Mk&,int>&/const&): a reference element is passed as Mk& - constness of the tuple does not propagate through a reference element ([tuple.elem]: tuple_element_t<I,T> const& collapses to Mk&)");
    VF_ASSERT(tci_applycat(&c) == 3 && o.v == v0, "apply(f, tuple<Mk const&,int>&) passes Mk const&"); }
  else if (w == 6) VF_ASSERT(tri_eq(&a, &b) == (v0 == v2 && a1 == b1) && o.v == v0, "tuple<Mk&,int> == compares the referenced objects");
  else if (w == 7) VF_ASSERT(txi_get_rv(&x) == v0 && o.v == MOVED, "C20: get<0>(tuple<Mk&&,int>&&) is an rvalue: initialising from it moves from the referenced object");
  else if (w == 8) VF_ASSERT(txi_get_lv(&x) == v0 && o.v == v0, "C20: get<0>(tuple<Mk&&,int>&) is an lvalue (reference collapsing): initialising from it copies");
  else if (w == 9) VF_ASSERT(txi_applycat(&x, rv) == (rv ? 1 : 2) && o.v == v0, "C20: apply(f, tuple<Mk&&,int>&&) passes Mk&&, apply(f, tuple<Mk&&,int>&) passes Mk&");
  else if (w == 10) VF_ASSERT(txi_from_rv(&x) == v0 && o.v == MOVED, "C20: make_from_tuple<T>(tuple<Mk&&,int>&&) moves the referenced object into T's constructor");
  else if (w == 11) VF_ASSERT(tie_addr(&o, &i) == &o && tie_init(&o, &i) == ENC3(v0, i0, 0) && o.v == v0 && i == i0, "tie(a, i): get<0> is a itself; initialising from get<0>(tie&) copies");
  else if (w == 12) { tie_store(&o, &i, ob, j, rv);
    VF_ASSERT(o.v == v2 && i == j, "get<I>(tie(a, i)) = v writes through to the tied objects");
    VF_ASSERT(ob->v == ((rv && !alias) ? MOVED : v2), "C20: assigning an lvalue through a tied reference copies from it, assigning an rvalue moves from it"); }
  else if (w == 13) VF_ASSERT(fat_addr(&o) == &o && fat_addr_rv(&o) == &o && o.v == v0, "forward_as_tuple(a) / forward_as_tuple(move(a)): element 0 is a itself; forming the tuple moves nothing");
  else if (w == 14) VF_ASSERT(fat_init(&o, rv) == v0 && o.v == (rv ? MOVED : v0), "C20: get<0>(forward_as_tuple(move(a))) of an rvalue tuple is an rvalue (moved from), of the named tuple an lvalue (copied from)");
  else if (w == 15) VF_ASSERT(fat_applycat_rv(&o, i) == 1 && fat_applycat_crv(&o, i) == 4 && fat_applycat_clv(&o, &i) == 3 && o.v == v0, "C20: apply(f, forward_as_tuple(x...)) delivers each x with the category it was given: Mk&&, Mk const&&, Mk const&");
  else VF_ASSERT(fat_from_rv(&o, i) == v0 && o.v == MOVED, "C20: make_from_tuple<T>(forward_as_tuple(move(a), i)) moves a into T's constructor");
  VF_REACH(); }

/* ---- invoke / invoke_r, reference_wrapper, function_ref: category of the callable and of the arguments ---------------------------------- */
/*@GROUP name=invoke_cat props=C20,C02 kind=F when=VF_FUNCTION_REF@*/
void h_invoke_cat(void) { VF_INPUT(Log, l); VF_INPUT(Q4, f); VF_INPUT(Mk, m); VF_INPUT(int, x); VF_INPUT(unsigned char, w); VF_INPUT(unsigned char, mode); VF_INPUT(unsigned char, how); VF_INPUT_BOOL(r); __CPROVER_assume(w <= 8 && mode <= 3 && how <= 3);
  f.log = &l; TakeMk tk; tk.log = &l; Log o = l; int f0 = f.m.v, m0 = m.v;
  if (w == 0) { int res = ivq_call(&f, x, mode, how);
    VF_ASSERT(l.calls == o.calls + 1u && l.a0 == x && l.a2 == o.a2 && res == (how == 2 ? 0 : (f0 ^ x)), "invoke / invoke_r<long> / invoke_r<void>(f, x), apply(f, tuple<int>{x}): called exactly once with x, result unchanged (discarded by invoke_r<void>)");
    VF_ASSERT(l.a1 == FNCAT(mode), "C20: invoke / invoke_r / apply (forward<F>(f)) call f with the value category and constness it was passed with (&, const&, &&, const&& call operator)");
    VF_ASSERT(f.m.v == (mode == 2 ? MOVED : f0), "only the && call operator (which consumes the callable) changes f"); }
  else if (w == 1) VF_ASSERT(ivc_cat(&m, mode, r) == ARGCAT(mode) && m.v == m0, "C20: invoke / invoke_r<int>(f, a, 0) forward a: Mk& / Mk const& / Mk&& / Mk const&& reaches the matching overload; nothing is moved by forwarding");
  else if (w == 2 || w == 3 || w == 8) { int res = w == 2 ? ivv_call(&tk, &m, x, mode) : (w == 3 ? rwv_call(&tk, &m, x, mode) : ifv_roundtrip(&tk, &m, x, mode));
    VF_ASSERT(logged2(&l, &o, m0, x) && res == ENC3(m0, x, 0), "invoke(f, a, x) / ref(f)(a, x) / inplace_function<int(Mk,int)>(f)(a, x) with a by-value parameter: the target sees a's value, called exactly once");
    VF_ASSERT(m.v == (mode == 2 ? MOVED : m0), "C20: the by-value parameter is move-constructed from a non-const rvalue argument only; lvalue and const arguments are copied (unchanged)"); }
  else if (w == 4) { int res = rwq_call(&f, x, r);
    VF_ASSERT(l.calls == o.calls + 1u && l.a0 == x && res == (f0 ^ x) && f.m.v == f0, "reference_wrapper::operator(): the referenced callable is called exactly once with x, result unchanged, not consumed");
    VF_ASSERT(l.a1 == (r ? 2 : 1), "C20: ref(f)(x) calls f as a non-const lvalue, cref(f)(x) as a const lvalue"); }
  else if (w == 5) VF_ASSERT(rwc_cat(&m, mode) == ARGCAT(mode) && m.v == m0, "C20: reference_wrapper::operator() forwards its arguments (Mk& / Mk const& / Mk&& / Mk const&&)");
  else if (w == 6) { int res = frq_call(&f, x, r);
    VF_ASSERT(l.calls == o.calls + 1u && l.a0 == x && res == (f0 ^ x) && f.m.v == f0, "function_ref::operator(): the referenced callable is called exactly once with x, result unchanged, not consumed");
    VF_ASSERT(l.a1 == (r ? 2 : 1), "C20: function_ref(f) calls f as a non-const lvalue, function_ref(as_const(f)) as a const lvalue"); }
  else { __CPROVER_assume(mode <= 2); VF_ASSERT(frx_cat(&m, mode) == (mode == 0 ? 2 : (mode == 1 ? 3 : 1)) && ifx_cat(&m) == 1 && m.v == m0, "C20: function_ref<int(Mk&,int)> / <int(Mk const&,int)> / <int(Mk&&,int)> and inplace_function<int(Mk&&,int)> deliver the argument with the declared category"); }
  VF_REACH(); }

/* ---- bind_front: the four call operators, twice on the same wrapper, copy / move after a call, construction ------------------------------ */
/*@GROUP name=bind_front_cat props=C20,C02 kind=F@*/
void h_bind_front_cat(void) { VF_INPUT(Log, l); VF_INPUT(BFV, wv); VF_INPUT(BFV, cp); VF_INPUT(BFC, wc); VF_INPUT(BFA, wa); VF_INPUT(TgtV, t); VF_INPUT(Mk, m); VF_INPUT(int, x); VF_INPUT(int, y);
  VF_INPUT(unsigned char, w); VF_INPUT(unsigned char, mode); VF_INPUT(unsigned char, mode2); VF_INPUT(unsigned char, acat); VF_INPUT_BOOL(rv); __CPROVER_assume(w <= 6 && mode <= 3 && mode2 <= 3 && acat <= 3);
  wv._func.log = &l; t.log = &l; Log o = l; int b0 = BOUND(wv).v, g0 = wv._func.tag.v, c0 = BOUND(wc).v, i0 = BOUND(wa), m0 = m.v, t0 = t.tag.v;
  if (w == 0 || w == 1 || w == 2) { int res = bfv_call(&wv, x, mode);
    VF_ASSERT(logged3(&l, &o, b0, x, FNCAT(mode)) && res == ENC3(b0, x, FNCAT(mode)), "C20: bind_front(f, b)(x) [&, const&, &&, const&&]: f is called exactly once with (b, x) and with the wrapper's own value category / constness; result unchanged");
    int b1 = mode == 2 ? MOVED : b0;
    VF_ASSERT(BOUND(wv).v == b1 && wv._func.tag.v == g0 && wv._func.log == &l, "C20: the bound argument is passed as an LVALUE by the & / const& operators and as a const rvalue by const&& (the wrapper keeps its state); only && hands it out as an rvalue");
    Log o2 = l;
    if (w == 0) { int res2 = bfv_call(&wv, y, mode2);   /* second call on the same wrapper */
      VF_ASSERT(logged3(&l, &o2, b1, y, FNCAT(mode2)) && res2 == ENC3(b1, y, FNCAT(mode2)), "C20: a second call of the same wrapper sees the same bound argument (unless the first call was on an rvalue wrapper)"); }
    else { if (w == 1) bfv_copy(&cp, &wv); else bfv_move(&cp, &wv);   /* copy / move taken AFTER a call */
      VF_ASSERT(BOUND(cp).v == b1 && cp._func.tag.v == g0 && cp._func.log == &l, "a copy / move of the wrapper carries the target and the bound argument");
      VF_ASSERT(BOUND(wv).v == (w == 1 ? b1 : MOVED) && wv._func.tag.v == (w == 1 ? g0 : MOVED), "C20: copying leaves the wrapper unchanged; moving moves target and bound argument out");
      int res2 = bfv_call(&cp, y, mode2);
      VF_ASSERT(logged3(&l, &o2, b1, y, FNCAT(mode2)) && res2 == ENC3(b1, y, FNCAT(mode2)), "the copy calls an equivalent target with the same bound argument"); } }
  else if (w == 3) VF_ASSERT(bfc_call(&wc, mode) == ARGCAT(mode) && BOUND(wc).v == c0, "C20: the bound argument reaches the target as Mk& (& call), Mk const& (const&), Mk&& (&&), Mk const&& (const&&)");
  else if (w == 4) VF_ASSERT(bfa_call(&wa, &m, mode, acat) == ENC3(i0, ARGCAT(acat), 0) && m.v == m0 && BOUND(wa) == i0, "C20: the call arguments are forwarded behind the bound ones with their own category, by all four call operators");
  else if (w == 5) { bfv_make(&cp, &t, &m, rv);
    VF_ASSERT(BOUND(cp).v == m0 && cp._func.tag.v == t0 && cp._func.log == &l && log_eq(&l, &o), "bind_front(f, b) stores decayed copies of f and b and calls nothing");
    VF_ASSERT(m.v == MOVED && t.tag.v == (rv ? MOVED : t0), "C20: bind_front forwards: an rvalue f / b is moved from, an lvalue f copied from"); }
  else { bfv_ctor_lv(&cp, &t, &m);
    VF_ASSERT(BOUND(cp).v == m0 && cp._func.tag.v == t0 && cp._func.log == &l && m.v == m0 && t.tag.v == t0 && log_eq(&l, &o), "C20: bind_front_t(F&&, BA&&...) from lvalues copies both (arguments unchanged)"); }
  VF_REACH(); }

/* ---- not_fn: the four call operators with a consuming callable, twice, construction, copy / move ---------------------------------------- */
/*@GROUP name=not_fn_cat props=C20,C02 kind=F@*/
void h_not_fn_cat(void) { VF_INPUT(Log, l); VF_INPUT(NFQ, n); VF_INPUT(NFQ, cp); VF_INPUT(NFP, np); VF_INPUT(Q4, f); VF_INPUT(Mk, m); VF_INPUT(int, x); VF_INPUT(int, y);
  VF_INPUT(unsigned char, w); VF_INPUT(unsigned char, mode); VF_INPUT(unsigned char, mode2); VF_INPUT(unsigned char, acat); VF_INPUT_BOOL(rv); __CPROVER_assume(w <= 4 && mode <= 3 && mode2 <= 3 && acat <= 3);
  n.f.log = &l; np.f.log = &l; f.log = &l; Log o = l; int n0 = n.f.m.v, f0 = f.m.v, m0 = m.v;
  if (w <= 2) { _Bool res = nfq_call(&n, x, mode);
    VF_ASSERT(l.calls == o.calls + 1u && l.a0 == x && l.a2 == o.a2 && res == !((n0 ^ x) != 0), "not_fn(f)(x) [&, const&, &&, const&&]: f called exactly once with x; result == !f(x)");
    VF_ASSERT(l.a1 == FNCAT(mode), "C20: not_fn's call operators invoke f with the wrapper's own value category and constness");
    int n1 = mode == 2 ? MOVED : n0;
    VF_ASSERT(n.f.m.v == n1 && n.f.log == &l, "C20: only the && call operator passes the stored callable as an rvalue (which this callable consumes); &, const&, const&& leave it intact");
    Log o2 = l;
    if (w == 0) { _Bool res2 = nfq_call(&n, y, mode2);
      VF_ASSERT(l.calls == o2.calls + 1u && l.a0 == y && l.a1 == FNCAT(mode2) && res2 == !((n1 ^ y) != 0), "C20: a second call of the same wrapper calls the same (unconsumed) target"); }
    else { if (w == 1) nfq_copy(&cp, &n); else nfq_move(&cp, &n);
      VF_ASSERT(cp.f.m.v == n1 && cp.f.log == &l && n.f.m.v == (w == 1 ? n1 : MOVED), "C20: a copy of the wrapper carries the callable and leaves the source unchanged; a move moves it out");
      _Bool res2 = nfq_call(&cp, y, mode2);
      VF_ASSERT(l.calls == o2.calls + 1u && l.a0 == y && l.a1 == FNCAT(mode2) && res2 == !((n1 ^ y) != 0), "the copy calls an equivalent target"); } }
  else if (w == 3) { _Bool res = nfp_call(&np, &m, mode, acat);
    VF_ASSERT(l.calls == o.calls + 1u && l.a0 == m0 && l.a1 == ARGCAT(acat) && res == !(m0 != 0) && m.v == m0, "C20: not_fn forwards its arguments (Mk& / Mk const& / Mk&& / Mk const&&) in all four call operators"); }
  else { nfq_make(&cp, &f, rv);
    VF_ASSERT(cp.f.m.v == f0 && cp.f.log == &l && log_eq(&l, &o), "not_fn(f) stores a decayed copy of f and calls nothing");
    VF_ASSERT(f.m.v == (rv ? MOVED : f0), "C20: not_fn(forward<F>(f)): an lvalue f is copied from, an rvalue f moved from"); }
  VF_REACH(); }

/* ---- inplace_function holding move-marking callables ----------------------------------------------------------------------------------- */
/*@GROUP name=ipf_cat props=C20,C02,C05 kind=F@*/
void h_ipf_cat(void) { VF_INPUT(Log, l); VF_INPUT(Log, l2); VF_INPUT(IF, f); VF_INPUT(IF, g); VF_INPUT(unsigned char, sel); VF_INPUT(unsigned char, sel2); VF_INPUT(int, m0); VF_INPUT(int, g0); VF_INPUT(Q4, q); VF_INPUT(int, x); VF_INPUT(int, y);
  VF_INPUT(unsigned char, w); VF_INPUT_BOOL(rv); __CPROVER_assume(w <= 4); vtq_init(); q.log = &l; int q0 = q.m.v; Log o = l, oo2 = l2;
  if (w == 0) { if (rv) if_from_q4_rv(&f, &q); else if_from_q4(&f, &q);   /* f: indeterminate storage */
    VF_ASSERT(f._vtable == (rv ? VT_Q4_M : VT_Q4_C) && Q4_OF(f)->log == &l && Q4_OF(f)->m.v == q0 && log_eq(&l, &o), "inplace_function(callable): holds the callable's value, calls nothing");
    VF_ASSERT(q.m.v == (rv ? MOVED : q0), "C20: inplace_function(forward<T>(closure)): an lvalue closure is copied from (unchanged), an rvalue closure moved from"); }
  else if (w == 1) { mk_ifq(&f, sel, &l2, m0); if_assign_q4(&f, &q, rv);
    VF_ASSERT(HOLDS_Q4(f) && Q4_OF(f)->log == &l && Q4_OF(f)->m.v == q0 && log_eq(&l, &o) && log_eq(&l2, &oo2), "f = callable from every state: holds the callable's value, calls nothing");
    VF_ASSERT(q.m.v == (rv ? MOVED : q0), "C20: f = forward<T>(closure): an lvalue closure is copied from, an rvalue closure moved from"); }
  else { __CPROVER_assume(sel <= 2); mk_ifq(&f, sel, &l, m0);
    if (w == 2) { int r = if_call(&f, x);
      VF_ASSERT(l.calls == o.calls + 1u && l.a0 == x && l.a2 == o.a2 && r == (m0 ^ x), "operator()(x): the stored callable is called exactly once with x, result unchanged");
      VF_ASSERT(l.a1 == 1 && HOLDS_Q4(f) && Q4_OF(f)->m.v == m0, "C20: the stored callable is called as a non-const LVALUE: it is not consumed by the call");
      Log o2 = l; int r2 = if_call(&f, y); VF_ASSERT(l.calls == o2.calls + 1u && l.a0 == y && l.a1 == 1 && r2 == (m0 ^ y), "a second call sees the same callable"); }
    else { if (w == 3) { if (rv) if_move(&g, &f); else if_copy(&g, &f); } else { mk_ifq(&g, sel2, &l2, g0); if (rv) if_move_assign(&g, &f); else if_assign(&g, &f); }
      VF_ASSERT(HOLDS_Q4(g) && Q4_OF(g)->log == &l && Q4_OF(g)->m.v == m0 && log_eq(&l, &o) && log_eq(&l2, &oo2), "copy / move construction and assignment: the target holds the source's callable with its value; nothing is called");
      if (rv) VF_ASSERT(f._vtable == VT_EMPTY, "move leaves the source empty"); else VF_ASSERT(HOLDS_Q4(f) && Q4_OF(f)->m.v == m0 && Q4_OF(f)->log == &l, "C20: copy leaves the source's callable unchanged (copied from, not moved from)");
      int r = if_call(&g, x); VF_ASSERT(l.calls == o.calls + 1u && l.a0 == x && l.a1 == 1 && r == (m0 ^ x), "the copy calls an equivalent target"); } }
  VF_REACH(); }

/*@GROUP name=ipf_bind_front props=C20,C02,C05 kind=F@*/
void h_ipf_bind_front(void) { VF_INPUT(Log, l); VF_INPUT(Log, l2); VF_INPUT(IFW, f); VF_INPUT(IFW, g); VF_INPUT(BFV, wv); VF_INPUT(unsigned char, sel); VF_INPUT(unsigned char, sel2); VF_INPUT(int, b0); VF_INPUT(int, t0); VF_INPUT(int, b2); VF_INPUT(int, t2);
  VF_INPUT(int, x); VF_INPUT(int, y); VF_INPUT(unsigned char, w); VF_INPUT_BOOL(rv); __CPROVER_assume(w <= 3); vtq_init(); wv._func.log = &l; int wb = BOUND(wv).v, wt = wv._func.tag.v; Log o = l, oo2 = l2;
  if (w == 0) { if (rv) ifw_from_bfv_rv(&f, &wv); else ifw_from_bfv(&f, &wv);
    VF_ASSERT(f._vtable == (rv ? VT_BFV_M : VT_BFV_C) && BOUND(*BFV_OF(f)).v == wb && BFV_OF(f)->_func.tag.v == wt && BFV_OF(f)->_func.log == &l && log_eq(&l, &o), "inplace_function(bind_front wrapper): holds the wrapper's value, calls nothing");
    VF_ASSERT(BOUND(wv).v == (rv ? MOVED : wb) && wv._func.tag.v == (rv ? MOVED : wt), "C20: an lvalue wrapper is copied from (unchanged), an rvalue wrapper moved from"); }
  else { __CPROVER_assume(sel <= 1); mk_ifw(&f, sel, &l, b0, t0);
    if (w == 1) { int r = ifw_call(&f, x);
      VF_ASSERT(logged3(&l, &o, b0, x, 1) && r == ENC3(b0, x, 1), "inplace_function holding bind_front(f, b): f is called exactly once with (b, x), through the wrapper's LVALUE call operator");
      VF_ASSERT(HOLDS_BFV(f) && BOUND(*BFV_OF(f)).v == b0 && BFV_OF(f)->_func.tag.v == t0, "C20: the call does not consume the stored wrapper's bound argument");
      Log o2 = l; int r2 = ifw_call(&f, y); VF_ASSERT(logged3(&l, &o2, b0, y, 1) && r2 == ENC3(b0, y, 1), "C20: a second call through the inplace_function sees the same bound argument"); }
    else { if (w == 2) { int r = ifw_call(&f, x); VF_ASSERT(r == ENC3(b0, x, 1), "first call"); if (rv) ifw_move_w(&g, &f); else ifw_copy_w(&g, &f); }
      else { mk_ifw(&g, sel2, &l2, b2, t2); ifw_assign_w(&g, &f, rv); }
      VF_ASSERT(HOLDS_BFV(g) && BOUND(*BFV_OF(g)).v == b0 && BFV_OF(g)->_func.tag.v == t0 && BFV_OF(g)->_func.log == &l && log_eq(&l2, &oo2), "C20: a copy / move taken (after a call) holds the wrapper with the original bound argument");
      if (rv) VF_ASSERT(f._vtable == VT_EMPTY && !ifw_bool(&f), "move leaves the source empty"); else VF_ASSERT(HOLDS_BFV(f) && BOUND(*BFV_OF(f)).v == b0 && BFV_OF(f)->_func.tag.v == t0, "copy leaves the source unchanged");
      Log o2 = l; int r2 = ifw_call(&g, y); VF_ASSERT(logged3(&l, &o2, b0, y, 1) && r2 == ENC3(b0, y, 1), "the copy calls an equivalent target with the same bound argument"); } }
  VF_REACH(); }
