/* tuplefn: C20 */
struct vf_Log vf_glog;
struct vf_Log *_ZN2vf5g_logEv(void) { return &vf_glog; }
#include "vf_handler.h"

/*@GROUP name=probe props=C20,C02 kind=F@*/
void h_probe(void) { VF_INPUT(int, x); VF_ASSERT(nf_stateless(x) == !((x ^ 0x55) != 0), "probe"); VF_REACH(); }
