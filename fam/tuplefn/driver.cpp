// driver: pair, tuple and callable wrappers (C20; C05 for the empty inplace_function; C02 rides along)
// The callables are functors defined here whose bodies log into a vf::Log supplied by the harness (call count, argument values).
#include <etl/utility.hpp>
#include <etl/tuple.hpp>
#include <etl/functional.hpp>
#include <etl/new.hpp>
#define VF_E extern "C"
#ifndef VF_TUPLE_CAT
#define VF_TUPLE_CAT 0
#endif
#ifndef VF_FUNCTION_REF
#define VF_FUNCTION_REF 0
#endif
#ifndef VF_MEMPTR
#define VF_MEMPTR 0 /* cxx2c: "UNSUPPORTED: member pointer type" */
#endif
namespace vf {

// ---- pair<T1,T2>; Q = pair<W1,W2> is the target of the converting constructors / assignments (value preserving widenings) ----
#define VF_PAIR(S, T1, T2, W1, W2)                                                                                   \
  using P##S = etl::pair<T1, T2>; using Q##S = etl::pair<W1, W2>;                                                    \
  VF_E void p##S##_default(P##S* out) { new (out) P##S(); }                                                          \
  VF_E void p##S##_ctor_val(P##S* out, T1 const& a, T2 const& b) { new (out) P##S(a, b); }                           \
  VF_E void p##S##_ctor_fwd(P##S* out, T1 a, T2 b) { new (out) P##S(etl::move(a), etl::move(b)); }                   \
  VF_E void p##S##_ctor_conv(P##S* out, short a, signed char b) { new (out) P##S(a, b); }                            \
  VF_E void p##S##_copy(P##S* out, P##S const& o) { new (out) P##S(o); }                                             \
  VF_E void p##S##_move(P##S* out, P##S& o) { new (out) P##S(etl::move(o)); }                                        \
  VF_E void p##S##_make(P##S* out, T1 a, T2 b) { new (out) P##S(etl::make_pair(a, b)); }                             \
  VF_E void p##S##_conv_copy(Q##S* out, P##S const& o) { new (out) Q##S(o); }                                        \
  VF_E void p##S##_conv_move(Q##S* out, P##S& o) { new (out) Q##S(etl::move(o)); }                                   \
  VF_E void p##S##_assign(P##S& a, P##S const& b) { a = b; }                                                         \
  VF_E void p##S##_move_assign(P##S& a, P##S& b) { a = etl::move(b); }                                               \
  VF_E void p##S##_conv_assign(Q##S& a, P##S const& b) { a = b; }                                                    \
  VF_E void p##S##_conv_move_assign(Q##S& a, P##S& b) { a = etl::move(b); }                                          \
  VF_E void p##S##_swap(P##S& a, P##S& b) { a.swap(b); }                                                             \
  VF_E void p##S##_swap_free(P##S& a, P##S& b) { using etl::swap; swap(a, b); }                                      \
  VF_E T1* p##S##_get0(P##S& p) { return &etl::get<0>(p); }                                                          \
  VF_E T2* p##S##_get1(P##S& p) { return &etl::get<1>(p); }                                                          \
  VF_E T1 const* p##S##_cget0(P##S const& p) { return &etl::get<0>(p); }                                             \
  VF_E T2 const* p##S##_cget1(P##S const& p) { return &etl::get<1>(p); }                                             \
  VF_E T1 p##S##_rget0(P##S& p) { return etl::get<0>(etl::move(p)); }                                                \
  VF_E T2 p##S##_rget1(P##S& p) { return etl::get<1>(etl::move(p)); }                                                \
  VF_E bool p##S##_eq(P##S const& a, P##S const& b) { return a == b; }                                               \
  VF_E bool p##S##_ne(P##S const& a, P##S const& b) { return a != b; }                                               \
  VF_E bool p##S##_lt(P##S const& a, P##S const& b) { return a < b; }                                                \
  VF_E bool p##S##_le(P##S const& a, P##S const& b) { return a <= b; }                                               \
  VF_E bool p##S##_gt(P##S const& a, P##S const& b) { return a > b; }                                                \
  VF_E bool p##S##_ge(P##S const& a, P##S const& b) { return a >= b; }
VF_PAIR(ii, int, int, long, long)
VF_PAIR(ic, int, char, long, int)
VF_E int pic_sb(Pic const& p, char* c) { auto [a, b] = p; *c = b; return a; }

// ---- ghost log + callables ------------------------------------------------------------------------------------------
struct Log { unsigned calls; int a0; int a1; int a2; };
Log* g_log();   // EXTERNAL ghost hook: the log used by the free functions with a fixed signature (defined in harness.c)
inline auto enc3(int a, int b, int c) -> int { return static_cast<int>(static_cast<unsigned>(a) ^ (static_cast<unsigned>(b) << 11U) ^ (static_cast<unsigned>(c) << 22U)); }
struct Fun { Log* log; int k; auto operator()(int x) const -> int { ++log->calls; log->a0 = x; return x ^ k; } };
struct Enc2 { Log* log; auto operator()(int a, char b) const -> int { ++log->calls; log->a0 = a; log->a1 = b; return enc3(a, b, 0); } };
struct Enc3 { Log* log; auto operator()(int a, int b, int c) const -> int { ++log->calls; log->a0 = a; log->a1 = b; log->a2 = c; return enc3(a, b, c); } };
inline auto free2(Log& l, int x, int y) -> int { ++l.calls; l.a0 = x; l.a1 = y; return enc3(x, y, 0); }
inline auto free1(int x) -> int { Log* l = g_log(); ++l->calls; l->a0 = x; return x ^ 0x55; }

// ---- tuple<int,char>, tuple<int,int,int> ----------------------------------------------------------------------------
using Tic = etl::tuple<int, char>;
using T3 = etl::tuple<int, int, int>;
VF_E void tic_default(Tic* out) { new (out) Tic(); }
VF_E void tic_ctor_val(Tic* out, int const& a, char const& b) { new (out) Tic(a, b); }
VF_E void tic_ctor_fwd(Tic* out, int a, char b) { new (out) Tic(etl::move(a), etl::move(b)); }
VF_E void tic_ctor_conv(Tic* out, short a, char b) { new (out) Tic(a, b); }
VF_E void tic_copy(Tic* out, Tic const& o) { new (out) Tic(o); }
VF_E void tic_move(Tic* out, Tic& o) { new (out) Tic(etl::move(o)); }
VF_E void tic_make(Tic* out, int a, char b) { new (out) Tic(etl::make_tuple(a, b)); }
VF_E int* tic_get0(Tic& t) { return &etl::get<0>(t); }
VF_E char* tic_get1(Tic& t) { return &etl::get<1>(t); }
VF_E int const* tic_cget0(Tic const& t) { return &etl::get<0>(t); }
VF_E char const* tic_cget1(Tic const& t) { return &etl::get<1>(t); }
VF_E int tic_rget0(Tic& t) { return etl::get<0>(etl::move(t)); }
VF_E char tic_rget1(Tic& t) { return etl::get<1>(etl::move(t)); }
VF_E void tic_swap(Tic& a, Tic& b) { a.swap(b); }
VF_E bool tic_eq(Tic const& a, Tic const& b) { return a == b; }
VF_E bool tic_ne(Tic const& a, Tic const& b) { return a != b; }

VF_E void t3_default(T3* out) { new (out) T3(); }
VF_E void t3_ctor_val(T3* out, int const& a, int const& b, int const& c) { new (out) T3(a, b, c); }
VF_E void t3_ctor_fwd(T3* out, int a, int b, int c) { new (out) T3(etl::move(a), etl::move(b), etl::move(c)); }
VF_E void t3_copy(T3* out, T3 const& o) { new (out) T3(o); }
VF_E void t3_move(T3* out, T3& o) { new (out) T3(etl::move(o)); }
VF_E void t3_make(T3* out, int a, int b, int c) { new (out) T3(etl::make_tuple(a, b, c)); }
VF_E int* t3_get0(T3& t) { return &etl::get<0>(t); }
VF_E int* t3_get1(T3& t) { return &etl::get<1>(t); }
VF_E int* t3_get2(T3& t) { return &etl::get<2>(t); }
VF_E int const* t3_cget0(T3 const& t) { return &etl::get<0>(t); }
VF_E int const* t3_cget1(T3 const& t) { return &etl::get<1>(t); }
VF_E int const* t3_cget2(T3 const& t) { return &etl::get<2>(t); }
VF_E int t3_rget2(T3& t) { return etl::get<2>(etl::move(t)); }
VF_E void t3_swap(T3& a, T3& b) { a.swap(b); }
VF_E bool t3_eq(T3 const& a, T3 const& b) { return a == b; }
VF_E bool t3_ne(T3 const& a, T3 const& b) { return a != b; }

// apply / make_from_tuple / tuple_cat / tie / forward_as_tuple
VF_E int t3_apply(Log& l, T3 const& t) { return etl::apply(Enc3{&l}, t); }
VF_E int tic_apply(Log& l, Tic const& t) { return etl::apply(Enc2{&l}, t); }
VF_E int pic_apply(Log& l, Pic const& p) { return etl::apply(Enc2{&l}, p); }
VF_E void t3_apply_mut(T3& t) { etl::apply([](int& a, int& b, int& c) -> void { int const x = a; a = c; c = b; b = x; }, t); }
struct S3 { int a; int b; int c; S3(int x, int y, int z) : a(x), b(y), c(z) { } };
VF_E void t3_make_from(S3* out, T3 const& t) { new (out) S3(etl::make_from_tuple<S3>(t)); }
VF_E void tic_make_from(Pic* out, Tic const& t) { new (out) Pic(etl::make_from_tuple<Pic>(t)); }
VF_E void pic_make_from(Tic* out, Pic const& p) { new (out) Tic(etl::make_from_tuple<Tic>(p)); }
#if VF_TUPLE_CAT /* clang-14 (the lowering front end) rejects tuple_cat.hpp:32 `etl::tuple{get<Is>(...)...}`: "ambiguous deduction for template arguments of tuple" */
using T5 = etl::tuple<int, char, int, int, int>;
using T8 = etl::tuple<int, int, int, int, char, int, int, int>;
using T4 = etl::tuple<int, int, int, char>;
VF_E void t_cat1(Tic* out, Tic const& a) { new (out) Tic(etl::tuple_cat(a)); }
VF_E void t_cat2(T5* out, Tic const& a, T3 const& b) { new (out) T5(etl::tuple_cat(a, b)); }
VF_E void t_cat3(T8* out, T3 const& a, Tic const& b, T3 const& c) { new (out) T8(etl::tuple_cat(a, b, c)); }
VF_E void t_cat_pair(T4* out, Pii const& a, Tic const& b) { new (out) T4(etl::tuple_cat(a, b)); }
#endif
VF_E void t_tie_store(int& a, char& b, int x, char y) { auto t = etl::tie(a, b); etl::get<0>(t) = x; etl::get<1>(t) = y; }
VF_E bool t_tie_eq(int& a, char& b, int& c, char& d) { return etl::tie(a, b) == etl::tie(c, d); }
VF_E int const* t_fat_addr0(int const& a, char b) { return &etl::get<0>(etl::forward_as_tuple(a, etl::move(b))); }
VF_E int t_fat_apply(Log& l, int a, int b, int c) { return etl::apply(Enc3{&l}, etl::forward_as_tuple(etl::move(a), etl::move(b), etl::move(c))); }

// ---- invoke / invoke_r ----------------------------------------------------------------------------------------------
VF_E int iv_free(Log& l, int x, int y) { return etl::invoke(free2, l, x, y); }
VF_E int iv_fptr(Log& l, int x, int y) { return etl::invoke(&free2, l, x, y); }
VF_E int iv_fun(Fun& f, int x) { return etl::invoke(f, x); }
VF_E int iv_cfun(Fun const& f, int x) { return etl::invoke(f, x); }
VF_E int iv_rfun(Log& l, int k, int x) { return etl::invoke(Fun{&l, k}, x); }
VF_E int iv_lambda(Log& l, int k, int x) { auto lam = [&l, k](int v) -> int { ++l.calls; l.a0 = v; return v ^ k; }; return etl::invoke(lam, x); }
VF_E long ivr_long(Fun& f, int x) { return etl::invoke_r<long>(f, x); }
VF_E void ivr_void(Fun& f, int x) { etl::invoke_r<void>(f, x); }
#if VF_MEMPTR
struct Obj { Log* log; int k; int data;
    auto mf(int x) -> int { ++log->calls; log->a0 = x; return x ^ k; }
    auto mfc(int x) const -> int { ++log->calls; log->a0 = x; return x ^ k ^ 1; } };
VF_E int iv_memfn(Obj& o, int x) { return etl::invoke(&Obj::mf, o, x); }
VF_E int iv_memfn_ptr(Obj& o, int x) { return etl::invoke(&Obj::mfc, &o, x); }
VF_E int iv_memfn_ref(Obj& o, int x) { return etl::invoke(&Obj::mf, etl::ref(o), x); }
VF_E int* iv_memdata(Obj& o) { return &etl::invoke(&Obj::data, o); }
VF_E int iv_memdata_ptr(Obj* o) { return etl::invoke(&Obj::data, o); }
#endif

// ---- reference_wrapper ----------------------------------------------------------------------------------------------
using RW = etl::reference_wrapper<int>;
VF_E void rw_ctor(RW* out, int& a) { new (out) RW(a); }
VF_E void rw_ref(RW* out, int& a) { new (out) RW(etl::ref(a)); }
VF_E void rw_ref_rw(RW* out, RW const& r) { new (out) RW(etl::ref(r)); }
VF_E void rw_copy(RW* out, RW const& r) { new (out) RW(r); }
VF_E void rw_assign(RW& a, RW const& b) { a = b; }
VF_E int* rw_get(RW const& r) { return &r.get(); }
VF_E int* rw_conv(RW const& r) { int& x = r; return &x; }
VF_E int const* rw_cref(int const& a) { return &etl::cref(a).get(); }
VF_E int rwf_call(Fun& f, int x) { return etl::ref(f)(x); }
VF_E int rwf_call_c(Fun const& f, int x) { return etl::cref(f)(x); }
VF_E int rwf_invoke(Fun& f, int x) { return etl::invoke(etl::ref(f), x); }

#if VF_FUNCTION_REF /* function_ref.hpp:31 `+[](void*, Args...)`: cxx2c emits unary plus on a function pointer, goto-cc: "operator 'unary+' not defined for type 'signed int (*)(void *, signed int)'" */
// ---- function_ref<int(int)> -----------------------------------------------------------------------------------------
// cxx2c: "UNSUPPORTED: expr kind CXXInheritedCtorInitExpr" for etl::function_ref<int(int)> (it only inherits the constructors of its base):
// the driver instantiates the base detail::function_ref<false, int(int)>, which holds the whole implementation.
using FR = etl::detail::function_ref<false, int(int)>;
static_assert(sizeof(FR) == sizeof(etl::function_ref<int(int)>) && etl::is_base_of_v<FR, etl::function_ref<int(int)>>);
VF_E void fr_from_fun(FR* out, Fun& f) { new (out) FR(f); }
VF_E void fr_from_cfun(FR* out, Fun const& f) { new (out) FR(f); }
VF_E void fr_from_free(FR* out) { new (out) FR(free1); }
VF_E void fr_copy(FR* out, FR const& o) { new (out) FR(o); }
VF_E void fr_assign(FR& a, FR const& b) { a = b; }
VF_E int fr_call(FR const& r, int x) { return r(x); }

#endif

// ---- bind_front / not_fn --------------------------------------------------------------------------------------------
VF_E int bf_call(Log& l, int a, int b, int a2, int x, int mode) {
    Enc3 f{&l}; auto bnd = etl::bind_front(f, etl::move(a), etl::move(b)); a = a2; /* bound by value: the later change of a must not be seen */
    if (mode == 0) { return bnd(x); }
    if (mode == 1) { return etl::as_const(bnd)(x); }
    return etl::move(bnd)(x); }
VF_E int bf_ref(Log& l, int a, int a2, int b, int x) { Enc3 f{&l}; auto bnd = etl::bind_front(f, etl::ref(a), etl::move(b)); a = a2; return bnd(x); }
VF_E int bf_all(Log& l, int a, int b, int c) { Enc3 f{&l}; auto bnd = etl::bind_front(f, etl::move(a), etl::move(b), etl::move(c)); return bnd(); }
VF_E bool nf_call(Fun const& f, int x, int mode) {
    auto n = etl::not_fn(f);
    if (mode == 0) { return n(x); }
    if (mode == 1) { return etl::as_const(n)(x); }
    return etl::move(n)(x); }
#if defined(__SANITIZE_ADDRESS__)
// g++ -fsanitize=undefined implies -fno-delete-null-pointer-checks; `static_assert(ConstFn != nullptr)` (not_fn.hpp:95) is then rejected as
// "not a constant expression". Only the sanitized native replay build takes this branch (run-time form of the same wrapper).
VF_E bool nf_stateless(int x) { return etl::not_fn(&free1)(x); }
#else
VF_E bool nf_stateless(int x) { return etl::not_fn<&free1>()(x); }
#endif

// ---- inplace_function<int(int), 16, 8> ------------------------------------------------------------------------------
// Cnt: stateful (n counts its own calls) and logging; Sml: small pure callable of another type
struct Cnt { Log* log; int k; unsigned n; auto operator()(int x) -> int { ++n; ++log->calls; log->a0 = x; return x ^ k ^ static_cast<int>(n); } };
struct Sml { int k; auto operator()(int x) const -> int { return static_cast<int>(static_cast<unsigned>(x) + static_cast<unsigned>(k)); } };
using IF = etl::inplace_function<int(int), 16, 8>;
using IFW = etl::inplace_function<int(int), 32, 8>;
static_assert(sizeof(IF) == 24 && sizeof(IFW) == 40 && sizeof(Cnt) == 16);
VF_E void if_default(IF* out) { new (out) IF; }
VF_E void if_nullptr(IF* out) { new (out) IF(nullptr); }
VF_E void if_from_cnt(IF* out, Cnt const& f) { new (out) IF(f); }
VF_E void if_from_cnt_rv(IF* out, Cnt& f) { new (out) IF(etl::move(f)); }
VF_E void if_from_sml(IF* out, Sml const& f) { new (out) IF(f); }
VF_E void if_copy(IF* out, IF const& o) { new (out) IF(o); }
VF_E void if_move(IF* out, IF& o) { new (out) IF(etl::move(o)); }
VF_E void if_assign(IF& a, IF const& b) { a = b; }
VF_E void if_move_assign(IF& a, IF& b) { a = etl::move(b); }
VF_E void if_assign_null(IF& a) { a = nullptr; }
VF_E void if_assign_cnt(IF& a, Cnt const& f) { a = f; }
VF_E void if_assign_sml(IF& a, Sml const& f) { a = f; }
VF_E void if_swap(IF& a, IF& b) { a.swap(b); }
VF_E void if_swap_free(IF& a, IF& b) { swap(a, b); }
VF_E bool if_bool(IF const& a) { return static_cast<bool>(a); }
VF_E bool if_eq_null(IF const& a) { return a == nullptr; }
VF_E bool if_null_eq(IF const& a) { return nullptr == a; }
VF_E bool if_ne_null(IF const& a) { return a != nullptr; }
VF_E bool if_null_ne(IF const& a) { return nullptr != a; }
VF_E int if_call(IF const& a, int x) { return a(x); }
VF_E void ifw_copy(IFW* out, IF const& o) { new (out) IFW(o); }
VF_E void ifw_move(IFW* out, IF& o) { new (out) IFW(etl::move(o)); }
VF_E int ifw_call(IFW const& a, int x) { return a(x); }
VF_E bool ifw_bool(IFW const& a) { return static_cast<bool>(a); }

// ---- value categories made observable: Mk's move constructor / assignment mark the source (v = -1), a copy does not ----------
struct Mk {
    int v;
    constexpr Mk() noexcept : v(0) { }
    constexpr explicit Mk(int x) noexcept : v(x) { }
    constexpr Mk(Mk const& o) noexcept : v(o.v) { }
    constexpr Mk(Mk&& o) noexcept : v(o.v) { o.v = -1; }
    constexpr auto operator=(Mk const& o) noexcept -> Mk& { v = o.v; return *this; }
    constexpr auto operator=(Mk&& o) noexcept -> Mk& { v = o.v; if (this != &o) { o.v = -1; } return *this; }
};
struct Cat3 { auto operator()(Mk&&, int) const -> int { return 1; } auto operator()(Mk&, int) const -> int { return 2; } auto operator()(Mk const&, int) const -> int { return 3; } };
struct FromMk { Mk m; int i; FromMk(Mk mm, int ii) : m(etl::move(mm)), i(ii) { } };
using TMk = etl::tuple<Mk, int>; using PMk = etl::pair<Mk, int>;
VF_E void mk_tuple(TMk* out, int a, int b) { new (out) TMk(Mk{a}, b); }
VF_E void mk_pair(PMk* out, int a, int b) { new (out) PMk(Mk{a}, b); }
VF_E int mk_tval(TMk const& t) { return etl::get<0>(t).v; }
VF_E int mk_pval(PMk const& p) { return p.first.v; }
VF_E int mk_tget_rv(TMk& t) { Mk m(etl::get<0>(etl::move(t))); return m.v; }
VF_E int mk_tget_lv(TMk& t) { Mk m(etl::get<0>(t)); return m.v; }
VF_E int mk_tget_clv(TMk const& t) { Mk m(etl::get<0>(t)); return m.v; }
VF_E int mk_pget_rv(PMk& p) { Mk m(etl::get<0>(etl::move(p))); return m.v; }
VF_E int mk_pget_lv(PMk& p) { Mk m(etl::get<0>(p)); return m.v; }
VF_E int mk_apply_rv(TMk& t) { return etl::apply(Cat3{}, etl::move(t)); }
VF_E int mk_apply_lv(TMk& t) { return etl::apply(Cat3{}, t); }
VF_E int mk_apply_clv(TMk const& t) { return etl::apply(Cat3{}, t); }
VF_E int mk_from_rv(TMk& t) { auto r = etl::make_from_tuple<FromMk>(etl::move(t)); return r.m.v; }
VF_E int mk_from_lv(TMk& t) { auto r = etl::make_from_tuple<FromMk>(t); return r.m.v; }
VF_E void mk_tmove(TMk* out, TMk& o) { new (out) TMk(etl::move(o)); }
VF_E void mk_tcopy(TMk* out, TMk const& o) { new (out) TMk(o); }
VF_E void mk_pmove(PMk* out, PMk& o) { new (out) PMk(etl::move(o)); }
VF_E void mk_pcopy(PMk* out, PMk const& o) { new (out) PMk(o); }
VF_E void mk_passign_rv(PMk& a, PMk& b) { a = etl::move(b); }
VF_E void mk_passign_lv(PMk& a, PMk const& b) { a = b; }

// ---- value categories II: reference elements, converting constructors / assignments, every call overload of the wrappers -----------
// Oracle: [pairs.pair] (forward<U1>(p.first): an lvalue-reference element is COPIED from, a value / rvalue-reference element MOVED from),
// [tuple.elem] [tuple.creation] [tuple.apply], [func.require] INVOKE with the value category of the wrapper applied to target and bound state
// ([func.bind.partial] [func.not.fn] [refwrap.invoke]).  Mk's move operations mark their source (v = -1).
inline auto operator==(Mk const& a, Mk const& b) -> bool { return a.v == b.v; }
using PMkL = etl::pair<Mk, long>; using PLMk = etl::pair<long, Mk>;   // value targets of the converting operations
using PRi = etl::pair<Mk&, int>; using PiR = etl::pair<int, Mk&>; using PCi = etl::pair<Mk const&, int>; using PXi = etl::pair<Mk&&, int>;
#define VF_PCTOR(N, S, D)                                                                                                   \
  VF_E void N##_cc(D* out, S const& s) { new (out) D(s); }                                                                  \
  VF_E void N##_cm(D* out, S& s) { new (out) D(etl::move(s)); }
#define VF_PASSIGN(N, S, D)                                                                                                 \
  VF_E void N##_ca(D& d, S const& s) { d = s; }                                                                             \
  VF_E void N##_cma(D& d, S& s) { d = etl::move(s); }
VF_PCTOR(pv, PMk, PMkL) VF_PASSIGN(pv, PMk, PMkL)   // value element
VF_PCTOR(pr, PRi, PMkL) VF_PASSIGN(pr, PRi, PMkL)   // lvalue-reference element (first)
VF_PCTOR(ps, PiR, PLMk) VF_PASSIGN(ps, PiR, PLMk)   // lvalue-reference element (second)
VF_PCTOR(pc, PCi, PMkL) VF_PASSIGN(pc, PCi, PMkL)   // const-reference element
VF_PCTOR(px, PXi, PMkL) VF_PASSIGN(px, PXi, PMkL)   // rvalue-reference element
VF_PASSIGN(pw, PMk, PRi)                            // value source, reference TARGET: assignment writes through the reference
VF_E void pri_ctor(PRi* out, Mk& a, int b) { new (out) PRi(a, b); }
VF_E void pri_copy(PRi* out, PRi const& o) { new (out) PRi(o); }
VF_E void pri_move(PRi* out, PRi& o) { new (out) PRi(etl::move(o)); }
VF_E void pri_move_assign(PRi& a, PRi& b) { a = etl::move(b); }
VF_E void pri_swap(PRi& a, PRi& b) { a.swap(b); }
VF_E Mk* pri_get0(PRi& p) { return &etl::get<0>(p); }
VF_E Mk* pri_cget0(PRi const& p) { return &etl::get<0>(p); }
VF_E Mk const* pci_get0(PCi& p) { return &etl::get<0>(p); }
VF_E int* pri_get1(PRi& p) { return &etl::get<1>(p); }
VF_E int pxi_get_rv(PXi& p) { Mk m(etl::get<0>(etl::move(p))); return m.v; }
VF_E int pxi_get_lv(PXi& p) { Mk m(etl::get<0>(p)); return m.v; }
VF_E void pmk_ctor_lv(PMk* out, Mk& a, int& b) { new (out) PMk(a, b); }
VF_E void pmk_ctor_clv(PMk* out, Mk const& a, int const& b) { new (out) PMk(a, b); }
VF_E void pmk_ctor_rv(PMk* out, Mk& a, int b) { new (out) PMk(etl::move(a), etl::move(b)); }
VF_E void pmk_make_lv(PMk* out, Mk& a, int& b) { new (out) PMk(etl::make_pair(a, b)); }
VF_E void pmk_make_rv(PMk* out, Mk& a, int b) { new (out) PMk(etl::make_pair(etl::move(a), etl::move(b))); }
VF_E void pmk_swap(PMk& a, PMk& b, bool fr) { if (fr) { using etl::swap; swap(a, b); } else { a.swap(b); } }

// which overload a Mk argument selects: 1 Mk&&, 2 Mk&, 3 Mk const&, 4 Mk const&&
struct Cat4 {
    auto operator()(Mk&&, int) const -> int { return 1; } auto operator()(Mk&, int) const -> int { return 2; }
    auto operator()(Mk const&, int) const -> int { return 3; } auto operator()(Mk const&&, int) const -> int { return 4; } };
// mode: 0 lvalue, 1 const lvalue, 2 rvalue, 3 const rvalue
#define VF_CAT_OF(EXPR_OF, x, mode) ((mode) == 0 ? Cat4{}(EXPR_OF(x), 0) : (mode) == 1 ? Cat4{}(EXPR_OF(etl::as_const(x)), 0) : (mode) == 2 ? Cat4{}(EXPR_OF(etl::move(x)), 0) : Cat4{}(EXPR_OF(etl::move(etl::as_const(x))), 0))
VF_E int pmk_getcat(PMk& p, int mode) { return VF_CAT_OF(etl::get<0>, p, mode); }
VF_E int tmk_getcat(TMk& t, int mode) { return VF_CAT_OF(etl::get<0>, t, mode); }
VF_E int tmk_applycat(TMk& t, int mode) {
    if (mode == 0) { return etl::apply(Cat4{}, t); } if (mode == 1) { return etl::apply(Cat4{}, etl::as_const(t)); }
    if (mode == 2) { return etl::apply(Cat4{}, etl::move(t)); } return etl::apply(Cat4{}, etl::move(etl::as_const(t))); }
VF_E int pmk_applycat(PMk& p, int mode) {
    if (mode == 0) { return etl::apply(Cat4{}, p); } if (mode == 1) { return etl::apply(Cat4{}, etl::as_const(p)); }
    if (mode == 2) { return etl::apply(Cat4{}, etl::move(p)); } return etl::apply(Cat4{}, etl::move(etl::as_const(p))); }
VF_E int pmk_from(PMk& p, int mode) {
    if (mode == 0) { return etl::make_from_tuple<FromMk>(p).m.v; } if (mode == 1) { return etl::make_from_tuple<FromMk>(etl::as_const(p)).m.v; }
    if (mode == 2) { return etl::make_from_tuple<FromMk>(etl::move(p)).m.v; } return etl::make_from_tuple<FromMk>(etl::move(etl::as_const(p))).m.v; }
VF_E int tmk_from(TMk& t, int mode) {
    if (mode == 0) { return etl::make_from_tuple<FromMk>(t).m.v; } if (mode == 1) { return etl::make_from_tuple<FromMk>(etl::as_const(t)).m.v; }
    if (mode == 2) { return etl::make_from_tuple<FromMk>(etl::move(t)).m.v; } return etl::make_from_tuple<FromMk>(etl::move(etl::as_const(t))).m.v; }

// tuple: construction from lvalues / rvalues, reference elements, tie / forward_as_tuple round trips
using TRi = etl::tuple<Mk&, int>; using TCi = etl::tuple<Mk const&, int>; using TXi = etl::tuple<Mk&&, int>;
VF_E void tmk_ctor_lv(TMk* out, Mk& a, int& b) { new (out) TMk(a, b); }
VF_E void tmk_ctor_clv(TMk* out, Mk const& a, int const& b) { new (out) TMk(a, b); }
VF_E void tmk_ctor_rv(TMk* out, Mk& a, int b) { new (out) TMk(etl::move(a), etl::move(b)); }
VF_E void tmk_make_lv(TMk* out, Mk& a, int& b) { new (out) TMk(etl::make_tuple(a, b)); }
VF_E void tmk_make_rv(TMk* out, Mk& a, int b) { new (out) TMk(etl::make_tuple(etl::move(a), etl::move(b))); }
/* make_tuple(ref(a), b) does not compile: tuple_leaf<0, Mk&> list-initialises its reference member from the reference_wrapper (tuple.hpp:39) */
VF_E void tmk_swap(TMk& a, TMk& b) { a.swap(b); }
VF_E void tri_ctor(TRi* out, Mk& a, int b) { new (out) TRi(a, b); }
VF_E void tri_copy(TRi* out, TRi const& o) { new (out) TRi(o); }
VF_E void tri_move(TRi* out, TRi& o) { new (out) TRi(etl::move(o)); }
VF_E void tri_swap(TRi& a, TRi& b) { a.swap(b); }
VF_E Mk* tri_get0(TRi& t) { return &etl::get<0>(t); }
VF_E Mk const* tri_cget0(TRi const& t) { return &etl::get<0>(t); }   /* std: Mk& (tuple_element_t<0, T> const&); etl::get returns `auto const&` = Mk const& */
VF_E Mk const* tci_get0(TCi& t) { return &etl::get<0>(t); }
VF_E int tri_init_lv(TRi& t) { Mk m(etl::get<0>(t)); return m.v; }
VF_E int tri_init_clv(TRi const& t) { Mk m(etl::get<0>(t)); return m.v; }
VF_E int tri_applycat(TRi& t, bool c) { return c ? etl::apply(Cat4{}, etl::as_const(t)) : etl::apply(Cat4{}, t); }
VF_E int tci_applycat(TCi& t) { return etl::apply(Cat4{}, t); }
VF_E bool tri_eq(TRi const& a, TRi const& b) { return a == b; }
VF_E int txi_get_rv(TXi& t) { Mk m(etl::get<0>(etl::move(t))); return m.v; }
VF_E int txi_get_lv(TXi& t) { Mk m(etl::get<0>(t)); return m.v; }
VF_E int txi_applycat(TXi& t, bool rv) { return rv ? etl::apply(Cat4{}, etl::move(t)) : etl::apply(Cat4{}, t); }
VF_E int txi_from_rv(TXi& t) { return etl::make_from_tuple<FromMk>(etl::move(t)).m.v; }
VF_E Mk* tie_addr(Mk& a, int& i) { auto t = etl::tie(a, i); return &etl::get<0>(t); }
VF_E int tie_init(Mk& a, int& i) { auto t = etl::tie(a, i); Mk m(etl::get<0>(t)); return enc3(m.v, etl::get<1>(t), 0); }
VF_E void tie_store(Mk& a, int& i, Mk& src, int j, bool rv) { auto t = etl::tie(a, i); if (rv) { etl::get<0>(t) = etl::move(src); } else { etl::get<0>(t) = src; } etl::get<1>(t) = j; }
VF_E Mk* fat_addr(Mk& a) { auto t = etl::forward_as_tuple(a); return &etl::get<0>(t); }
VF_E Mk* fat_addr_rv(Mk& a) { auto t = etl::forward_as_tuple(etl::move(a)); return &etl::get<0>(t); }
VF_E int fat_init(Mk& a, bool rv) { auto t = etl::forward_as_tuple(etl::move(a)); if (rv) { Mk m(etl::get<0>(etl::move(t))); return m.v; } Mk m(etl::get<0>(t)); return m.v; }
VF_E int fat_applycat_rv(Mk& a, int i) { return etl::apply(Cat4{}, etl::forward_as_tuple(etl::move(a), etl::move(i))); }
VF_E int fat_applycat_crv(Mk const& a, int i) { return etl::apply(Cat4{}, etl::forward_as_tuple(etl::move(a), etl::move(i))); }
VF_E int fat_applycat_clv(Mk const& a, int const& i) { return etl::apply(Cat4{}, etl::forward_as_tuple(a, i)); }
VF_E int fat_from_rv(Mk& a, int i) { return etl::make_from_tuple<FromMk>(etl::forward_as_tuple(etl::move(a), etl::move(i))).m.v; }
#if VF_TUPLE_CAT
using TMk2 = etl::tuple<Mk, int, Mk, int>;
VF_E void tcat_mk(TMk* out, TMk& t, int mode) { if (mode == 2) { new (out) TMk(etl::tuple_cat(etl::move(t))); } else { new (out) TMk(etl::tuple_cat(etl::as_const(t))); } }
VF_E void tcat_mk2(TMk2* out, TMk& t, TMk& u, bool rv) { if (rv) { new (out) TMk2(etl::tuple_cat(etl::move(t), etl::as_const(u))); } else { new (out) TMk2(etl::tuple_cat(etl::as_const(t), etl::move(u))); } }
#endif

// ---- callables whose call reveals the value category they were called with ---------------------------------------------------------
// Q4: the call operator that ran is logged in a1 (1 &, 2 const&, 3 &&, 4 const&&); the && operator CONSUMES the callable's state (moves m out)
struct Q4 { Log* log; Mk m;
    auto rec(int x, int c, int mv) const -> int { ++log->calls; log->a0 = x; log->a1 = c; return mv ^ x; }
    auto operator()(int x) & -> int { return rec(x, 1, m.v); }
    auto operator()(int x) const& -> int { return rec(x, 2, m.v); }
    auto operator()(int x) && -> int { Mk t(etl::move(m)); return rec(x, 3, t.v); }
    auto operator()(int x) const&& -> int { return rec(x, 4, m.v); } };
// TgtV takes the first argument BY VALUE (copy-constructed from an lvalue / const rvalue, MOVE-constructed from an rvalue):
// a0 = value seen, a1 = the int argument, a2 = which call operator of the target ran; tag makes moves of the target itself visible
struct TgtV { Log* log; Mk tag;
    auto rec(Mk const& b, int x, int c) const -> int { ++log->calls; log->a0 = b.v; log->a1 = x; log->a2 = c; return enc3(b.v, x, c); }
    auto operator()(Mk b, int x) & -> int { return rec(b, x, 1); }
    auto operator()(Mk b, int x) const& -> int { return rec(b, x, 2); }
    auto operator()(Mk b, int x) && -> int { return rec(b, x, 3); }
    auto operator()(Mk b, int x) const&& -> int { return rec(b, x, 4); } };
struct TakeMk { Log* log; auto operator()(Mk b, int x) const -> int { ++log->calls; log->a0 = b.v; log->a1 = x; return enc3(b.v, x, 0); } };
// CatA: category of a CALL argument behind one bound int: result = enc3(bound, category, 0)
struct CatA { auto operator()(int b, Mk&&) const -> int { return enc3(b, 1, 0); } auto operator()(int b, Mk&) const -> int { return enc3(b, 2, 0); }
              auto operator()(int b, Mk const&) const -> int { return enc3(b, 3, 0); } auto operator()(int b, Mk const&&) const -> int { return enc3(b, 4, 0); } };
// CatP: predicate logging the category of its argument in a1 (for not_fn, whose result is a bool)
struct CatP { Log* log; auto rec(Mk const& m, int c) const -> bool { ++log->calls; log->a0 = m.v; log->a1 = c; return m.v != 0; }
    auto operator()(Mk&& m) const -> bool { return rec(m, 1); } auto operator()(Mk& m) const -> bool { return rec(m, 2); }
    auto operator()(Mk const& m) const -> bool { return rec(m, 3); } auto operator()(Mk const&& m) const -> bool { return rec(m, 4); } };
// call a wrapper as lvalue / const lvalue / rvalue / const rvalue
template <typename R, typename W, typename... A>
auto call_as(W& w, int mode, A&&... a) -> R {
    if (mode == 0) { return w(etl::forward<A>(a)...); }
    if (mode == 1) { return etl::as_const(w)(etl::forward<A>(a)...); }
    if (mode == 2) { return etl::move(w)(etl::forward<A>(a)...); }
    return etl::move(etl::as_const(w))(etl::forward<A>(a)...); }
// pass m as lvalue / const lvalue / rvalue / const rvalue
#define VF_ARG_AS(CALL, m, acat) ((acat) == 0 ? CALL(m) : (acat) == 1 ? CALL(etl::as_const(m)) : (acat) == 2 ? CALL(etl::move(m)) : CALL(etl::move(etl::as_const(m))))

// invoke / invoke_r: forward<F>(f)(forward<Args>(args)...)
// how: 0 invoke, 1 invoke_r<long>, 2 invoke_r<void> (result discarded: returns 0), 3 apply(f, tuple<int>{x})
VF_E int ivq_call(Q4& f, int x, int mode, int how) {
    if (how == 1) { if (mode == 0) { return static_cast<int>(etl::invoke_r<long>(f, x)); } if (mode == 1) { return static_cast<int>(etl::invoke_r<long>(etl::as_const(f), x)); }
             if (mode == 2) { return static_cast<int>(etl::invoke_r<long>(etl::move(f), x)); } return static_cast<int>(etl::invoke_r<long>(etl::move(etl::as_const(f)), x)); }
    if (how == 2) { if (mode == 0) { etl::invoke_r<void>(f, x); } else if (mode == 1) { etl::invoke_r<void>(etl::as_const(f), x); }
             else if (mode == 2) { etl::invoke_r<void>(etl::move(f), x); } else { etl::invoke_r<void>(etl::move(etl::as_const(f)), x); } return 0; }
    if (how == 3) { etl::tuple<int> t{x}; if (mode == 0) { return etl::apply(f, t); } if (mode == 1) { return etl::apply(etl::as_const(f), t); }
             if (mode == 2) { return etl::apply(etl::move(f), t); } return etl::apply(etl::move(etl::as_const(f)), t); }
    if (mode == 0) { return etl::invoke(f, x); } if (mode == 1) { return etl::invoke(etl::as_const(f), x); }
    if (mode == 2) { return etl::invoke(etl::move(f), x); } return etl::invoke(etl::move(etl::as_const(f)), x); }
VF_E int ivc_cat(Mk& m, int acat, bool r) {
#define VF_IVC(a) etl::invoke(Cat4{}, a, 0)
#define VF_IVCR(a) etl::invoke_r<int>(Cat4{}, a, 0)
    return r ? VF_ARG_AS(VF_IVCR, m, acat) : VF_ARG_AS(VF_IVC, m, acat); }
VF_E int ivv_call(TakeMk& f, Mk& m, int x, int acat) {
#define VF_IVV(a) etl::invoke(f, a, x)
    return VF_ARG_AS(VF_IVV, m, acat); }

// reference_wrapper::operator(): the referenced callable is called as an lvalue (const lvalue through cref), arguments forwarded
VF_E int rwq_call(Q4& f, int x, bool c) { return c ? etl::cref(f)(x) : etl::ref(f)(x); }
VF_E int rwc_cat(Mk& m, int acat) { Cat4 c4{}; auto r = etl::ref(c4);
#define VF_RWC(a) r(a, 0)
    return VF_ARG_AS(VF_RWC, m, acat); }
VF_E int rwv_call(TakeMk& f, Mk& m, int x, int acat) { auto r = etl::ref(f);
#define VF_RWV(a) r(a, x)
    return VF_ARG_AS(VF_RWV, m, acat); }

// bind_front: BFV binds a Mk in front of a by-value target, BFC in front of the category probe, BFA binds an int (category of the CALL argument)
using BFV = etl::detail::bind_front_t<TgtV, Mk>;
using BFC = etl::detail::bind_front_t<Cat4, Mk>;
using BFA = etl::detail::bind_front_t<CatA, int>;
static_assert(etl::is_same_v<BFV, decltype(etl::bind_front(etl::declval<TgtV>(), etl::declval<Mk>()))>);
static_assert(etl::is_same_v<BFC, decltype(etl::bind_front(Cat4{}, etl::declval<Mk>()))> && etl::is_same_v<BFA, decltype(etl::bind_front(CatA{}, 1))>);
VF_E int bfv_call(BFV& w, int x, int mode) { return call_as<int>(w, mode, x); }
VF_E int bfc_call(BFC& w, int mode) { return call_as<int>(w, mode, 0); }
VF_E int bfa_call(BFA& w, Mk& m, int mode, int acat) {
#define VF_BFA(a) call_as<int>(w, mode, a)
    return VF_ARG_AS(VF_BFA, m, acat); }
VF_E void bfv_copy(BFV* out, BFV const& w) { new (out) BFV(w); }
VF_E void bfv_move(BFV* out, BFV& w) { new (out) BFV(etl::move(w)); }
VF_E void bfv_make(BFV* out, TgtV& f, Mk& b, bool frv) { if (frv) { new (out) BFV(etl::bind_front(etl::move(f), etl::move(b))); } else { new (out) BFV(etl::bind_front(f, etl::move(b))); } }
VF_E void bfv_ctor_lv(BFV* out, TgtV& f, Mk& b) { new (out) BFV(f, b); }   /* bind_front(f, lvalue) itself does not compile: unwrap_ref_decay<Mk&> is incomplete */

// not_fn: NFQ negates Q4 (category of the target), NFP negates CatP (category of the argument)
using NFQ = etl::detail::not_fn_t<Q4>; using NFP = etl::detail::not_fn_t<CatP>;
VF_E bool nfq_call(NFQ& n, int x, int mode) { return call_as<bool>(n, mode, x); }
VF_E bool nfp_call(NFP& n, Mk& m, int mode, int acat) {
#define VF_NFP(a) call_as<bool>(n, mode, a)
    return VF_ARG_AS(VF_NFP, m, acat); }
VF_E void nfq_make(NFQ* out, Q4& f, bool rv) { if (rv) { new (out) NFQ(etl::not_fn(etl::move(f))); } else { new (out) NFQ(etl::not_fn(f)); } }
VF_E void nfq_copy(NFQ* out, NFQ const& n) { new (out) NFQ(n); }
VF_E void nfq_move(NFQ* out, NFQ& n) { new (out) NFQ(etl::move(n)); }

#if VF_FUNCTION_REF
// function_ref: the referenced callable is called as the lvalue it was bound from; arguments travel with their declared category
using FRM = etl::detail::function_ref<false, int(Mk, int)>;
using FRL = etl::detail::function_ref<false, int(Mk&, int)>;
using FRC = etl::detail::function_ref<false, int(Mk const&, int)>;
using FRX = etl::detail::function_ref<false, int(Mk&&, int)>;
VF_E int frq_call(Q4& f, int x, bool c) { if (c) { FR r(etl::as_const(f)); return r(x); } FR r(f); return r(x); }
#if VF_FRM_BYVALUE /* cxx2c lowers a by-value parameter of non-trivially-copyable class type as a pointer, but passes the object itself in the call through the
   function POINTER _callable (function_ref.hpp:43): goto-cc "conversion from 'struct vf_Mk' to 'struct vf_Mk *': implicit conversion not permitted" */
VF_E int frm_call(TakeMk& f, Mk& m, int x, int acat) { FRM r(f);
#define VF_FRM(a) r(a, x)
    return VF_ARG_AS(VF_FRM, m, acat); }
#endif
VF_E int frx_cat(Mk& m, int sig) { Cat4 c4{}; if (sig == 0) { FRL r(c4); return r(m, 0); } if (sig == 1) { FRC r(c4); return r(m, 0); } FRX r(c4); return r(etl::move(m), 0); }
#endif

// inplace_function holding move-marking callables; IFV passes a Mk by value through the type-erased call
using IFV = etl::inplace_function<int(Mk, int), 16, 8>;
using IFX = etl::inplace_function<int(Mk&&, int), 16, 8>;
static_assert(sizeof(Q4) == 16 && sizeof(BFV) == 24);
VF_E void if_from_q4(IF* out, Q4 const& f) { new (out) IF(f); }
VF_E void if_from_q4_rv(IF* out, Q4& f) { new (out) IF(etl::move(f)); }
VF_E void if_assign_q4(IF& a, Q4& f, bool rv) { if (rv) { a = etl::move(f); } else { a = f; } }
VF_E void ifw_from_bfv(IFW* out, BFV const& w) { new (out) IFW(w); }
VF_E void ifw_from_bfv_rv(IFW* out, BFV& w) { new (out) IFW(etl::move(w)); }
VF_E void ifw_copy_w(IFW* out, IFW const& o) { new (out) IFW(o); }
VF_E void ifw_move_w(IFW* out, IFW& o) { new (out) IFW(etl::move(o)); }
VF_E void ifw_assign_w(IFW& a, IFW& b, bool rv) { if (rv) { a = etl::move(b); } else { a = b; } }
VF_E int ifv_roundtrip(TakeMk& f, Mk& m, int x, int acat) { IFV w(f);
#define VF_IFV(a) w(a, x)
    return VF_ARG_AS(VF_IFV, m, acat); }
VF_E int ifx_cat(Mk& m) { IFX f(Cat4{}); return f(etl::move(m), 0); }
}
