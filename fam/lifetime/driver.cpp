// driver: C03 (object lifetime).  The ONLY hand-written C++ in the proof are the special members of the instrumented element
// types below; they do nothing but report to the ghost hooks g_ctor/g_dtor/g_use, which are declared and NOT defined (EXTERNAL
// in the lowered C; the harness defines them over a ghost liveness registry).  The second argument is the type tag.
#include <etl/vector.hpp>
#include <etl/optional.hpp>
#include <etl/variant.hpp>
#include <etl/expected.hpp>
#include <etl/utility.hpp>
#include <etl/new.hpp>
#include <etl/type_traits.hpp>
#ifndef VF_N
#define VF_N 4
#endif
#define VF_E extern "C"
namespace vf {
void g_ctor(void const*, int);
void g_dtor(void const*, int);
void g_use(void const*, int);
using size_type = etl::size_t;
// The payload is one byte wide: cxx2c does not lower alignas(), so an aligned_storage_t<4,4> slot array followed by a one-byte
// size would get a different sizeof in C (layout _Static_assert fails).  With alignment 1 the C and C++ layouts coincide.
using id_type = signed char;

#define VF_TRACKED_COMMON(Name, Tag)                                                                                   \
    id_type id;                                                                                                            \
    explicit Name(id_type i) noexcept : id(i) { g_ctor(this, Tag); }                                                       \
    Name() noexcept : id(0) { g_ctor(this, Tag); }                                                                     \
    ~Name() { g_dtor(this, Tag); }                                                                                     \
    friend auto operator==(Name const& a, Name const& b) noexcept -> bool { g_use(&a, Tag); g_use(&b, Tag); return a.id == b.id; } \
    friend auto operator<(Name const& a, Name const& b) noexcept -> bool { g_use(&a, Tag); g_use(&b, Tag); return a.id < b.id; }
#define VF_TRACKED_COPY(Name, Tag)                                                                                     \
    Name(Name const& o) noexcept : id(o.id) { g_use(&o, Tag); g_ctor(this, Tag); }                                     \
    auto operator=(Name const& o) noexcept -> Name& { g_use(this, Tag); g_use(&o, Tag); id = o.id; return *this; }
#define VF_TRACKED_MOVE(Name, Tag)                                                                                     \
    Name(Name&& o) noexcept : id(o.id) { g_use(&o, Tag); g_ctor(this, Tag); o.id = -1; }                               \
    auto operator=(Name&& o) noexcept -> Name& { g_use(this, Tag); g_use(&o, Tag); id = o.id; if (this != &o) { o.id = -1; } return *this; }

struct Tracked { VF_TRACKED_COMMON(Tracked, 1) VF_TRACKED_COPY(Tracked, 1) VF_TRACKED_MOVE(Tracked, 1) };
static_assert(!etl::is_trivially_destructible_v<Tracked>);
static_assert(!etl::is_trivial_v<Tracked>);
struct Tracked2 { VF_TRACKED_COMMON(Tracked2, 2) VF_TRACKED_COPY(Tracked2, 2) VF_TRACKED_MOVE(Tracked2, 2) };
static_assert(!etl::is_trivially_destructible_v<Tracked2>);

// ---- static_vector<Tracked, N> ---------------------------------------------------------------------------------------
using T = Tracked;
using V = etl::static_vector<T, VF_N>;
VF_E void tv_default(V* out) { new (out) V; }
VF_E void tv_ctor_n(V* out, size_type n) { new (out) V(n); }
VF_E void tv_ctor_n_x(V* out, size_type n, T const& x) { new (out) V(n, x); }
VF_E void tv_ctor_range(V* out, T const* f, T const* l) { new (out) V(f, l); }
VF_E void tv_copy_ctor(V* out, V const& o) { new (out) V(o); }
VF_E void tv_move_ctor(V* out, V& o) { new (out) V(etl::move(o)); }
VF_E void tv_copy_assign(V& a, V const& b) { a = b; }
VF_E void tv_move_assign(V& a, V& b) { a = etl::move(b); }
VF_E void tv_dtor(V& v) { v.~V(); }
VF_E void tv_push_back(V& v, T const& x) { v.push_back(x); }
VF_E void tv_push_back_rv(V& v, T& x) { v.push_back(etl::move(x)); }
VF_E void tv_emplace_back(V& v, id_type i) { v.emplace_back(i); }
VF_E void tv_pop_back(V& v) { v.pop_back(); }
VF_E T* tv_insert(V& v, T const* pos, T const& x) { return v.insert(pos, x); }
VF_E T* tv_insert_rv(V& v, T const* pos, T& x) { return v.insert(pos, etl::move(x)); }
VF_E T* tv_emplace(V& v, T const* pos, id_type i) { return v.emplace(pos, i); }
VF_E T* tv_insert_n(V& v, T const* pos, size_type n, T const& x) { return v.insert(pos, n, x); }
VF_E T* tv_insert_range(V& v, T const* pos, T const* f, T const* l) { return v.insert(pos, f, l); }
VF_E T* tv_erase(V& v, T const* pos) { return v.erase(pos); }
VF_E T* tv_erase_range(V& v, T const* f, T const* l) { return v.erase(f, l); }
VF_E void tv_resize(V& v, size_type n) { v.resize(n); }
VF_E void tv_resize_x(V& v, size_type n, T const& x) { v.resize(n, x); }
VF_E void tv_assign_n(V& v, size_type n, T const& x) { v.assign(n, x); }
VF_E void tv_assign_range(V& v, T const* f, T const* l) { v.assign(f, l); }
VF_E void tv_clear(V& v) { v.clear(); }
VF_E void tv_swap(V& a, V& b) { a.swap(b); }
VF_E void tv_swap_free(V& a, V& b) { swap(a, b); }
VF_E size_type tv_erase_value(V& v, T const& x) { return etl::erase(v, x); }

// ---- optional<Tracked> -----------------------------------------------------------------------------------------------
using O = etl::optional<T>;
VF_E void to_default(O* out) { new (out) O; }
VF_E void to_nullopt(O* out) { new (out) O(etl::nullopt); }
VF_E void to_value(O* out, T const& x) { new (out) O(x); }
VF_E void to_value_rv(O* out, T& x) { new (out) O(etl::move(x)); }
VF_E void to_in_place(O* out, id_type i) { new (out) O(etl::in_place, i); }
VF_E void to_copy_ctor(O* out, O const& o) { new (out) O(o); }
VF_E void to_move_ctor(O* out, O& o) { new (out) O(etl::move(o)); }
VF_E void to_copy_assign(O& a, O const& b) { a = b; }
VF_E void to_move_assign(O& a, O& b) { a = etl::move(b); }
VF_E void to_assign_nullopt(O& a) { a = etl::nullopt; }
VF_E void to_assign_value(O& a, T const& x) { a = x; }
VF_E void to_assign_value_rv(O& a, T& x) { a = etl::move(x); }
VF_E T* to_emplace(O& a, id_type i) { return &a.emplace(i); }
VF_E void to_reset(O& a) { a.reset(); }
VF_E void to_swap(O& a, O& b) { a.swap(b); }
VF_E void to_dtor(O& a) { a.~O(); }
VF_E bool to_has_value(O const& a) { return a.has_value(); }
VF_E T* to_arrow(O& a) { return a.operator->(); }
VF_E T* to_deref(O& a) { return &*a; }

// ---- variant<int, Tracked, Tracked2> ---------------------------------------------------------------------------------
using T2 = Tracked2;
using W = etl::variant<int, T, T2>;
VF_E void tw_default(W* out) { new (out) W; }
VF_E void tw_ctor_int(W* out, int i) { new (out) W(i); }
VF_E void tw_ctor_t1(W* out, T const& x) { new (out) W(x); }
VF_E void tw_ctor_t2_rv(W* out, T2& x) { new (out) W(etl::move(x)); }
VF_E void tw_in_place1(W* out, id_type i) { new (out) W(etl::in_place_index<1>, i); }
VF_E void tw_in_place2(W* out, id_type i) { new (out) W(etl::in_place_type<T2>, i); }
VF_E void tw_copy_ctor(W* out, W const& o) { new (out) W(o); }
VF_E void tw_move_ctor(W* out, W& o) { new (out) W(etl::move(o)); }
VF_E void tw_copy_assign(W& a, W const& b) { a = b; }
VF_E void tw_move_assign(W& a, W& b) { a = etl::move(b); }
VF_E void tw_emplace0(W& a, int i) { a.emplace<0>(i); }
VF_E void tw_emplace1(W& a, id_type i) { a.emplace<1>(i); }
VF_E void tw_emplace2(W& a, id_type i) { a.emplace<T2>(i); }
VF_E void tw_assign_int(W& a, int i) { a = i; }
VF_E void tw_assign_t1(W& a, T const& x) { a = x; }
VF_E void tw_assign_t2_rv(W& a, T2& x) { a = etl::move(x); }
VF_E void tw_swap(W& a, W& b) { etl::swap(a, b); }
VF_E void tw_dtor(W& a) { a.~W(); }
VF_E size_type tw_index(W const& a) { return a.index(); }

// ---- expected<Tracked, Tracked2> -------------------------------------------------------------------------------------
using X = etl::expected<T, T2>;
VF_E void tx_default(X* out) { new (out) X; }
VF_E void tx_in_place(X* out, id_type i) { new (out) X(etl::in_place, i); }
VF_E void tx_unexpect(X* out, id_type i) { new (out) X(etl::unexpect, i); }
VF_E void tx_copy_ctor(X* out, X const& o) { new (out) X(o); }
VF_E void tx_move_ctor(X* out, X& o) { new (out) X(etl::move(o)); }
VF_E void tx_copy_assign(X& a, X const& b) { a = b; }
VF_E void tx_move_assign(X& a, X& b) { a = etl::move(b); }
VF_E T* tx_emplace(X& a, id_type i) { return &a.emplace(i); }
VF_E void tx_swap(X& a, X& b) { etl::swap(a, b); }
VF_E void tx_dtor(X& a) { a.~X(); }
VF_E bool tx_has_value(X const& a) { return a.has_value(); }
VF_E T* tx_arrow(X& a) { return a.operator->(); }
VF_E T2* tx_error(X& a) { return &a.error(); }
}
