// driver: C03 (object lifetime).  The ONLY hand-written C++ in the proof are the special members of the instrumented element
// types below; they do nothing but report to the ghost hooks g_ctor/g_dtor/g_use, which are declared and NOT defined (EXTERNAL
// in the lowered C; the harness defines them over a ghost liveness registry).  The second argument is the type tag.
#include <etl/algorithm.hpp>
#include <etl/vector.hpp>
#include <etl/optional.hpp>
#include <etl/variant.hpp>
#include <etl/expected.hpp>
#include <etl/utility.hpp>
#include <etl/inplace_vector.hpp>
#include <etl/set.hpp>
#include <etl/flat_set.hpp>
#include <etl/stack.hpp>
#include <etl/memory.hpp>
#include <etl/functional.hpp>
#include <etl/new.hpp>
#include <etl/type_traits.hpp>
#ifndef VF_N
#define VF_N 4
#endif
#define VF_E extern "C"
namespace vf {
void g_ctor(void const*, int);
void g_dtor(void const*, int);
void g_use(void const*, int);
using size_type = etl::size_t;
// The payload is one byte wide: cxx2c does not lower alignas(), so an aligned_storage_t<4,4> slot array followed by a one-byte
// size would get a different sizeof in C (layout _Static_assert fails).  With alignment 1 the C and C++ layouts coincide.
using id_type = signed char;

#define VF_TRACKED_COMMON(Name, Tag)                                                                                   \
    id_type id;                                                                                                            \
    explicit Name(id_type i) noexcept : id(i) { g_ctor(this, Tag); }                                                       \
    Name() noexcept : id(0) { g_ctor(this, Tag); }                                                                     \
    ~Name() { g_dtor(this, Tag); }                                                                                     \
    friend auto operator==(Name const& a, Name const& b) noexcept -> bool { g_use(&a, Tag); g_use(&b, Tag); return a.id == b.id; } \
    friend auto operator<(Name const& a, Name const& b) noexcept -> bool { g_use(&a, Tag); g_use(&b, Tag); return a.id < b.id; }
#define VF_TRACKED_COPY(Name, Tag)                                                                                     \
    Name(Name const& o) noexcept : id(o.id) { g_use(&o, Tag); g_ctor(this, Tag); }                                     \
    auto operator=(Name const& o) noexcept -> Name& { g_use(this, Tag); g_use(&o, Tag); id = o.id; return *this; }
#define VF_TRACKED_MOVE(Name, Tag)                                                                                     \
    Name(Name&& o) noexcept : id(o.id) { g_use(&o, Tag); g_ctor(this, Tag); o.id = -1; }                               \
    auto operator=(Name&& o) noexcept -> Name& { g_use(this, Tag); g_use(&o, Tag); id = o.id; if (this != &o) { o.id = -1; } return *this; }

struct Tracked { VF_TRACKED_COMMON(Tracked, 1) VF_TRACKED_COPY(Tracked, 1) VF_TRACKED_MOVE(Tracked, 1) };
static_assert(!etl::is_trivially_destructible_v<Tracked>);
static_assert(!etl::is_trivial_v<Tracked>);
struct Tracked2 { VF_TRACKED_COMMON(Tracked2, 2) VF_TRACKED_COPY(Tracked2, 2) VF_TRACKED_MOVE(Tracked2, 2) };
static_assert(!etl::is_trivially_destructible_v<Tracked2>);

// ---- static_vector<Tracked, N> ---------------------------------------------------------------------------------------
using T = Tracked;
using V = etl::static_vector<T, VF_N>;
VF_E void tv_default(V* out) { new (out) V; }
VF_E void tv_ctor_n(V* out, size_type n) { new (out) V(n); }
VF_E void tv_ctor_n_x(V* out, size_type n, T const& x) { new (out) V(n, x); }
VF_E void tv_ctor_range(V* out, T const* f, T const* l) { new (out) V(f, l); }
VF_E void tv_copy_ctor(V* out, V const& o) { new (out) V(o); }
VF_E void tv_move_ctor(V* out, V& o) { new (out) V(etl::move(o)); }
VF_E void tv_copy_assign(V& a, V const& b) { a = b; }
VF_E void tv_move_assign(V& a, V& b) { a = etl::move(b); }
VF_E void tv_dtor(V& v) { v.~V(); }
VF_E void tv_push_back(V& v, T const& x) { v.push_back(x); }
VF_E void tv_push_back_rv(V& v, T& x) { v.push_back(etl::move(x)); }
VF_E void tv_emplace_back(V& v, id_type i) { v.emplace_back(i); }
VF_E void tv_pop_back(V& v) { v.pop_back(); }
VF_E T* tv_insert(V& v, T const* pos, T const& x) { return v.insert(pos, x); }
VF_E T* tv_insert_rv(V& v, T const* pos, T& x) { return v.insert(pos, etl::move(x)); }
VF_E T* tv_emplace(V& v, T const* pos, id_type i) { return v.emplace(pos, i); }
VF_E T* tv_insert_n(V& v, T const* pos, size_type n, T const& x) { return v.insert(pos, n, x); }
VF_E T* tv_insert_range(V& v, T const* pos, T const* f, T const* l) { return v.insert(pos, f, l); }
VF_E T* tv_erase(V& v, T const* pos) { return v.erase(pos); }
VF_E T* tv_erase_range(V& v, T const* f, T const* l) { return v.erase(f, l); }
VF_E void tv_resize(V& v, size_type n) { v.resize(n); }
VF_E void tv_resize_x(V& v, size_type n, T const& x) { v.resize(n, x); }
VF_E void tv_assign_n(V& v, size_type n, T const& x) { v.assign(n, x); }
VF_E void tv_assign_range(V& v, T const* f, T const* l) { v.assign(f, l); }
VF_E void tv_clear(V& v) { v.clear(); }
VF_E void tv_swap(V& a, V& b) { a.swap(b); }
VF_E void tv_swap_free(V& a, V& b) { swap(a, b); }
VF_E size_type tv_erase_value(V& v, T const& x) { return etl::erase(v, x); }

// ---- optional<Tracked> -----------------------------------------------------------------------------------------------
using O = etl::optional<T>;
VF_E void to_default(O* out) { new (out) O; }
VF_E void to_nullopt(O* out) { new (out) O(etl::nullopt); }
VF_E void to_value(O* out, T const& x) { new (out) O(x); }
VF_E void to_value_rv(O* out, T& x) { new (out) O(etl::move(x)); }
VF_E void to_in_place(O* out, id_type i) { new (out) O(etl::in_place, i); }
VF_E void to_copy_ctor(O* out, O const& o) { new (out) O(o); }
VF_E void to_move_ctor(O* out, O& o) { new (out) O(etl::move(o)); }
VF_E void to_copy_assign(O& a, O const& b) { a = b; }
VF_E void to_move_assign(O& a, O& b) { a = etl::move(b); }
VF_E void to_assign_nullopt(O& a) { a = etl::nullopt; }
VF_E void to_assign_value(O& a, T const& x) { a = x; }
VF_E void to_assign_value_rv(O& a, T& x) { a = etl::move(x); }
VF_E T* to_emplace(O& a, id_type i) { return &a.emplace(i); }
VF_E void to_reset(O& a) { a.reset(); }
VF_E void to_swap(O& a, O& b) { a.swap(b); }
VF_E void to_dtor(O& a) { a.~O(); }
VF_E bool to_has_value(O const& a) { return a.has_value(); }
VF_E T* to_arrow(O& a) { return a.operator->(); }
VF_E T* to_deref(O& a) { return &*a; }

// ---- variant<int, Tracked, Tracked2> ---------------------------------------------------------------------------------
using T2 = Tracked2;
using W = etl::variant<int, T, T2>;
VF_E void tw_default(W* out) { new (out) W; }
VF_E void tw_ctor_int(W* out, int i) { new (out) W(i); }
VF_E void tw_ctor_t1(W* out, T const& x) { new (out) W(x); }
VF_E void tw_ctor_t2_rv(W* out, T2& x) { new (out) W(etl::move(x)); }
VF_E void tw_in_place1(W* out, id_type i) { new (out) W(etl::in_place_index<1>, i); }
VF_E void tw_in_place2(W* out, id_type i) { new (out) W(etl::in_place_type<T2>, i); }
VF_E void tw_copy_ctor(W* out, W const& o) { new (out) W(o); }
VF_E void tw_move_ctor(W* out, W& o) { new (out) W(etl::move(o)); }
VF_E void tw_copy_assign(W& a, W const& b) { a = b; }
VF_E void tw_move_assign(W& a, W& b) { a = etl::move(b); }
VF_E void tw_emplace0(W& a, int i) { a.emplace<0>(i); }
VF_E void tw_emplace1(W& a, id_type i) { a.emplace<1>(i); }
VF_E void tw_emplace2(W& a, id_type i) { a.emplace<T2>(i); }
VF_E void tw_assign_int(W& a, int i) { a = i; }
VF_E void tw_assign_t1(W& a, T const& x) { a = x; }
VF_E void tw_assign_t2_rv(W& a, T2& x) { a = etl::move(x); }
VF_E void tw_swap(W& a, W& b) { etl::swap(a, b); }
VF_E void tw_dtor(W& a) { a.~W(); }
VF_E size_type tw_index(W const& a) { return a.index(); }

// ---- expected<Tracked, Tracked2> -------------------------------------------------------------------------------------
using X = etl::expected<T, T2>;
VF_E void tx_default(X* out) { new (out) X; }
VF_E void tx_in_place(X* out, id_type i) { new (out) X(etl::in_place, i); }
VF_E void tx_unexpect(X* out, id_type i) { new (out) X(etl::unexpect, i); }
VF_E void tx_copy_ctor(X* out, X const& o) { new (out) X(o); }
VF_E void tx_move_ctor(X* out, X& o) { new (out) X(etl::move(o)); }
VF_E void tx_copy_assign(X& a, X const& b) { a = b; }
VF_E void tx_move_assign(X& a, X& b) { a = etl::move(b); }
VF_E T* tx_emplace(X& a, id_type i) { return &a.emplace(i); }
VF_E void tx_swap(X& a, X& b) { etl::swap(a, b); }
VF_E void tx_dtor(X& a) { a.~X(); }
VF_E bool tx_has_value(X const& a) { return a.has_value(); }
VF_E T* tx_arrow(X& a) { return a.operator->(); }
VF_E T2* tx_error(X& a) { return &a.error(); }

// ---- inplace_vector<Tracked, N> (no assignment operators, no insert/erase in the library) ----------------------------
using IV = etl::inplace_vector<T, VF_N>;
VF_E void ti_value_init(IV* out) { new (out) IV(); }
VF_E void ti_copy_ctor(IV* out, IV const& o) { new (out) IV(o); }
VF_E void ti_move_ctor(IV* out, IV& o) { new (out) IV(etl::move(o)); }
VF_E void ti_dtor(IV& v) { v.~IV(); }
VF_E T* ti_try_emplace_back(IV& v, id_type i) { return v.try_emplace_back(i); }
VF_E T* ti_try_push_back(IV& v, T const& x) { return v.try_push_back(x); }
VF_E T* ti_try_push_back_rv(IV& v, T& x) { return v.try_push_back(etl::move(x)); }
VF_E T* ti_unchecked_emplace_back(IV& v, id_type i) { return &v.unchecked_emplace_back(i); }
VF_E T* ti_unchecked_push_back(IV& v, T const& x) { return &v.unchecked_push_back(x); }
VF_E T* ti_unchecked_push_back_rv(IV& v, T& x) { return &v.unchecked_push_back(etl::move(x)); }
VF_E void ti_pop_back(IV& v) { v.pop_back(); }
VF_E void ti_clear(IV& v) { v.clear(); }

// ---- static_set<Tracked, N> ------------------------------------------------------------------------------------------
using SS = etl::static_set<T, VF_N>;
VF_E void ts_default(SS* out) { new (out) SS; }
VF_E void ts_ctor_range(SS* out, T const* f, T const* l) { new (out) SS(f, l); }
VF_E void ts_copy_ctor(SS* out, SS const& o) { new (out) SS(o); }
VF_E void ts_move_ctor(SS* out, SS& o) { new (out) SS(etl::move(o)); }
VF_E void ts_copy_assign(SS& a, SS const& b) { a = b; }
VF_E void ts_move_assign(SS& a, SS& b) { a = etl::move(b); }
VF_E void ts_dtor(SS& s) { s.~SS(); }
VF_E bool ts_insert(SS& s, T const& x, T** pos) { auto r = s.insert(x); *pos = r.first; return r.second; }
VF_E bool ts_insert_rv(SS& s, T& x, T** pos) { auto r = s.insert(etl::move(x)); *pos = r.first; return r.second; }
VF_E bool ts_emplace(SS& s, id_type i, T** pos) { auto r = s.emplace(i); *pos = r.first; return r.second; }
VF_E void ts_insert_range(SS& s, T const* f, T const* l) { s.insert(f, l); }
VF_E T* ts_erase(SS& s, T* pos) { return s.erase(pos); }
VF_E size_type ts_erase_key(SS& s, T const& k) { return s.erase(k); }
VF_E void ts_clear(SS& s) { s.clear(); }
VF_E void ts_swap(SS& a, SS& b) { a.swap(b); }
VF_E T* ts_find(SS& s, T const& k) { return s.find(k); }

// ---- flat_set<Tracked, static_vector<Tracked, N>> --------------------------------------------------------------------
// The comparator has one byte of state: cxx2c does not lower [[no_unique_address]], an EMPTY comparator member would give the C
// struct a different size (layout _Static_assert fails).
struct TLess { unsigned char salt; auto operator()(T const& a, T const& b) const noexcept -> bool { return a < b; } };
using FS = etl::flat_set<T, V, TLess>;
VF_E void tf_default(FS* out) { new (out) FS; }
VF_E void tf_copy_ctor(FS* out, FS const& o) { new (out) FS(o); }
VF_E void tf_move_ctor(FS* out, FS& o) { new (out) FS(etl::move(o)); }
VF_E void tf_copy_assign(FS& a, FS const& b) { a = b; }
VF_E void tf_move_assign(FS& a, FS& b) { a = etl::move(b); }
VF_E void tf_dtor(FS& s) { s.~FS(); }
VF_E bool tf_insert(FS& s, T const& x, T** pos) { auto r = s.insert(x); *pos = r.first; return r.second; }
VF_E bool tf_insert_rv(FS& s, T& x, T** pos) { auto r = s.insert(etl::move(x)); *pos = r.first; return r.second; }
VF_E bool tf_emplace(FS& s, id_type i, T** pos) { auto r = s.emplace(i); *pos = r.first; return r.second; }
VF_E T* tf_erase(FS& s, T* pos) { return s.erase(pos); }
VF_E T* tf_erase_range(FS& s, T const* f, T const* l) { return s.erase(f, l); }
VF_E size_type tf_erase_key(FS& s, T const& k) { return s.erase(k); }
VF_E void tf_clear(FS& s) { s.clear(); }
VF_E void tf_swap(FS& a, FS& b) { a.swap(b); }
VF_E void tf_extract(FS& s, V* out) { new (out) V(etl::move(s).extract()); }
VF_E void tf_replace(FS& s, V& c) { s.replace(etl::move(c)); }

// ---- stack<Tracked, static_vector<Tracked, N>> -----------------------------------------------------------------------
using ST = etl::stack<T, V>;
VF_E void tk_push(ST& s, T const& x) { s.push(x); }
VF_E void tk_push_rv(ST& s, T& x) { s.push(etl::move(x)); }
VF_E void tk_emplace(ST& s, id_type i) { s.emplace(i); }
VF_E void tk_pop(ST& s) { s.pop(); }
VF_E void tk_swap(ST& a, ST& b) { a.swap(b); }
VF_E void tk_copy_ctor(ST* out, ST const& o) { new (out) ST(o); }
VF_E void tk_move_ctor(ST* out, ST& o) { new (out) ST(etl::move(o)); }
VF_E void tk_ctor_cont(ST* out, V const& c) { new (out) ST(c); }
VF_E void tk_dtor(ST& s) { s.~ST(); }

// ---- raw storage: uninitialized_copy/move/fill, construct_at, destroy, destroy_n, destroy_at, ranges::destroy(_at) ----
VF_E T* tm_uninit_copy(T const* f, T const* l, T* d) { return etl::uninitialized_copy(f, l, d); }
VF_E T* tm_uninit_move(T* f, T* l, T* d) { return etl::uninitialized_move(f, l, d); }
VF_E void tm_uninit_fill(T* f, T* l, T const& x) { etl::uninitialized_fill(f, l, x); }
VF_E T* tm_construct_at(T* p, id_type i) { return etl::construct_at(p, i); }
VF_E T* tm_ranges_construct_at(T* p, T const& x) { return etl::ranges::construct_at(p, x); }
VF_E void tm_destroy(T* f, T* l) { etl::destroy(f, l); }
VF_E T* tm_destroy_n(T* f, size_type n) { return etl::destroy_n(f, n); }
VF_E void tm_destroy_at(T* p) { etl::destroy_at(p); }
VF_E T* tm_ranges_destroy(T* f, T* l) { return etl::ranges::destroy(f, l); }
VF_E void tm_ranges_destroy_at(T* p) { etl::ranges::destroy_at(p); }

// ---- inplace_function<int(int), 8, 1> holding an instrumented functor ------------------------------------------------
struct Fn { VF_TRACKED_COMMON(Fn, 3) VF_TRACKED_COPY(Fn, 3) VF_TRACKED_MOVE(Fn, 3)
    auto operator()(int x) const noexcept -> int { g_use(this, 3); return (x & 1) + id; } };
using F = etl::inplace_function<int(int), 8, 1>;
VF_E void tn_default(F* out) { new (out) F; }
VF_E void tn_nullptr(F* out) { new (out) F(nullptr); }
VF_E void tn_from(F* out, Fn const& f) { new (out) F(f); }
VF_E void tn_from_rv(F* out, Fn& f) { new (out) F(etl::move(f)); }
VF_E void tn_copy_ctor(F* out, F const& o) { new (out) F(o); }
VF_E void tn_move_ctor(F* out, F& o) { new (out) F(etl::move(o)); }
VF_E void tn_assign(F& a, F const& b) { a = b; }
VF_E void tn_assign_rv(F& a, F& b) { a = etl::move(b); }
VF_E void tn_assign_null(F& a) { a = nullptr; }
VF_E void tn_assign_fn(F& a, Fn const& f) { a = f; }
VF_E int tn_call(F const& a, int x) { return a(x); }
VF_E bool tn_bool(F const& a) { return static_cast<bool>(a); }
VF_E void tn_swap(F& a, F& b) { a.swap(b); }
VF_E void tn_dtor(F& a) { a.~F(); }
// converting (widening) copy / move construction into a larger capacity
using FW = etl::inplace_function<int(int), 16, 1>;
VF_E void tn_widen_copy(FW* out, F const& o) { new (out) FW(o); }
VF_E void tn_widen_move(FW* out, F& o) { new (out) FW(etl::move(o)); }
VF_E int tnw_call(FW const& a, int x) { return a(x); }
VF_E void tnw_dtor(FW& a) { a.~FW(); }

// ---- move-only and copy-only element types in static_vector ----------------------------------------------------------
struct MoveOnly { VF_TRACKED_COMMON(MoveOnly, 4) VF_TRACKED_MOVE(MoveOnly, 4)
    MoveOnly(MoveOnly const&) = delete; auto operator=(MoveOnly const&) -> MoveOnly& = delete; };
struct CopyOnly { VF_TRACKED_COMMON(CopyOnly, 5) VF_TRACKED_COPY(CopyOnly, 5) };   // no move members: every move degrades to a copy
static_assert(!etl::is_copy_constructible_v<MoveOnly> && etl::is_move_constructible_v<MoveOnly>);
using TM = MoveOnly;
using VM = etl::static_vector<TM, VF_N>;
VF_E void tvm_push_back_rv(VM& v, TM& x) { v.push_back(etl::move(x)); }
VF_E void tvm_emplace_back(VM& v, id_type i) { v.emplace_back(i); }
VF_E void tvm_pop_back(VM& v) { v.pop_back(); }
VF_E TM* tvm_insert_rv(VM& v, TM const* pos, TM& x) { return v.insert(pos, etl::move(x)); }
VF_E TM* tvm_emplace(VM& v, TM const* pos, id_type i) { return v.emplace(pos, i); }
VF_E TM* tvm_erase_range(VM& v, TM const* f, TM const* l) { return v.erase(f, l); }
VF_E void tvm_resize(VM& v, size_type n) { v.resize(n); }
VF_E void tvm_clear(VM& v) { v.clear(); }
VF_E void tvm_move_ctor(VM* out, VM& o) { new (out) VM(etl::move(o)); }
// not instantiable: static_vector::operator=(static_vector&&) requires is_assignable_v<reference, reference> (COPY-assignability of
// the element), so a static_vector of move-only elements has no move assignment and swap() does not compile.
VF_E void tvm_dtor(VM& v) { v.~VM(); }
using TC = CopyOnly;
using VC = etl::static_vector<TC, VF_N>;
VF_E void tvc_push_back(VC& v, TC const& x) { v.push_back(x); }
VF_E void tvc_push_back_rv(VC& v, TC& x) { v.push_back(etl::move(x)); }
VF_E TC* tvc_insert(VC& v, TC const* pos, TC const& x) { return v.insert(pos, x); }
VF_E TC* tvc_insert_n(VC& v, TC const* pos, size_type n, TC const& x) { return v.insert(pos, n, x); }
VF_E TC* tvc_erase_range(VC& v, TC const* f, TC const* l) { return v.erase(f, l); }
VF_E void tvc_resize_x(VC& v, size_type n, TC const& x) { v.resize(n, x); }
VF_E void tvc_copy_ctor(VC* out, VC const& o) { new (out) VC(o); }
VF_E void tvc_copy_assign(VC& a, VC const& b) { a = b; }
VF_E void tvc_dtor(VC& v) { v.~VC(); }

// ---- element access of the NON-TRIVIAL instantiations (C05: wrong-state access reaches the handler; valid access addresses the element)
VF_E T* tv_back(V& v) { return &v.back(); }
VF_E T const* tv_cback(V const& v) { return &v.back(); }
VF_E T* tv_front(V& v) { return &v.front(); }
VF_E T const* tv_cfront(V const& v) { return &v.front(); }
VF_E T* tv_index(V& v, size_type i) { return &v[i]; }
VF_E T const* tv_cindex(V const& v, size_type i) { return &v[i]; }
VF_E T* ti_back(IV& v) { return &v.back(); }
VF_E T const* ti_cback(IV const& v) { return &v.back(); }
VF_E T* ti_front(IV& v) { return &v.front(); }
VF_E T const* ti_cfront(IV const& v) { return &v.front(); }
VF_E T* ti_index(IV& v, size_type i) { return &v[i]; }
VF_E T const* ti_cindex(IV const& v, size_type i) { return &v[i]; }
VF_E T* tk_top(ST& s) { return &s.top(); }
VF_E T const* tk_ctop(ST const& s) { return &s.top(); }
VF_E T const* to_cderef(O const& a) { return &*a; }
VF_E T* to_deref_rv(O& a) { T&& r = *etl::move(a); return &r; }
VF_E T const* to_cderef_rv(O const& a) { T const&& r = *etl::move(a); return &r; }
VF_E T* tx_deref(X& a) { return &*a; }
VF_E T const* tx_cderef(X const& a) { return &*a; }
VF_E T* tx_deref_rv(X& a) { T&& r = *etl::move(a); return &r; }
VF_E T const* tx_cderef_rv(X const& a) { T const&& r = *etl::move(a); return &r; }
VF_E T2 const* tx_cerror(X const& a) { return &a.error(); }
VF_E T2* tx_error_rv(X& a) { T2&& r = etl::move(a).error(); return &r; }
VF_E T2 const* tx_cerror_rv(X const& a) { T2 const&& r = etl::move(a).error(); return &r; }
#define VF_W_ACCESS(I)                                                                                                 \
    VF_E void const* tw_uget_##I(W& v) { return &etl::unchecked_get<I>(v); }                                           \
    VF_E void const* tw_cuget_##I(W const& v) { return &etl::unchecked_get<I>(v); }                                    \
    VF_E void const* tw_uget_rv_##I(W& v) { auto&& r = etl::unchecked_get<I>(etl::move(v)); return &r; }               \
    VF_E void const* tw_cuget_rv_##I(W const& v) { auto&& r = etl::unchecked_get<I>(etl::move(v)); return &r; }        \
    VF_E void const* tw_sub_##I(W& v) { return &v[etl::index_v<I>]; }                                                  \
    VF_E void const* tw_csub_##I(W const& v) { return &v[etl::index_v<I>]; }                                           \
    VF_E void const* tw_sub_rv_##I(W& v) { auto&& r = etl::move(v)[etl::index_v<I>]; return &r; }                      \
    VF_E void const* tw_csub_rv_##I(W const& v) { auto&& r = etl::move(v)[etl::index_v<I>]; return &r; }
VF_W_ACCESS(0)
VF_W_ACCESS(1)
VF_W_ACCESS(2)

// ---- Handle: an ownership-transferring element.  Move construction AND move assignment take the payload and mark the source (-1)
// unconditionally, so a SELF-move-assignment loses the payload (MoveAssignable only has to work for distinct objects; std::remove_if,
// std::rotate, vector::erase/insert never self-move).  The destructor releases the payload (-2), so "destroy, then construct from the
// dead object" is visible in the VALUE and not only in the liveness registry.
struct Handle {
    id_type id;
    explicit Handle(id_type i) noexcept : id(i) { g_ctor(this, 6); }
    Handle() noexcept : id(0) { g_ctor(this, 6); }
    ~Handle() { g_dtor(this, 6); id = -2; }
    Handle(Handle const& o) noexcept : id(o.id) { g_use(&o, 6); g_ctor(this, 6); }
    auto operator=(Handle const& o) noexcept -> Handle& { g_use(this, 6); g_use(&o, 6); id = o.id; return *this; }
    Handle(Handle&& o) noexcept : id(o.id) { g_use(&o, 6); g_ctor(this, 6); o.id = -1; }
    auto operator=(Handle&& o) noexcept -> Handle& { g_use(this, 6); g_use(&o, 6); id = o.id; o.id = -1; return *this; }
    friend auto operator==(Handle const& a, Handle const& b) noexcept -> bool { g_use(&a, 6); g_use(&b, 6); return a.id == b.id; }
    friend auto operator<(Handle const& a, Handle const& b) noexcept -> bool { g_use(&a, 6); g_use(&b, 6); return a.id < b.id; }
};
static_assert(!etl::is_trivial_v<Handle>);
using H = Handle;
// an arbitrary predicate over the low three bits of the payload
struct MaskPred { unsigned char mask; auto operator()(H const& h) const noexcept -> bool { g_use(&h, 6); return ((mask >> (h.id & 7)) & 1) != 0; } };
using VH = etl::static_vector<H, VF_N>;
VF_E void th_dtor(VH& v) { v.~VH(); }
VF_E void th_push_back(VH& v, H const& x) { v.push_back(x); }
VF_E void th_push_back_lv(VH& v, H& x) { v.push_back(x); }
VF_E void th_push_back_rv(VH& v, H& x) { v.push_back(etl::move(x)); }
VF_E void th_emplace_back(VH& v, id_type i) { v.emplace_back(i); }
VF_E void th_emplace_back_copy(VH& v, H const& x) { v.emplace_back(x); }
VF_E void th_pop_back(VH& v) { v.pop_back(); }
VF_E H* th_insert(VH& v, H const* pos, H const& x) { return v.insert(pos, x); }
VF_E H* th_insert_rv(VH& v, H const* pos, H& x) { return v.insert(pos, etl::move(x)); }
VF_E H* th_emplace(VH& v, H const* pos, id_type i) { return v.emplace(pos, i); }
VF_E H* th_emplace_copy(VH& v, H const* pos, H const& x) { return v.emplace(pos, x); }
VF_E H* th_insert_n(VH& v, H const* pos, size_type n, H const& x) { return v.insert(pos, n, x); }
VF_E H* th_insert_range(VH& v, H const* pos, H const* f, H const* l) { return v.insert(pos, f, l); }
VF_E H* th_erase(VH& v, H const* pos) { return v.erase(pos); }
VF_E H* th_erase_range(VH& v, H const* f, H const* l) { return v.erase(f, l); }
VF_E void th_resize(VH& v, size_type n) { v.resize(n); }
VF_E void th_resize_x(VH& v, size_type n, H const& x) { v.resize(n, x); }
VF_E void th_assign_n(VH& v, size_type n, H const& x) { v.assign(n, x); }
VF_E void th_assign_range(VH& v, H const* f, H const* l) { v.assign(f, l); }
VF_E void th_copy_assign(VH& a, VH const& b) { a = b; }
VF_E void th_move_assign(VH& a, VH& b) { a = etl::move(b); }
VF_E void th_copy_ctor(VH* out, VH const& o) { new (out) VH(o); }
VF_E void th_move_ctor(VH* out, VH& o) { new (out) VH(etl::move(o)); }
VF_E void th_swap(VH& a, VH& b) { a.swap(b); }
VF_E void th_swap_free(VH& a, VH& b) { swap(a, b); }
VF_E size_type th_erase_value(VH& v, H const& x) { return etl::erase(v, x); }
VF_E size_type th_erase_if(VH& v, unsigned char mask) { return etl::erase_if(v, MaskPred{mask}); }

// ---- optional<Handle>, variant<int,Handle,Tracked2>, expected<Handle,Tracked2>: value assignment, also from a reference to the own value
using OH = etl::optional<H>;
VF_E void tho_dtor(OH& a) { a.~OH(); }
VF_E void tho_assign_value(OH& a, H const& x) { a = x; }        // U = Handle const&
VF_E void tho_assign_value_lv(OH& a, H& x) { a = x; }           // U = Handle&
VF_E void tho_assign_value_rv(OH& a, H& x) { a = etl::move(x); }
VF_E void tho_assign_deref(OH& a) { a = *a; }                   // the spelling `o = *o`
VF_E void tho_copy_assign(OH& a, OH const& b) { a = b; }
VF_E void tho_move_assign(OH& a, OH& b) { a = etl::move(b); }
VF_E H* tho_emplace(OH& a, id_type i) { return &a.emplace(i); }
VF_E void tho_swap(OH& a, OH& b) { a.swap(b); }
using WH = etl::variant<int, H, T2>;
VF_E void twh_dtor(WH& a) { a.~WH(); }
VF_E void twh_assign_int(WH& a, int const& i) { a = i; }
VF_E void twh_assign_h(WH& a, H const& x) { a = x; }
VF_E void twh_assign_h_lv(WH& a, H& x) { a = x; }
VF_E void twh_assign_h_rv(WH& a, H& x) { a = etl::move(x); }
VF_E void twh_assign_t2(WH& a, T2 const& x) { a = x; }
VF_E void twh_copy_assign(WH& a, WH const& b) { a = b; }
VF_E void twh_move_assign(WH& a, WH& b) { a = etl::move(b); }
VF_E void twh_swap(WH& a, WH& b) { etl::swap(a, b); }
using XH = etl::expected<H, T2>;
VF_E void txh_dtor(XH& a) { a.~XH(); }
VF_E void txh_copy_assign(XH& a, XH const& b) { a = b; }
VF_E void txh_move_assign(XH& a, XH& b) { a = etl::move(b); }
VF_E H* txh_emplace(XH& a, id_type i) { return &a.emplace(i); }
VF_E void txh_swap(XH& a, XH& b) { etl::swap(a, b); }

// ---- the element-moving algorithms over a range of Handles (remove_if is what erase/erase_if run; rotate what insert runs)
VF_E H* tha_remove(H* f, H* l, H const& x) { return etl::remove(f, l, x); }
VF_E H* tha_remove_if(H* f, H* l, unsigned char mask) { return etl::remove_if(f, l, MaskPred{mask}); }
VF_E H* tha_unique(H* f, H* l) { return etl::unique(f, l); }
VF_E H* tha_rotate(H* f, H* m, H* l) { return etl::rotate(f, m, l); }
VF_E H* tha_shift_left(H* f, H* l, long n) { return etl::shift_left(f, l, n); }
VF_E H* tha_shift_right(H* f, H* l, long n) { return etl::shift_right(f, l, n); }
VF_E H* tha_move(H* f, H* l, H* d) { return etl::move(f, l, d); }
VF_E H* tha_move_backward(H* f, H* l, H* d) { return etl::move_backward(f, l, d); }
// aliasing arguments at the existing Tracked instantiations of inplace_vector and stack
VF_E T* ti_try_emplace_back_copy(IV& v, T const& x) { return v.try_emplace_back(x); }
VF_E T* ti_unchecked_emplace_back_copy(IV& v, T const& x) { return &v.unchecked_emplace_back(x); }
VF_E void tk_emplace_copy(ST& s, T const& x) { s.emplace(x); }
}
