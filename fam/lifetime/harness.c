/* lifetime: C03 — each element is constructed once and destroyed once; no leak, no double destroy, no use of dead storage.
 * The driver's instrumented element types report every constructor / destructor / member call to the hooks vf::g_ctor/g_dtor/g_use
 * (EXTERNAL in the lowered code).  They are defined HERE over a ghost liveness registry:
 *   - regions: element storage of the owners under test (base, stride, count) with one state byte per slot: 0 dead, else the type tag
 *     of the live object (a union slot can hold objects of different types);
 *   - every other address (arguments, locals and temporaries of the library code): a small address table + the counter outside_live.
 * Every harness starts from an ARBITRARY owner state (all bytes symbolic) with the registry initialised from the representation
 * invariant (vectors: live[slot] <=> slot < size), and proves: the three hook assertions on every call inside the operation, the
 * invariant afterwards, outside_live back to its entry value, and every slot dead after the owner's destructor.
 * Native replay is not available for this family (the registry uses __CPROVER_same_object / __CPROVER_POINTER_OFFSET).
 * Group prefixes: v_ static_vector<Tracked,N> · o_ optional<Tracked> · w_ variant<int,Tracked,Tracked2> · x_ expected<Tracked,Tracked2> ·
 * i_ inplace_vector · s_ static_set · f_ flat_set · k_ stack · m_ uninitialized_x/construct_at/destroy_x · n_ inplace_function ·
 * mo_/co_ static_vector of a move-only / copy-only element · viol_* C05 violation harnesses of the non-trivial instantiations (handler reached,
 * owner + argument + ghost registry unmodified at the handler) · h_/ho_/hw_/hx_ static_vector / optional / variant / expected of vf::Handle (self-move
 * loses the payload, the destructor releases it: C01 / C07 value oracles, arguments aliasing the container's own element) · ha_ the element-moving
 * algorithms over Handles · ik_alias aliasing arguments of inplace_vector / stack.  pair/tuple are NOT covered: their element lifetimes are compiler-generated
 * member construction/destruction which cxx2c itself synthesises (that would verify the extractor, not tetl).
 * kind=F groups carry unwind=7 only for the constant-bound loops of the ghost registry (NOUT, NSLOT); the library code under test is
 * loop-free there.  etl::rotate is recursive: its recursion depth is bounded by unwindset (<= N), unwinding assertions stay on.
 * The payload of Tracked is one byte (see driver.cpp: cxx2c does not lower alignas); the family is lowered with -fno-exceptions
 * (the try/catch branch of uninitialized_copy/move is not lowerable; element special members are non-throwing by the property's quantifier). */
#define N VF_N
#define CAT_(a, b) a##b
#define CAT(a, b) CAT_(a, b)
/* C05: what the assertion handler checks when a violation harness expects it (defined below, after the registry) */
static void vf_handler_check(void);
#define VF_HANDLER_CHECK() vf_handler_check()
#include "vf_handler.h"
typedef signed char id_type;

/* ---- ghost liveness registry ------------------------------------------------------------------------------------------ */
#define NREG 3
#define NSLOT 4
#define NOUT 6
typedef struct { const void *base; unsigned long stride, count; } vf_region;
vf_region vf_reg[NREG];
unsigned char vf_live[NREG][NSLOT];
const void *vf_out_addr[NOUT];
unsigned char vf_out_tag[NOUT];
int outside_live;

static int vf_slot_of(const void *p, int *r) {
  for (int k = 0; k < NREG; ++k) if (vf_reg[k].base && __CPROVER_same_object(p, vf_reg[k].base)) {
    unsigned long po = __CPROVER_POINTER_OFFSET(p), bo = __CPROVER_POINTER_OFFSET(vf_reg[k].base);
    if (po >= bo && po - bo < vf_reg[k].stride * vf_reg[k].count) {
      __CPROVER_assert((po - bo) % vf_reg[k].stride == 0, "C03: an object inside the element storage sits exactly on an element slot");
      *r = k; return (int)((po - bo) / vf_reg[k].stride); } }
  return -1; }
static int vf_out_find(const void *p, int tag) { for (int i = 0; i < NOUT; ++i) if (vf_out_tag[i] == tag && vf_out_addr[i] == p) return i; return -1; }
static int vf_out_any(const void *p) { for (int i = 0; i < NOUT; ++i) if (vf_out_tag[i] != 0 && vf_out_addr[i] == p) return i; return -1; }
static void vf_ctor(const void *p, int tag) { int r; int s = vf_slot_of(p, &r);
  if (s >= 0) { __CPROVER_assert(vf_live[r][s] == 0, "C03: constructor on storage that already holds a live element"); vf_live[r][s] = (unsigned char)tag; return; }
  __CPROVER_assert(vf_out_any(p) < 0, "C03: constructor on a live object outside the element storage");
  int i; for (i = 0; i < NOUT && vf_out_tag[i] != 0; ++i) ; __CPROVER_assert(i < NOUT, "ghost address table is large enough");
  if (i < NOUT) { vf_out_addr[i] = p; vf_out_tag[i] = (unsigned char)tag; ++outside_live; } }
static void vf_dtor(const void *p, int tag) { int r; int s = vf_slot_of(p, &r);
  if (s >= 0) { __CPROVER_assert(vf_live[r][s] == tag, "C03: destructor on dead storage / double destroy"); vf_live[r][s] = 0; return; }
  int i = vf_out_find(p, tag); __CPROVER_assert(i >= 0, "C03: destructor on a dead object outside the element storage / double destroy");
  if (i >= 0) { vf_out_tag[i] = 0; --outside_live; } }
/* a member function (copy/move source, assignment target, comparison operand) on storage that holds no object reads an indeterminate
 * value: the same condition is stated once for C03 and once for C02 (an assertion tagged Cxx counts for that property only) */
static void vf_use(const void *p, int tag) { int r; int s = vf_slot_of(p, &r);
  if (s >= 0) { __CPROVER_assert(vf_live[r][s] == tag, "C03: member function on dead storage");
    __CPROVER_assert(vf_live[r][s] == tag, "C02: an element member function reads storage that holds no object (never constructed / already destroyed)"); return; }
  __CPROVER_assert(vf_out_find(p, tag) >= 0, "C03: member function on a dead object outside the element storage");
  __CPROVER_assert(vf_out_find(p, tag) >= 0, "C02: an element member function reads an object outside the element storage that is not alive"); }
void _ZN2vf6g_ctorEPKvi(void *p, int tag) { vf_ctor(p, tag); }
void _ZN2vf6g_dtorEPKvi(void *p, int tag) { vf_dtor(p, tag); }
void _ZN2vf5g_useEPKvi(void *p, int tag) { vf_use(p, tag); }
/* a live object owned by the harness (argument of the call) */
static void vf_out_add(const void *p, int tag) { int i; for (i = 0; i < NOUT && vf_out_tag[i] != 0; ++i) ; vf_out_addr[i] = p; vf_out_tag[i] = (unsigned char)tag; ++outside_live; }
static _Bool vf_out_live(const void *p, int tag) { return vf_out_find(p, tag) >= 0; }
static void vf_region_set(int k, const void *base, unsigned long stride, unsigned long count) { vf_reg[k].base = base; vf_reg[k].stride = stride; vf_reg[k].count = count; }
static _Bool vf_all_dead(int k) { for (int i = 0; i < NSLOT; ++i) if (vf_live[k][i] != 0) return 0; return 1; }
/* a source range of n live elements owned by the harness: region k, every slot < n live */
static void vf_region_live_prefix(int k, unsigned long n, int tag) { for (int i = 0; i < NSLOT; ++i) vf_live[k][i] = (unsigned long)i < n ? (unsigned char)tag : 0; }
static _Bool vf_region_is_prefix(int k, unsigned long n, int tag) { for (int i = 0; i < NSLOT; ++i) if (vf_live[k][i] != ((unsigned long)i < n ? tag : 0)) return 0; return 1; }

/* ---- C05 snapshot: when the handler runs for an expected violation, the owner (all bytes), the argument and the ghost registry
 * (every slot state, the table of outside objects) are exactly what they were before the call: nothing constructed, destroyed, moved */
#define SNAPMAX 8
unsigned char vf_snap[SNAPMAX]; const unsigned char *vf_snap_of; unsigned long vf_snap_n;
unsigned char vf_snap_live[NREG][NSLOT]; unsigned char vf_snap_out_tag[NOUT]; int vf_snap_outside;
const id_type *vf_snap_arg_of; id_type vf_snap_arg;
/* vf_snap_storage_only: a forwarding layer without a precondition of its own (flat_set::insert/emplace builds the key in a local before
 * the container's check fires) may hold live temporaries and may have moved from an rvalue argument; the element storage is compared */
_Bool vf_snap_storage_only;
static _Bool vf_registry_unchanged(void) { _Bool same = vf_snap_storage_only || outside_live == vf_snap_outside;
  for (int k = 0; k < NREG; ++k) for (int i = 0; i < NSLOT; ++i) same = same && vf_live[k][i] == vf_snap_live[k][i];
  for (int i = 0; i < NOUT; ++i) same = same && (vf_snap_storage_only || vf_out_tag[i] == vf_snap_out_tag[i]);
  return same; }
static void vf_handler_check(void) {
  if (vf_snap_of) { _Bool same = 1; for (int i = 0; i < SNAPMAX; ++i) if ((unsigned long)i < vf_snap_n) same = same && vf_snap_of[i] == vf_snap[i];
    __CPROVER_assert(same, "C05: the object is unmodified (every byte) when the assertion handler runs"); }
  if (vf_snap_arg_of) __CPROVER_assert(*vf_snap_arg_of == vf_snap_arg, "C05: the argument is unmodified (not moved from) when the assertion handler runs");
  __CPROVER_assert(vf_registry_unchanged(), "C05: no element was constructed or destroyed before the assertion handler runs (ghost registry unmodified)"); }
static void vf_expect(const void *obj, unsigned long n, const id_type *arg) { vf_expect_handler = 1; vf_snap_of = (const unsigned char *)obj; vf_snap_n = n;
  __CPROVER_assert(n <= SNAPMAX, "snapshot buffer is large enough");
  for (int i = 0; i < SNAPMAX; ++i) if (obj && (unsigned long)i < n) vf_snap[i] = vf_snap_of[i];
  for (int k = 0; k < NREG; ++k) for (int i = 0; i < NSLOT; ++i) vf_snap_live[k][i] = vf_live[k][i];
  for (int i = 0; i < NOUT; ++i) vf_snap_out_tag[i] = vf_out_tag[i];
  vf_snap_outside = outside_live; vf_snap_arg_of = arg; if (arg) vf_snap_arg = *arg; }
#define EXPECT_VIOLATION(o) vf_expect(&(o), sizeof (o), 0)
#define EXPECT_VIOLATION_ARG(o, x) vf_expect(&(o), sizeof (o), &(x).id)
#define EXPECT_VIOLATION_RAW() vf_expect(0, 0, 0)   /* construction of a new object: only the registry is compared */

#define LEAKFREE(out0) VF_ASSERT(outside_live == (out0), "C03: no leaked temporary and no destroyed argument: the number of live objects outside the element storage is back to its entry value")

/* ---- static_vector<Tracked,N> ----------------------------------------------------------------------------------------- */
typedef struct vf_Tracked T;
typedef struct CAT(etl_static_vector_vf_Tracked_, VF_N) V;
typedef struct { unsigned long n; id_type a[N + 1]; } view_t;
#define SZ(v) ((v).b0._size)
#define ELP(v, i) ((T *)&(v).b0._data[i])
static view_t view_of(const V *v) { view_t w; w.n = SZ(*v); for (int i = 0; i < N; ++i) w.a[i] = (unsigned long)i < w.n ? ELP(*v, i)->id : 0; w.a[N] = 0; return w; }
static _Bool view_eq(view_t x, view_t y) { if (x.n != y.n) return 0; for (int i = 0; i < N; ++i) if ((unsigned long)i < x.n && x.a[i] != y.a[i]) return 0; return 1; }
static view_t sp_insert_n(view_t o, unsigned long p, unsigned long c, id_type x) { view_t r; r.n = o.n + c;
  for (int i = 0; i <= N; ++i) { unsigned long k = (unsigned long)i; r.a[i] = k < p ? o.a[i] : (k < p + c ? x : (k < r.n && k - c <= N ? o.a[k - c] : 0)); } return r; }
static view_t sp_insert_range(view_t o, unsigned long p, const T *src, unsigned long c) { view_t r; r.n = o.n + c;
  for (int i = 0; i <= N; ++i) { unsigned long k = (unsigned long)i; r.a[i] = k < p ? o.a[i] : (k < p + c ? src[k - p].id : (k < r.n && k - c <= N ? o.a[k - c] : 0)); } return r; }
static view_t sp_erase(view_t o, unsigned long f, unsigned long l) { view_t r; r.n = o.n - (l - f);
  for (int i = 0; i <= N; ++i) { unsigned long k = (unsigned long)i; r.a[i] = k < f ? o.a[i] : (k < r.n && k + (l - f) <= N ? o.a[k + (l - f)] : 0); } return r; }
static view_t sp_resize(view_t o, unsigned long m, id_type x) { view_t r; r.n = m; for (int i = 0; i <= N; ++i) r.a[i] = (unsigned long)i < o.n ? o.a[i] : x; return r; }
/* owner k: arbitrary state satisfying the representation invariant live[slot] <=> slot < size */
static void own_vec(int k, V *v) { vf_region_set(k, ELP(*v, 0), sizeof(T), N); __CPROVER_assume(SZ(*v) <= N); vf_region_live_prefix(k, SZ(*v), 1); }
/* indeterminate storage about to be constructed: nothing alive */
static void raw_vec(int k, V *v) { vf_region_set(k, ELP(*v, 0), sizeof(T), N); vf_region_live_prefix(k, 0, 1); }
static _Bool inv_vec(int k, const V *v) { return SZ(*v) <= N && vf_region_is_prefix(k, SZ(*v), 1); }
#define ARBV(k, v) VF_INPUT(V, v); own_vec(k, &v)
#define ARG(x) VF_INPUT(T, x); vf_out_add(&x, 1)
#define INVV(k, v) VF_ASSERT(inv_vec(k, &(v)), "C03: representation invariant after the operation: live[slot] <=> slot < size")
#define DESTROYV(k, v) do { tv_dtor(&(v)); VF_ASSERT(vf_all_dead(k), "C03: nothing alive once the owner is destroyed"); } while (0)
/* source range: a harness-owned array of c live elements (region 1) */
#define SRC(c) VF_INPUT_ARR(T, src, N); vf_region_set(1, src, sizeof(T), N); vf_region_live_prefix(1, (c), 1)
#define SRC_INTACT(c) VF_ASSERT(vf_region_is_prefix(1, (c), 1), "C03: exactly the elements of the source range are still alive")

/*@GROUP name=v_default_dtor props=C03,C02 kind=K unwind=7 unwindset=_ZN3etl6rotateIPN2vf7TrackedEEET_S4_S4_S4_:4 objbits=12@*/
void h_v_default_dtor(void) { VF_INPUT(V, v); raw_vec(0, &v); tv_default(&v); INVV(0, v); VF_ASSERT(SZ(v) == 0, "default construction: empty"); LEAKFREE(0);
  VF_INPUT(V, w); own_vec(1, &w); DESTROYV(1, w); LEAKFREE(0); DESTROYV(0, v); VF_REACH(); }

/*@GROUP name=v_push_back props=C03,C02 kind=K unwind=7 unwindset=_ZN3etl6rotateIPN2vf7TrackedEEET_S4_S4_S4_:4 objbits=12@*/
void h_v_push_back(void) { ARBV(0, v); ARG(x); VF_INPUT(unsigned char, which); __CPROVER_assume(SZ(v) < N); view_t o = view_of(&v); id_type xid = x.id;
  if (which == 0) tv_push_back(&v, &x); else if (which == 1) tv_push_back_rv(&v, &x); else tv_emplace_back(&v, xid);
  INVV(0, v); LEAKFREE(1); VF_ASSERT(vf_out_live(&x, 1), "C03: the argument is still alive (moved-from, not destroyed)");
  VF_ASSERT(view_eq(view_of(&v), sp_insert_n(o, o.n, 1, xid)), "push_back/emplace_back: n' = n+1, prefix unchanged, a'[n] = x");
  DESTROYV(0, v); LEAKFREE(1); VF_REACH(); }

/*@GROUP name=v_pop_back props=C03,C02 kind=K unwind=7 unwindset=_ZN3etl6rotateIPN2vf7TrackedEEET_S4_S4_S4_:4 objbits=12@*/
void h_v_pop_back(void) { ARBV(0, v); __CPROVER_assume(SZ(v) > 0); view_t o = view_of(&v); tv_pop_back(&v);
  INVV(0, v); LEAKFREE(0); VF_ASSERT(view_eq(view_of(&v), sp_erase(o, o.n - 1, o.n)), "pop_back: n' = n-1, prefix unchanged"); DESTROYV(0, v); LEAKFREE(0); VF_REACH(); }

/*@GROUP name=v_insert props=C03,C02 kind=K unwind=7 unwindset=_ZN3etl6rotateIPN2vf7TrackedEEET_S4_S4_S4_:4 objbits=12 cost=3@*/
void h_v_insert(void) { ARBV(0, v); ARG(x); VF_INPUT(unsigned char, p); VF_INPUT(unsigned char, which); __CPROVER_assume(SZ(v) < N && p <= SZ(v)); view_t o = view_of(&v); id_type xid = x.id;
  T *r = which == 0 ? tv_insert(&v, ELP(v, p), &x) : (which == 1 ? tv_insert_rv(&v, ELP(v, p), &x) : tv_emplace(&v, ELP(v, p), xid));
  INVV(0, v); LEAKFREE(1); VF_ASSERT(vf_out_live(&x, 1), "C03: the argument is still alive (moved-from, not destroyed)");
  VF_ASSERT(view_eq(view_of(&v), sp_insert_n(o, p, 1, xid)) && r == ELP(v, p), "insert/emplace(pos,x): n' = n+1; prefix; a'[p] = x; suffix shifted up by one; returns begin()+p");
  DESTROYV(0, v); LEAKFREE(1); VF_REACH(); }

/*@GROUP name=v_insert_n props=C03,C02 kind=K unwind=7 unwindset=_ZN3etl6rotateIPN2vf7TrackedEEET_S4_S4_S4_:4 objbits=12 cost=3@*/
void h_v_insert_n(void) { ARBV(0, v); ARG(x); VF_INPUT(unsigned char, p); VF_INPUT(unsigned char, c); __CPROVER_assume(p <= SZ(v) && c <= N && SZ(v) + c <= N); view_t o = view_of(&v); id_type xid = x.id;
  T *r = tv_insert_n(&v, ELP(v, p), c, &x);
  INVV(0, v); LEAKFREE(1); VF_ASSERT(vf_out_live(&x, 1) && x.id == xid, "C03: the copied-from argument is alive and unchanged");
  VF_ASSERT(view_eq(view_of(&v), sp_insert_n(o, p, c, xid)) && r == ELP(v, p), "insert(pos,c,x): n' = n+c; prefix; c copies of x; suffix shifted up by c; returns begin()+p");
  DESTROYV(0, v); LEAKFREE(1); VF_REACH(); }

/*@GROUP name=v_insert_range props=C03,C02 kind=K unwind=7 unwindset=_ZN3etl6rotateIPN2vf7TrackedEEET_S4_S4_S4_:4 objbits=12 cost=3@*/
void h_v_insert_range(void) { ARBV(0, v); VF_INPUT(unsigned char, p); VF_INPUT(unsigned char, c); __CPROVER_assume(p <= SZ(v) && c <= N && SZ(v) + c <= N); SRC(c); view_t o = view_of(&v);
  view_t e = sp_insert_range(o, p, src, c);
  T *r = tv_insert_range(&v, ELP(v, p), src, src + c);
  INVV(0, v); LEAKFREE(0); SRC_INTACT(c);
  VF_ASSERT(view_eq(view_of(&v), e) && r == ELP(v, p), "insert(pos,first,last): n' = n+c; prefix; the source range in order; suffix shifted up by c; returns begin()+p");
  DESTROYV(0, v); LEAKFREE(0); SRC_INTACT(c); VF_REACH(); }

/*@GROUP name=v_erase props=C03,C02 kind=K unwind=7 unwindset=_ZN3etl6rotateIPN2vf7TrackedEEET_S4_S4_S4_:4 objbits=12@*/
void h_v_erase(void) { ARBV(0, v); VF_INPUT(unsigned char, f); VF_INPUT(unsigned char, l); VF_INPUT_BOOL(single); __CPROVER_assume(f <= l && l <= SZ(v)); if (single) __CPROVER_assume(l == f + 1); view_t o = view_of(&v);
  T *r = single ? tv_erase(&v, ELP(v, f)) : tv_erase_range(&v, ELP(v, f), ELP(v, l));
  INVV(0, v); LEAKFREE(0);
  VF_ASSERT(view_eq(view_of(&v), sp_erase(o, f, l)) && r == ELP(v, f), "erase(pos) / erase(first,last): n' = n-(l-f); prefix; suffix shifted down; returns begin()+f");
  DESTROYV(0, v); LEAKFREE(0); VF_REACH(); }

/*@GROUP name=v_resize props=C03,C02 kind=K unwind=7 unwindset=_ZN3etl6rotateIPN2vf7TrackedEEET_S4_S4_S4_:4 objbits=12 cost=2@*/
void h_v_resize(void) { ARBV(0, v); ARG(x); VF_INPUT(unsigned char, m); VF_INPUT_BOOL(with_value); __CPROVER_assume(m <= N); view_t o = view_of(&v); id_type xid = x.id;
  if (with_value) tv_resize_x(&v, m, &x); else tv_resize(&v, m);
  INVV(0, v); LEAKFREE(1); VF_ASSERT(vf_out_live(&x, 1) && x.id == xid, "C03: the copied-from argument is alive and unchanged");
  VF_ASSERT(view_eq(view_of(&v), sp_resize(o, m, with_value ? xid : 0)), "resize(m[,x]): n' = m; common prefix kept; new slots are T{} / x");
  DESTROYV(0, v); LEAKFREE(1); VF_REACH(); }

/*@GROUP name=v_assign props=C03,C02 kind=K unwind=7 unwindset=_ZN3etl6rotateIPN2vf7TrackedEEET_S4_S4_S4_:4 objbits=12 cost=2@*/
void h_v_assign(void) { ARBV(0, v); ARG(x); VF_INPUT(unsigned char, c); VF_INPUT_BOOL(range); __CPROVER_assume(c <= N); SRC(range ? c : 0); view_t e; e.n = 0; id_type xid = x.id;
  view_t er = sp_insert_range(e, 0, src, c);
  if (range) tv_assign_range(&v, src, src + c); else tv_assign_n(&v, c, &x);
  INVV(0, v); LEAKFREE(1); SRC_INTACT(range ? c : 0); VF_ASSERT(vf_out_live(&x, 1) && x.id == xid, "C03: the copied-from argument is alive and unchanged");
  VF_ASSERT(view_eq(view_of(&v), range ? er : sp_resize(e, c, xid)), "assign(c,x) / assign(first,last): exactly c copies of x / the source range");
  DESTROYV(0, v); LEAKFREE(1); VF_REACH(); }

/*@GROUP name=v_clear props=C03,C02 kind=K unwind=7 unwindset=_ZN3etl6rotateIPN2vf7TrackedEEET_S4_S4_S4_:4 objbits=12@*/
void h_v_clear(void) { ARBV(0, v); tv_clear(&v); INVV(0, v); VF_ASSERT(SZ(v) == 0, "clear: empty"); LEAKFREE(0); DESTROYV(0, v); VF_REACH(); }

/*@GROUP name=v_ctors props=C03,C02 kind=K unwind=7 unwindset=_ZN3etl6rotateIPN2vf7TrackedEEET_S4_S4_S4_:4 objbits=12 cost=2@*/
void h_v_ctors(void) { VF_INPUT(V, v); raw_vec(0, &v); ARG(x); VF_INPUT(unsigned char, m); VF_INPUT(unsigned char, which); __CPROVER_assume(m <= N && which <= 2); SRC(which == 2 ? m : 0); view_t e; e.n = 0; id_type xid = x.id;
  view_t er = sp_insert_range(e, 0, src, m);
  if (which == 0) tv_ctor_n(&v, m); else if (which == 1) tv_ctor_n_x(&v, m, &x); else tv_ctor_range(&v, src, src + m);
  INVV(0, v); LEAKFREE(1); SRC_INTACT(which == 2 ? m : 0); VF_ASSERT(vf_out_live(&x, 1) && x.id == xid, "C03: the copied-from argument is alive and unchanged");
  VF_ASSERT(view_eq(view_of(&v), which == 0 ? sp_resize(e, m, 0) : (which == 1 ? sp_resize(e, m, xid) : er)), "static_vector(n) / (n,x) / (first,last)");
  DESTROYV(0, v); LEAKFREE(1); VF_REACH(); }

/*@GROUP name=v_copy_move props=C03,C02 kind=K unwind=7 unwindset=_ZN3etl6rotateIPN2vf7TrackedEEET_S4_S4_S4_:4 objbits=12 cost=3@*/
void h_v_copy_move(void) { ARBV(1, s); VF_INPUT(V, t); VF_INPUT(unsigned char, which); ARG(x); __CPROVER_assume(which <= 3); view_t os = view_of(&s);
  if (which == 0) { raw_vec(0, &t); tv_copy_ctor(&t, &s); }
  else if (which == 1) { own_vec(0, &t); tv_copy_assign(&t, &s); }
  else if (which == 2) { raw_vec(0, &t); tv_move_ctor(&t, &s); }
  else { own_vec(0, &t); tv_move_assign(&t, &s); }
  INVV(0, t); INVV(1, s); LEAKFREE(1);
  VF_ASSERT(view_eq(view_of(&t), os), "copy/move construction and assignment: target view == source view");
  if (which <= 1) VF_ASSERT(view_eq(view_of(&s), os), "copy leaves the source view unchanged");
  /* the copied-from / moved-from source stays a valid object: assignable, usable, destructible */
  VF_INPUT_BOOL(reassign); if (reassign) { tv_copy_assign(&s, &t); INVV(1, s); VF_ASSERT(view_eq(view_of(&s), os), "assignment to the moved-from source"); }
  else if (SZ(s) < N) { tv_push_back(&s, &x); INVV(1, s); }
  LEAKFREE(1); DESTROYV(1, s); INVV(0, t); VF_ASSERT(view_eq(view_of(&t), os), "destroying the source leaves the target alone"); DESTROYV(0, t); LEAKFREE(1); VF_REACH(); }

/*@GROUP name=v_self_assign props=C03,C02 kind=K unwind=7 unwindset=_ZN3etl6rotateIPN2vf7TrackedEEET_S4_S4_S4_:4 objbits=12@*/
void h_v_self_assign(void) { ARBV(0, s); view_t os = view_of(&s); VF_INPUT_BOOL(mv); if (mv) tv_move_assign(&s, &s); else tv_copy_assign(&s, &s);
  INVV(0, s); LEAKFREE(0); VF_KNOWN(C01_self_copy_assign, !mv && os.n > 0); if (!mv) VF_ASSERT(view_eq(view_of(&s), os), "copy self-assignment keeps the view");
  DESTROYV(0, s); LEAKFREE(0); VF_REACH(); }

/*@GROUP name=v_swap props=C03,C02 kind=K unwind=7 unwindset=_ZN3etl6rotateIPN2vf7TrackedEEET_S4_S4_S4_:4 objbits=12 cost=3@*/
void h_v_swap(void) { ARBV(0, a); ARBV(1, b); VF_INPUT_BOOL(fr); view_t oa = view_of(&a), ob = view_of(&b); if (fr) tv_swap_free(&a, &b); else tv_swap(&a, &b);
  INVV(0, a); INVV(1, b); LEAKFREE(0); VF_ASSERT(view_eq(view_of(&a), ob) && view_eq(view_of(&b), oa), "swap exchanges the two views");
  DESTROYV(0, a); INVV(1, b); DESTROYV(1, b); LEAKFREE(0); VF_REACH(); }

/*@GROUP name=v_self_swap props=C03,C02 kind=K unwind=7 unwindset=_ZN3etl6rotateIPN2vf7TrackedEEET_S4_S4_S4_:4 objbits=12@*/
void h_v_self_swap(void) { ARBV(0, a); view_t oa = view_of(&a); tv_swap(&a, &a); INVV(0, a); LEAKFREE(0); VF_ASSERT(view_eq(view_of(&a), oa), "self-swap keeps the view"); DESTROYV(0, a); LEAKFREE(0); VF_REACH(); }

/*@GROUP name=v_erase_value props=C03,C02 kind=K unwind=7 unwindset=_ZN3etl6rotateIPN2vf7TrackedEEET_S4_S4_S4_:4 objbits=12 cost=2@*/
void h_v_erase_value(void) { ARBV(0, v); ARG(x); view_t o = view_of(&v); view_t e; e.n = 0; id_type xid = x.id;
  for (int i = 0; i < N; ++i) if ((unsigned long)i < o.n && !(o.a[i] == xid)) { e.a[e.n] = o.a[i]; ++e.n; }
  unsigned long r = tv_erase_value(&v, &x);
  INVV(0, v); LEAKFREE(1); VF_ASSERT(view_eq(view_of(&v), e) && r == o.n - e.n, "erase(c,value): exactly the non-matching elements survive, in order; returns the number removed");
  DESTROYV(0, v); LEAKFREE(1); VF_REACH(); }

/*@COMMON@*/
/* ---- optional<Tracked>: the value slot is alive <=> has_value() (the underlying variant<nullopt_t,T> has index 1) ------ */
typedef struct etl_optional_vf_Tracked O;
#define OIDX(o) ((o)._var._index)
#define OEL(o) (&(o)._var._union.tail.head)
typedef struct { _Bool has; id_type id; } oview_t;
static oview_t oview_of(const O *o) { oview_t w; w.has = OIDX(*o) == 1; w.id = w.has ? OEL(*o)->id : 0; return w; }
static _Bool oview_eq(oview_t x, oview_t y) { return x.has == y.has && (!x.has || x.id == y.id); }
static void own_opt(int k, O *o) { vf_region_set(k, OEL(*o), sizeof(T), 1); __CPROVER_assume(OIDX(*o) <= 1); vf_region_live_prefix(k, OIDX(*o) == 1, 1); }
static void raw_opt(int k, O *o) { vf_region_set(k, OEL(*o), sizeof(T), 1); vf_region_live_prefix(k, 0, 1); }
static _Bool inv_opt(int k, const O *o) { return OIDX(*o) <= 1 && vf_region_is_prefix(k, OIDX(*o) == 1, 1); }
#define ARBO(k, o) VF_INPUT(O, o); own_opt(k, &o)
#define INVO(k, o) VF_ASSERT(inv_opt(k, &(o)), "C03: representation invariant after the operation: the value slot is alive <=> has_value()")
#define DESTROYO(k, o) do { to_dtor(&(o)); VF_ASSERT(vf_all_dead(k), "C03: nothing alive once the owner is destroyed"); } while (0)

/*@GROUP name=o_ctors props=C03,C02 kind=F unwind=7 objbits=12@*/
void h_o_ctors(void) { VF_INPUT(O, o); raw_opt(0, &o); ARG(x); VF_INPUT(unsigned char, which); __CPROVER_assume(which <= 4); id_type xid = x.id;
  if (which == 0) to_default(&o); else if (which == 1) to_nullopt(&o); else if (which == 2) to_value(&o, &x); else if (which == 3) to_value_rv(&o, &x); else to_in_place(&o, xid);
  INVO(0, o); LEAKFREE(1); VF_ASSERT(vf_out_live(&x, 1), "C03: the argument is still alive");
  oview_t e; e.has = which >= 2; e.id = xid; VF_ASSERT(oview_eq(oview_of(&o), e) && to_has_value(&o) == e.has, "optional(), optional(nullopt): disengaged; optional(x), optional(in_place, i): engaged with the value");
  if (e.has) VF_ASSERT(to_arrow(&o) == OEL(o) && to_deref(&o) == OEL(o), "operator-> and operator* address the contained value");
  DESTROYO(0, o); LEAKFREE(1); VF_REACH(); }

/*@GROUP name=o_copy_move props=C03,C02 kind=F unwind=7 objbits=12@*/
void h_o_copy_move(void) { ARBO(1, s); VF_INPUT(O, t); VF_INPUT(unsigned char, which); __CPROVER_assume(which <= 3); oview_t os = oview_of(&s); VF_INPUT(id_type, i);
  if (which == 0) { raw_opt(0, &t); to_copy_ctor(&t, &s); }
  else if (which == 1) { own_opt(0, &t); to_copy_assign(&t, &s); }
  else if (which == 2) { raw_opt(0, &t); to_move_ctor(&t, &s); }
  else { own_opt(0, &t); to_move_assign(&t, &s); }
  INVO(0, t); INVO(1, s); LEAKFREE(0);
  VF_ASSERT(oview_eq(oview_of(&t), os), "copy/move construction and assignment over all four (engaged, disengaged) pairs: target == source");
  VF_ASSERT(oview_of(&s).has == os.has, "the source keeps its engaged state (moved-from value, not destroyed)");
  if (which <= 1) VF_ASSERT(oview_eq(oview_of(&s), os), "copy leaves the source unchanged");
  /* the copied-from / moved-from source stays a valid object: assignable, destructible */
  VF_INPUT(unsigned char, then); if (then == 0) { to_copy_assign(&s, &t); INVO(1, s); VF_ASSERT(oview_eq(oview_of(&s), os), "assignment to the moved-from source"); }
  else if (then == 1) { to_emplace(&s, i); INVO(1, s); } else if (then == 2) { to_reset(&s); INVO(1, s); }
  LEAKFREE(0); DESTROYO(1, s); INVO(0, t); VF_ASSERT(oview_eq(oview_of(&t), os), "destroying the source leaves the target alone"); DESTROYO(0, t); LEAKFREE(0); VF_REACH(); }

/*@GROUP name=o_modify props=C03,C02 kind=F unwind=7 objbits=12@*/
void h_o_modify(void) { ARBO(0, o); ARG(x); VF_INPUT(unsigned char, which); __CPROVER_assume(which <= 4); id_type xid = x.id; oview_t e; e.has = which >= 2; e.id = xid; T *r = OEL(o);
  if (which == 0) to_reset(&o); else if (which == 1) to_assign_nullopt(&o); else if (which == 2) to_assign_value(&o, &x); else if (which == 3) to_assign_value_rv(&o, &x); else r = to_emplace(&o, xid);
  INVO(0, o); LEAKFREE(1); VF_ASSERT(vf_out_live(&x, 1), "C03: the argument is still alive");
  VF_ASSERT(oview_eq(oview_of(&o), e) && r == OEL(o), "reset / = nullopt: disengaged; = x / emplace(i): engaged with the value, emplace returns the contained value");
  DESTROYO(0, o); LEAKFREE(1); VF_REACH(); }

/*@GROUP name=o_swap props=C03,C02 kind=F unwind=7 objbits=12@*/
void h_o_swap(void) { ARBO(0, a); ARBO(1, b); oview_t oa = oview_of(&a), ob = oview_of(&b); to_swap(&a, &b);
  INVO(0, a); INVO(1, b); LEAKFREE(0); VF_ASSERT(oview_eq(oview_of(&a), ob) && oview_eq(oview_of(&b), oa), "swap exchanges state and value over all four pairs");
  DESTROYO(0, a); INVO(1, b); DESTROYO(1, b); LEAKFREE(0); VF_REACH(); }

/*@GROUP name=o_self props=C03,C02 kind=F unwind=7 objbits=12@*/
void h_o_self(void) { ARBO(0, a); oview_t oa = oview_of(&a); VF_INPUT(unsigned char, which); __CPROVER_assume(which <= 2);
  if (which == 0) to_copy_assign(&a, &a); else if (which == 1) to_move_assign(&a, &a); else to_swap(&a, &a);
  INVO(0, a); LEAKFREE(0); VF_ASSERT(oview_eq(oview_of(&a), oa), "self-assignment and self-swap leave the value unchanged");
  DESTROYO(0, a); LEAKFREE(0); VF_REACH(); }

/*@COMMON@*/
/* ---- variant<int,Tracked,Tracked2> and expected<Tracked,Tracked2>: exactly the alternative selected by _index is alive ---- */
typedef struct vf_Tracked2 T2;
typedef struct etl_variant_int_vf_Tracked_vf_Tracked2 W;
typedef struct etl_expected_vf_Tracked_vf_Tracked2 X;
#define WIDX(w) ((w)._index)
#define WI(w) ((w)._union.head)
#define W1(w) (&(w)._union.tail.head)
#define W2(w) (&(w)._union.tail.tail.head)
#define ARG2(x) VF_INPUT(T2, x); vf_out_add(&x, 2)
typedef struct { unsigned idx; int val; } wview_t;
static wview_t wview_of(const W *w) { wview_t v; v.idx = WIDX(*w); v.val = v.idx == 0 ? WI(*w) : (v.idx == 1 ? W1(*w)->id : W2(*w)->id); return v; }
static _Bool wview_eq(wview_t x, wview_t y) { return x.idx == y.idx && x.val == y.val; }
/* the union is ONE slot whose state byte is the tag of the live object: 0 for the int alternative, 1 Tracked, 2 Tracked2 (tag == index) */
static void own_var(int k, W *w) { vf_region_set(k, &w->_union, sizeof w->_union, 1); __CPROVER_assume(WIDX(*w) <= 2); vf_region_live_prefix(k, 0, 0); vf_live[k][0] = WIDX(*w); }
static void raw_var(int k, W *w) { vf_region_set(k, &w->_union, sizeof w->_union, 1); vf_region_live_prefix(k, 0, 0); }
static _Bool inv_var(int k, const W *w) { return WIDX(*w) <= 2 && vf_live[k][0] == WIDX(*w) && vf_live[k][1] == 0 && vf_live[k][2] == 0 && vf_live[k][3] == 0; }
#define ARBW(k, w) VF_INPUT(W, w); own_var(k, &w)
#define INVW(k, w) VF_ASSERT(inv_var(k, &(w)), "C03: representation invariant after the operation: exactly the alternative selected by index() is alive")
#define DESTROYW(k, w) do { tw_dtor(&(w)); VF_ASSERT(vf_all_dead(k), "C03: nothing alive once the owner is destroyed"); } while (0)
/* expected<T,E>: index 0 = value (tag 1), index 1 = error (tag 2) */
#define XIDX(x) ((x)._u._index)
#define XV(x) (&(x)._u._union.head)
#define XE(x) (&(x)._u._union.tail.head)
static wview_t xview_of(const X *x) { wview_t v; v.idx = XIDX(*x); v.val = v.idx == 0 ? XV(*x)->id : XE(*x)->id; return v; }
static void own_exp(int k, X *x) { vf_region_set(k, &x->_u._union, sizeof x->_u._union, 1); __CPROVER_assume(XIDX(*x) <= 1); vf_region_live_prefix(k, 0, 0); vf_live[k][0] = XIDX(*x) + 1; }
static void raw_exp(int k, X *x) { vf_region_set(k, &x->_u._union, sizeof x->_u._union, 1); vf_region_live_prefix(k, 0, 0); }
static _Bool inv_exp(int k, const X *x) { return XIDX(*x) <= 1 && vf_live[k][0] == XIDX(*x) + 1 && vf_live[k][1] == 0 && vf_live[k][2] == 0 && vf_live[k][3] == 0; }
#define ARBX(k, x) VF_INPUT(X, x); own_exp(k, &x)
#define INVX(k, x) VF_ASSERT(inv_exp(k, &(x)), "C03: representation invariant after the operation: the value is alive <=> has_value(), else exactly the error is alive")
#define DESTROYX(k, x) do { tx_dtor(&(x)); VF_ASSERT(vf_all_dead(k), "C03: nothing alive once the owner is destroyed"); } while (0)

/*@GROUP name=w_ctors props=C03,C02 kind=F unwind=7 objbits=12@*/
void h_w_ctors(void) { VF_INPUT(W, w); raw_var(0, &w); ARG(x); ARG2(y); VF_INPUT(int, i); VF_INPUT(unsigned char, which); __CPROVER_assume(which <= 5); id_type xid = x.id, yid = y.id;
  if (which == 0) tw_default(&w); else if (which == 1) tw_ctor_int(&w, i); else if (which == 2) tw_ctor_t1(&w, &x); else if (which == 3) tw_ctor_t2_rv(&w, &y); else if (which == 4) tw_in_place1(&w, xid); else tw_in_place2(&w, yid);
  INVW(0, w); LEAKFREE(2); VF_ASSERT(vf_out_live(&x, 1) && vf_out_live(&y, 2), "C03: the arguments are still alive");
  wview_t e; e.idx = which <= 1 ? 0 : (which == 2 || which == 4 ? 1 : 2); e.val = which == 0 ? 0 : (which == 1 ? i : (e.idx == 1 ? xid : yid));
  VF_ASSERT(wview_eq(wview_of(&w), e) && tw_index(&w) == e.idx, "variant(), variant(T&&), variant(in_place_index/type, args): the selected alternative holds the value");
  DESTROYW(0, w); LEAKFREE(2); VF_REACH(); }

/*@GROUP name=w_copy_move props=C03,C02 kind=F unwind=7 objbits=12 cost=2@*/
void h_w_copy_move(void) { ARBW(1, s); VF_INPUT(W, t); VF_INPUT(unsigned char, which); __CPROVER_assume(which <= 3); wview_t os = wview_of(&s); VF_INPUT(id_type, i);
  if (which == 0) { raw_var(0, &t); tw_copy_ctor(&t, &s); }
  else if (which == 1) { own_var(0, &t); tw_copy_assign(&t, &s); }
  else if (which == 2) { raw_var(0, &t); tw_move_ctor(&t, &s); }
  else { own_var(0, &t); tw_move_assign(&t, &s); }
  INVW(0, t); INVW(1, s); LEAKFREE(0);
  VF_ASSERT(wview_eq(wview_of(&t), os), "copy/move construction and assignment over all nine (from, to) index pairs: target == source");
  VF_ASSERT(wview_of(&s).idx == os.idx, "the source keeps its alternative (moved-from value, not destroyed)");
  if (which <= 1) VF_ASSERT(wview_eq(wview_of(&s), os), "copy leaves the source unchanged");
  VF_INPUT(unsigned char, then); if (then == 0) { tw_copy_assign(&s, &t); INVW(1, s); VF_ASSERT(wview_eq(wview_of(&s), os), "assignment to the moved-from source"); }
  else if (then == 1) { tw_emplace1(&s, i); INVW(1, s); } else if (then == 2) { tw_emplace0(&s, i); INVW(1, s); }
  LEAKFREE(0); DESTROYW(1, s); INVW(0, t); VF_ASSERT(wview_eq(wview_of(&t), os), "destroying the source leaves the target alone"); DESTROYW(0, t); LEAKFREE(0); VF_REACH(); }

/*@GROUP name=w_emplace props=C03,C02 kind=F unwind=7 objbits=12@*/
void h_w_emplace(void) { ARBW(0, w); ARG(x); ARG2(y); VF_INPUT(int, i); VF_INPUT(unsigned char, which); __CPROVER_assume(which <= 5); id_type xid = x.id, yid = y.id;
  if (which == 0) tw_emplace0(&w, i); else if (which == 1) tw_emplace1(&w, xid); else if (which == 2) tw_emplace2(&w, yid); else if (which == 3) tw_assign_int(&w, i); else if (which == 4) tw_assign_t1(&w, &x); else tw_assign_t2_rv(&w, &y);
  INVW(0, w); LEAKFREE(2); VF_ASSERT(vf_out_live(&x, 1) && vf_out_live(&y, 2), "C03: the arguments are still alive");
  wview_t e; e.idx = which % 3; e.val = e.idx == 0 ? i : (e.idx == 1 ? xid : yid);
  VF_ASSERT(wview_eq(wview_of(&w), e), "emplace<I>/emplace<T>/operator=(T&&) from every alternative: the old alternative is destroyed, the new one holds the value");
  DESTROYW(0, w); LEAKFREE(2); VF_REACH(); }

/*@GROUP name=w_swap props=C03,C02 kind=F unwind=7 objbits=12 cost=2@*/
void h_w_swap(void) { ARBW(0, a); ARBW(1, b); wview_t oa = wview_of(&a), ob = wview_of(&b); tw_swap(&a, &b);
  INVW(0, a); INVW(1, b); LEAKFREE(0); VF_ASSERT(wview_eq(wview_of(&a), ob) && wview_eq(wview_of(&b), oa), "swap exchanges alternative and value over all nine index pairs");
  DESTROYW(0, a); INVW(1, b); DESTROYW(1, b); LEAKFREE(0); VF_REACH(); }

/*@GROUP name=w_self props=C03,C02 kind=F unwind=7 objbits=12@*/
void h_w_self(void) { ARBW(0, a); wview_t oa = wview_of(&a); VF_INPUT(unsigned char, which); __CPROVER_assume(which <= 2);
  if (which == 0) tw_copy_assign(&a, &a); else if (which == 1) tw_move_assign(&a, &a); else tw_swap(&a, &a);
  INVW(0, a); LEAKFREE(0); VF_ASSERT(wview_eq(wview_of(&a), oa), "self-assignment and self-swap leave the value unchanged");
  DESTROYW(0, a); LEAKFREE(0); VF_REACH(); }

/*@GROUP name=x_ctors props=C03,C02 kind=F unwind=7 objbits=12@*/
void h_x_ctors(void) { VF_INPUT(X, x); raw_exp(0, &x); VF_INPUT(id_type, i); VF_INPUT(unsigned char, which); __CPROVER_assume(which <= 2);
  if (which == 0) tx_default(&x); else if (which == 1) tx_in_place(&x, i); else tx_unexpect(&x, i);
  INVX(0, x); LEAKFREE(0); wview_t e; e.idx = which == 2; e.val = which == 0 ? 0 : i;
  VF_ASSERT(wview_eq(xview_of(&x), e) && tx_has_value(&x) == (which != 2), "expected(), expected(in_place, i): value; expected(unexpect, i): error");
  if (which != 2) VF_ASSERT(tx_arrow(&x) == XV(x), "operator-> addresses the value"); else VF_ASSERT(tx_error(&x) == XE(x), "error() addresses the error");
  DESTROYX(0, x); LEAKFREE(0); VF_REACH(); }

/*@GROUP name=x_copy_move props=C03,C02 kind=F unwind=7 objbits=12 cost=2@*/
void h_x_copy_move(void) { ARBX(1, s); VF_INPUT(X, t); VF_INPUT(unsigned char, which); __CPROVER_assume(which <= 3); wview_t os = xview_of(&s); VF_INPUT(id_type, i);
  if (which == 0) { raw_exp(0, &t); tx_copy_ctor(&t, &s); }
  else if (which == 1) { own_exp(0, &t); tx_copy_assign(&t, &s); }
  else if (which == 2) { raw_exp(0, &t); tx_move_ctor(&t, &s); }
  else { own_exp(0, &t); tx_move_assign(&t, &s); }
  INVX(0, t); INVX(1, s); LEAKFREE(0);
  VF_ASSERT(wview_eq(xview_of(&t), os), "copy/move construction and assignment over all four (value, error) pairs: target == source");
  VF_ASSERT(xview_of(&s).idx == os.idx, "the source keeps its state (moved-from, not destroyed)");
  if (which <= 1) VF_ASSERT(wview_eq(xview_of(&s), os), "copy leaves the source unchanged");
  VF_INPUT(unsigned char, then); if (then == 0) { tx_copy_assign(&s, &t); INVX(1, s); VF_ASSERT(wview_eq(xview_of(&s), os), "assignment to the moved-from source"); }
  else if (then == 1) { T *r = tx_emplace(&s, i); INVX(1, s); VF_ASSERT(XIDX(s) == 0 && r == XV(s) && r->id == i, "emplace: holds the value"); }
  LEAKFREE(0); DESTROYX(1, s); INVX(0, t); VF_ASSERT(wview_eq(xview_of(&t), os), "destroying the source leaves the target alone"); DESTROYX(0, t); LEAKFREE(0); VF_REACH(); }

/*@GROUP name=x_swap_self props=C03,C02 kind=F unwind=7 objbits=12 cost=2@*/
void h_x_swap_self(void) { ARBX(0, a); ARBX(1, b); wview_t oa = xview_of(&a), ob = xview_of(&b); VF_INPUT(unsigned char, which); __CPROVER_assume(which <= 3);
  if (which == 0) { tx_swap(&a, &b); VF_ASSERT(wview_eq(xview_of(&a), ob) && wview_eq(xview_of(&b), oa), "swap exchanges state and value over all four pairs"); }
  else { if (which == 1) tx_copy_assign(&a, &a); else if (which == 2) tx_move_assign(&a, &a); else tx_swap(&a, &a);
    VF_ASSERT(wview_eq(xview_of(&a), oa) && wview_eq(xview_of(&b), ob), "self-assignment and self-swap leave the value unchanged"); }
  INVX(0, a); INVX(1, b); LEAKFREE(0); DESTROYX(0, a); INVX(1, b); DESTROYX(1, b); LEAKFREE(0); VF_REACH(); }

/*@COMMON@*/
/* ---- inplace_vector<Tracked,N>: live[slot] <=> slot < size ------------------------------------------------------------- */
typedef struct CAT(etl_inplace_vector_vf_Tracked_, VF_N) IV;
#define ISZ(v) ((v)._size)
#define IELP(v, i) ((T *)&(v)._storage._storage[(i) * sizeof(T)])
static view_t iview_of(const IV *v) { view_t w; w.n = ISZ(*v); for (int i = 0; i < N; ++i) w.a[i] = (unsigned long)i < w.n ? IELP(*v, i)->id : 0; w.a[N] = 0; return w; }
static void own_ipv(int k, IV *v) { vf_region_set(k, IELP(*v, 0), sizeof(T), N); __CPROVER_assume(ISZ(*v) <= N); vf_region_live_prefix(k, ISZ(*v), 1); }
static void raw_ipv(int k, IV *v) { vf_region_set(k, IELP(*v, 0), sizeof(T), N); vf_region_live_prefix(k, 0, 1); }
static _Bool inv_ipv(int k, const IV *v) { return ISZ(*v) <= N && vf_region_is_prefix(k, ISZ(*v), 1); }
#define ARBI(k, v) VF_INPUT(IV, v); own_ipv(k, &v)
#define INVI(k, v) VF_ASSERT(inv_ipv(k, &(v)), "C03: representation invariant after the operation: live[slot] <=> slot < size")
#define DESTROYI(k, v) do { ti_dtor(&(v)); VF_ASSERT(vf_all_dead(k), "C03: nothing alive once the owner is destroyed"); } while (0)

/*@GROUP name=i_ctor_dtor props=C03,C02 kind=K unwind=7 objbits=12@*/
void h_i_ctor_dtor(void) { VF_INPUT(IV, v); raw_ipv(0, &v); ti_value_init(&v); INVI(0, v); VF_ASSERT(ISZ(v) == 0, "inplace_vector(): empty"); LEAKFREE(0);
  ARBI(1, w); DESTROYI(1, w); LEAKFREE(0); DESTROYI(0, v); VF_REACH(); }

/*@GROUP name=i_push_back props=C03,C02 kind=K unwind=7 objbits=12@*/
void h_i_push_back(void) { ARBI(0, v); ARG(x); VF_INPUT(unsigned char, which); __CPROVER_assume(which <= 5); view_t o = iview_of(&v); id_type xid = x.id; if (which >= 3) __CPROVER_assume(ISZ(v) < N);
  T *r = which == 0 ? ti_try_emplace_back(&v, xid) : which == 1 ? ti_try_push_back(&v, &x) : which == 2 ? ti_try_push_back_rv(&v, &x) : which == 3 ? ti_unchecked_emplace_back(&v, xid) : which == 4 ? ti_unchecked_push_back(&v, &x) : ti_unchecked_push_back_rv(&v, &x);
  INVI(0, v); LEAKFREE(1); VF_ASSERT(vf_out_live(&x, 1), "C03: the argument is still alive (moved-from, not destroyed)");
  if (o.n == N) VF_ASSERT(r == 0 && view_eq(iview_of(&v), o), "try_*_back on a full vector: returns nullptr, nothing constructed, contents unchanged");
  else VF_ASSERT(r == IELP(v, o.n) && view_eq(iview_of(&v), sp_insert_n(o, o.n, 1, xid)), "*_back: n' = n+1, prefix unchanged, a'[n] = x, returns the new element");
  DESTROYI(0, v); LEAKFREE(1); VF_REACH(); }

/*@GROUP name=i_pop_clear props=C03,C02 kind=K unwind=7 objbits=12@*/
void h_i_pop_clear(void) { ARBI(0, v); VF_INPUT_BOOL(clr); view_t o = iview_of(&v); view_t e; e.n = 0; if (clr) ti_clear(&v); else { __CPROVER_assume(ISZ(v) > 0); ti_pop_back(&v); }
  INVI(0, v); LEAKFREE(0); VF_ASSERT(view_eq(iview_of(&v), clr ? e : sp_erase(o, o.n - 1, o.n)), "pop_back: n' = n-1, prefix unchanged; clear: empty"); DESTROYI(0, v); LEAKFREE(0); VF_REACH(); }

/*@GROUP name=i_copy_move props=C03,C02 kind=K unwind=7 objbits=12@*/
void h_i_copy_move(void) { ARBI(1, s); VF_INPUT(IV, t); raw_ipv(0, &t); VF_INPUT_BOOL(mv); ARG(x); view_t os = iview_of(&s);
  VF_KNOWN(C03_ipv_move_ctor_leak, mv && os.n > 0);
  if (mv) ti_move_ctor(&t, &s); else ti_copy_ctor(&t, &s);
  INVI(0, t); LEAKFREE(1); VF_ASSERT(view_eq(iview_of(&t), os), "copy/move construction: target view == source view");
  INVI(1, s); if (!mv) VF_ASSERT(view_eq(iview_of(&s), os), "copy leaves the source view unchanged");
  /* the source stays a valid object: usable, destructible */
  if (ISZ(s) < N) { ti_unchecked_push_back(&s, &x); INVI(1, s); }
  LEAKFREE(1); DESTROYI(1, s); INVI(0, t); VF_ASSERT(view_eq(iview_of(&t), os), "destroying the source leaves the target alone"); DESTROYI(0, t); LEAKFREE(1); VF_REACH(); }

/*@COMMON@*/
/* ---- static_set / flat_set / stack over static_vector<Tracked,N>: the element storage is the inner vector's ------------ */
typedef struct CAT(etl_static_set_vf_Tracked_, VF_N) SS;
typedef struct CAT(CAT(etl_flat_set_vf_Tracked_etl_static_vector_vf_Tracked_, VF_N), _vf_TLess) FS;
typedef struct CAT(etl_stack_vf_Tracked_etl_static_vector_vf_Tracked_, VF_N) ST;
static _Bool sorted_unique(view_t o) { for (int i = 0; i + 1 < N; ++i) if ((unsigned long)i + 1 < o.n && !(o.a[i] < o.a[i + 1])) return 0; return 1; }
static unsigned long lb_of(view_t o, id_type x) { unsigned long k = 0; for (int i = 0; i < N; ++i) if ((unsigned long)i < o.n && o.a[i] < x) ++k; return k; }
static _Bool has_of(view_t o, id_type x) { for (int i = 0; i < N; ++i) if ((unsigned long)i < o.n && o.a[i] == x) return 1; return 0; }
/* arbitrary well-formed set: strictly ascending */
#define ARBSET(k, TYPE, s, mem) VF_INPUT(TYPE, s); own_vec(k, &s.mem); __CPROVER_assume(sorted_unique(view_of(&s.mem)))
#define DESTROYS(k, s) do { ts_dtor(&(s)); VF_ASSERT(vf_all_dead(k), "C03: nothing alive once the owner is destroyed"); } while (0)
#define DESTROYF(k, s) do { tf_dtor(&(s)); VF_ASSERT(vf_all_dead(k), "C03: nothing alive once the owner is destroyed"); } while (0)
#define DESTROYK(k, s) do { tk_dtor(&(s)); VF_ASSERT(vf_all_dead(k), "C03: nothing alive once the owner is destroyed"); } while (0)
#define SETVIEW(v, e) VF_ASSERT(sorted_unique(view_of(&(v))) && view_eq(view_of(&(v)), (e)), "set contents: strictly ascending, exactly the expected keys")

/*@COMMON@*/
static void s_insert_body(unsigned char which) { ARBSET(0, SS, s, _storage); ARG(x); view_t o = view_of(&s._storage); id_type xid = x.id; T *pos;
  _Bool r = which == 0 ? ts_insert(&s, &x, &pos) : (which == 1 ? ts_insert_rv(&s, &x, &pos) : ts_emplace(&s, xid, &pos));
  INVV(0, s._storage); LEAKFREE(1); VF_ASSERT(vf_out_live(&x, 1), "C03: the argument is still alive (moved-from, not destroyed)");
  _Bool ins = o.n < N && !has_of(o, xid);
  VF_ASSERT(r == ins, "insert/emplace return true <=> the key was absent and there was room");
  SETVIEW(s._storage, ins ? sp_insert_n(o, lb_of(o, xid), 1, xid) : o);   /* the returned iterator is not checked here: C01, family sets */
  DESTROYS(0, s); LEAKFREE(1); }

/*@GROUP name=s_insert_copy props=C03,C02 kind=K unwind=7 unwindset=_ZN3etl6rotateIPN2vf7TrackedEEET_S4_S4_S4_:4 objbits=12 cost=3@*/
void h_s_insert_copy(void) { s_insert_body(0); VF_REACH(); }
/*@GROUP name=s_insert_move props=C03,C02 kind=K unwind=7 unwindset=_ZN3etl6rotateIPN2vf7TrackedEEET_S4_S4_S4_:4 objbits=12 cost=3@*/
void h_s_insert_move(void) { s_insert_body(1); VF_REACH(); }
/*@GROUP name=s_emplace props=C03,C02 kind=K unwind=7 unwindset=_ZN3etl6rotateIPN2vf7TrackedEEET_S4_S4_S4_:4 objbits=12 cost=3@*/
void h_s_emplace(void) { s_insert_body(2); VF_REACH(); }

/*@COMMON@*/
static void s_range_body(unsigned char maxc) { VF_INPUT(SS, s); VF_INPUT(unsigned char, c); VF_INPUT_BOOL(ctor); __CPROVER_assume(c <= maxc); SRC(c);
  if (ctor) { raw_vec(0, &s._storage); ts_ctor_range(&s, src, src + c); } else { own_vec(0, &s._storage); __CPROVER_assume(sorted_unique(view_of(&s._storage))); ts_insert_range(&s, src, src + c); }
  INVV(0, s._storage); LEAKFREE(0); SRC_INTACT(c); VF_ASSERT(sorted_unique(view_of(&s._storage)), "static_set(first,last) / insert(first,last): strictly ascending");
  for (int i = 0; i < 2; ++i) if (i < c && (SZ(s._storage) < N)) VF_ASSERT(has_of(view_of(&s._storage), src[i].id), "every source key is present when there was room");
  DESTROYS(0, s); LEAKFREE(0); SRC_INTACT(c); }

/*@GROUP name=s_range1 props=C03,C02 kind=B unwind=7 unwindset=_ZN3etl6rotateIPN2vf7TrackedEEET_S4_S4_S4_:4,_ZN3etl10static_setIN2vf7TrackedELm4ENS_4lessIS2_EEE6insertIPKS2_EEvT_S9_.0:2 objbits=12 cost=3 when=VF_N==4 bound=range_length<=1@*/
void h_s_range1(void) { s_range_body(1); VF_REACH(); }
/*@GROUP name=s_range2 props=C03,C02 kind=B unwind=7 unwindset=_ZN3etl6rotateIPN2vf7TrackedEEET_S4_S4_S4_:4,_ZN3etl10static_setIN2vf7TrackedELm4ENS_4lessIS2_EEE6insertIPKS2_EEvT_S9_.0:3 objbits=12 cost=6 when=VF_N==4 tier=thorough timeout=900 bound=range_length<=2@*/
void h_s_range2(void) { s_range_body(2); VF_REACH(); }

/*@GROUP name=s_erase props=C03,C02 kind=K unwind=7 unwindset=_ZN3etl6rotateIPN2vf7TrackedEEET_S4_S4_S4_:4 objbits=12 cost=2@*/
void h_s_erase(void) { ARBSET(0, SS, s, _storage); ARG(x); VF_INPUT(unsigned char, which); VF_INPUT(unsigned char, p); __CPROVER_assume(which <= 2); view_t o = view_of(&s._storage); view_t e; e.n = 0; id_type xid = x.id;
  if (which == 0) { __CPROVER_assume(p < o.n); T *r = ts_erase(&s, ELP(s._storage, p)); SETVIEW(s._storage, sp_erase(o, p, p + 1)); VF_ASSERT(r == ELP(s._storage, p), "erase(pos) returns the following position"); }
  else if (which == 1) { unsigned long r = ts_erase_key(&s, &x); VF_ASSERT(SZ(s._storage) == o.n - r && r <= 1, "erase(key): returns the number of removed elements");
    if (has_of(o, xid)) { SETVIEW(s._storage, sp_erase(o, lb_of(o, xid), lb_of(o, xid) + 1)); VF_ASSERT(r == 1, "erase(key) removes a present key"); } }
  else { ts_clear(&s); SETVIEW(s._storage, e); }
  INVV(0, s._storage); LEAKFREE(1); VF_ASSERT(vf_out_live(&x, 1) && x.id == xid, "C03: the key argument is alive and unchanged");
  DESTROYS(0, s); LEAKFREE(1); VF_REACH(); }

/*@GROUP name=s_copy_move props=C03,C02 kind=K unwind=7 unwindset=_ZN3etl6rotateIPN2vf7TrackedEEET_S4_S4_S4_:4 objbits=12 cost=3@*/
void h_s_copy_move(void) { ARBSET(1, SS, s, _storage); VF_INPUT(SS, t); VF_INPUT(unsigned char, which); ARG(x); __CPROVER_assume(which <= 3); view_t os = view_of(&s._storage); T *pos;
  if (which == 0) { raw_vec(0, &t._storage); ts_copy_ctor(&t, &s); }
  else if (which == 1) { own_vec(0, &t._storage); ts_copy_assign(&t, &s); }
  else if (which == 2) { raw_vec(0, &t._storage); ts_move_ctor(&t, &s); }
  else { own_vec(0, &t._storage); ts_move_assign(&t, &s); }
  INVV(0, t._storage); INVV(1, s._storage); LEAKFREE(1); SETVIEW(t._storage, os);
  if (which <= 1) VF_ASSERT(view_eq(view_of(&s._storage), os), "copy leaves the source unchanged");
  VF_INPUT_BOOL(reassign); if (reassign) { ts_copy_assign(&s, &t); INVV(1, s._storage); SETVIEW(s._storage, os); } else { ts_clear(&s); ts_insert(&s, &x, &pos); INVV(1, s._storage); }
  LEAKFREE(1); DESTROYS(1, s); INVV(0, t._storage); SETVIEW(t._storage, os); DESTROYS(0, t); LEAKFREE(1); VF_REACH(); }

/*@GROUP name=s_swap_self props=C03,C02 kind=K unwind=7 unwindset=_ZN3etl6rotateIPN2vf7TrackedEEET_S4_S4_S4_:4 objbits=12 cost=3@*/
void h_s_swap_self(void) { ARBSET(0, SS, a, _storage); ARBSET(1, SS, b, _storage); view_t oa = view_of(&a._storage), ob = view_of(&b._storage); VF_INPUT(unsigned char, which); __CPROVER_assume(which <= 3);
  VF_KNOWN(C01_self_copy_assign, which == 1 && oa.n > 0);
  if (which == 0) { ts_swap(&a, &b); SETVIEW(a._storage, ob); SETVIEW(b._storage, oa); }
  else { if (which == 1) ts_copy_assign(&a, &a); else if (which == 2) ts_move_assign(&a, &a); else ts_swap(&a, &a);
    if (which != 2) SETVIEW(a._storage, oa); SETVIEW(b._storage, ob); }
  INVV(0, a._storage); INVV(1, b._storage); LEAKFREE(0); DESTROYS(0, a); INVV(1, b._storage); DESTROYS(1, b); LEAKFREE(0); VF_REACH(); }

/*@COMMON@*/
static void f_insert_body(unsigned char which) { ARBSET(0, FS, s, _container); ARG(x); view_t o = view_of(&s._container); id_type xid = x.id; T *pos;
  _Bool ins = !has_of(o, xid); if (ins) __CPROVER_assume(o.n < N);   /* inserting a new key into a full container violates the container's precondition */
  _Bool r = which == 0 ? tf_insert(&s, &x, &pos) : (which == 1 ? tf_insert_rv(&s, &x, &pos) : tf_emplace(&s, xid, &pos));
  INVV(0, s._container); LEAKFREE(1); VF_ASSERT(vf_out_live(&x, 1), "C03: the argument is still alive (moved-from, not destroyed)");
  VF_ASSERT(r == ins && pos == ELP(s._container, lb_of(o, xid)), "insert/emplace return (position of the key, true <=> the key was absent)");
  SETVIEW(s._container, ins ? sp_insert_n(o, lb_of(o, xid), 1, xid) : o);
  DESTROYF(0, s); LEAKFREE(1); }

/*@GROUP name=f_insert_copy props=C03,C02 kind=K unwind=7 unwindset=_ZN3etl6rotateIPN2vf7TrackedEEET_S4_S4_S4_:4 objbits=12 cost=3@*/
void h_f_insert_copy(void) { f_insert_body(0); VF_REACH(); }
/*@GROUP name=f_insert_move props=C03,C02 kind=K unwind=7 unwindset=_ZN3etl6rotateIPN2vf7TrackedEEET_S4_S4_S4_:4 objbits=12 cost=3@*/
void h_f_insert_move(void) { f_insert_body(1); VF_REACH(); }
/*@GROUP name=f_emplace props=C03,C02 kind=K unwind=7 unwindset=_ZN3etl6rotateIPN2vf7TrackedEEET_S4_S4_S4_:4 objbits=12 cost=3@*/
void h_f_emplace(void) { f_insert_body(2); VF_REACH(); }

/*@GROUP name=f_erase props=C03,C02 kind=K unwind=7 unwindset=_ZN3etl6rotateIPN2vf7TrackedEEET_S4_S4_S4_:4 objbits=12 cost=2@*/
void h_f_erase(void) { ARBSET(0, FS, s, _container); ARG(x); VF_INPUT(unsigned char, which); VF_INPUT(unsigned char, p); VF_INPUT(unsigned char, q); __CPROVER_assume(which <= 3); view_t o = view_of(&s._container); view_t e; e.n = 0; id_type xid = x.id;
  if (which == 0) { __CPROVER_assume(p < o.n); T *r = tf_erase(&s, ELP(s._container, p)); SETVIEW(s._container, sp_erase(o, p, p + 1)); VF_ASSERT(r == ELP(s._container, p), "erase(pos) returns the following position"); }
  else if (which == 1) { __CPROVER_assume(p <= q && q <= o.n); T *r = tf_erase_range(&s, ELP(s._container, p), ELP(s._container, q)); SETVIEW(s._container, sp_erase(o, p, q)); VF_ASSERT(r == ELP(s._container, p), "erase(first,last) returns first"); }
  else if (which == 2) { unsigned long r = tf_erase_key(&s, &x); VF_ASSERT(r == (has_of(o, xid) ? 1 : 0), "erase(key) returns the number of removed elements");
    SETVIEW(s._container, has_of(o, xid) ? sp_erase(o, lb_of(o, xid), lb_of(o, xid) + 1) : o); }
  else { tf_clear(&s); SETVIEW(s._container, e); }
  INVV(0, s._container); LEAKFREE(1); VF_ASSERT(vf_out_live(&x, 1) && x.id == xid, "C03: the key argument is alive and unchanged");
  DESTROYF(0, s); LEAKFREE(1); VF_REACH(); }

/*@GROUP name=f_copy_move props=C03,C02 kind=K unwind=7 unwindset=_ZN3etl6rotateIPN2vf7TrackedEEET_S4_S4_S4_:4 objbits=12 cost=3@*/
void h_f_copy_move(void) { ARBSET(1, FS, s, _container); VF_INPUT(FS, t); VF_INPUT(unsigned char, which); __CPROVER_assume(which <= 3); view_t os = view_of(&s._container);
  if (which == 0) { raw_vec(0, &t._container); tf_copy_ctor(&t, &s); }
  else if (which == 1) { own_vec(0, &t._container); tf_copy_assign(&t, &s); }
  else if (which == 2) { raw_vec(0, &t._container); tf_move_ctor(&t, &s); }
  else { own_vec(0, &t._container); tf_move_assign(&t, &s); }
  INVV(0, t._container); INVV(1, s._container); LEAKFREE(0); SETVIEW(t._container, os);
  if (which <= 1) VF_ASSERT(view_eq(view_of(&s._container), os), "copy leaves the source unchanged");
  tf_copy_assign(&s, &t); INVV(1, s._container); SETVIEW(s._container, os);
  LEAKFREE(0); DESTROYF(1, s); INVV(0, t._container); SETVIEW(t._container, os); DESTROYF(0, t); LEAKFREE(0); VF_REACH(); }

/*@GROUP name=f_swap_extract props=C03,C02 kind=K unwind=7 unwindset=_ZN3etl6rotateIPN2vf7TrackedEEET_S4_S4_S4_:4 objbits=12 cost=3@*/
void h_f_swap_extract(void) { ARBSET(0, FS, a, _container); ARBSET(1, FS, b, _container); view_t oa = view_of(&a._container), ob = view_of(&b._container); VF_INPUT(unsigned char, which); __CPROVER_assume(which <= 3);
  if (which == 0) { tf_swap(&a, &b); SETVIEW(a._container, ob); SETVIEW(b._container, oa); }
  else if (which == 1) { tf_swap(&a, &a); SETVIEW(a._container, oa); SETVIEW(b._container, ob); }
  else if (which == 2) { tf_replace(&a, &b._container); SETVIEW(a._container, ob); VF_ASSERT(SZ(b._container) <= N, "the moved-from container stays well-formed"); }
  else { VF_INPUT(V, c); raw_vec(2, &c); tf_extract(&a, &c); INVV(2, c); /* contents of the extracted container: C01, family sets */ VF_ASSERT(SZ(a._container) == 0, "extract() leaves the set empty"); DESTROYV(2, c); }
  INVV(0, a._container); INVV(1, b._container); LEAKFREE(0); DESTROYF(0, a); INVV(1, b._container); DESTROYF(1, b); LEAKFREE(0); VF_REACH(); }

/*@GROUP name=k_stack props=C03,C02 kind=K unwind=7 unwindset=_ZN3etl6rotateIPN2vf7TrackedEEET_S4_S4_S4_:4 objbits=12 cost=3@*/
void h_k_stack(void) { VF_INPUT(ST, s); own_vec(0, &s.c); VF_INPUT(ST, t); ARG(x); VF_INPUT(unsigned char, op); __CPROVER_assume(op <= 7); view_t o = view_of(&s.c), ot; ot.n = 0; id_type xid = x.id;
  if (op <= 2) { own_vec(1, &t.c); ot = view_of(&t.c); __CPROVER_assume(o.n < N); if (op == 0) tk_push(&s, &x); else if (op == 1) tk_push_rv(&s, &x); else tk_emplace(&s, xid);
    VF_ASSERT(view_eq(view_of(&s.c), sp_insert_n(o, o.n, 1, xid)), "push/emplace: the new element is on top"); }
  else if (op == 3) { own_vec(1, &t.c); ot = view_of(&t.c); __CPROVER_assume(o.n > 0); tk_pop(&s); VF_ASSERT(view_eq(view_of(&s.c), sp_erase(o, o.n - 1, o.n)), "pop removes the top element"); }
  else if (op == 4) { own_vec(1, &t.c); ot = view_of(&t.c); tk_swap(&s, &t); VF_ASSERT(view_eq(view_of(&s.c), ot) && view_eq(view_of(&t.c), o), "swap exchanges the contents"); view_t h = o; o = ot; ot = h; }
  else { raw_vec(1, &t.c); if (op == 5) tk_copy_ctor(&t, &s); else if (op == 6) tk_move_ctor(&t, &s); else tk_ctor_cont(&t, &s.c); ot = o; VF_ASSERT(view_eq(view_of(&t.c), o), "stack(stack const&), stack(stack&&), stack(Container const&): same contents"); }
  INVV(0, s.c); INVV(1, t.c); LEAKFREE(1); VF_ASSERT(vf_out_live(&x, 1), "C03: the argument is still alive");
  DESTROYK(0, s); INVV(1, t.c); VF_ASSERT(view_eq(view_of(&t.c), ot), "destroying one stack leaves the other alone"); DESTROYK(1, t); LEAKFREE(1); VF_REACH(); }

/*@COMMON@*/
/* ---- raw storage algorithms: region 0 = destination array (arbitrary prefix alive), region 1 = source range ------------ */
#define DST(d) VF_INPUT_ARR(T, dst, N); vf_region_set(0, dst, sizeof(T), N); vf_region_live_prefix(0, (d), 1)
#define DST_IS(d) VF_ASSERT(vf_region_is_prefix(0, (d), 1), "C03: exactly the first d destination slots hold a live object")

/*@GROUP name=m_uninit props=C03,C02 kind=K unwind=7 objbits=12@*/
void h_m_uninit(void) { VF_INPUT(unsigned char, c); VF_INPUT(unsigned char, which); __CPROVER_assume(c <= N && which <= 2); DST(0); SRC(c); ARG(x); id_type xid = x.id; id_type ids[N]; for (int i = 0; i < N; ++i) ids[i] = src[i].id;
  T *r = dst + c; if (which == 0) r = tm_uninit_copy(src, src + c, dst); else if (which == 1) r = tm_uninit_move(src, src + c, dst); else tm_uninit_fill(dst, dst + c, &x);
  DST_IS(c); SRC_INTACT(c); LEAKFREE(1); VF_ASSERT(r == dst + c, "uninitialized_copy/move return the end of the constructed range");
  for (int i = 0; i < N; ++i) if (i < c) VF_ASSERT(dst[i].id == (which == 2 ? xid : ids[i]), "each destination element is constructed from the corresponding source element / the value");
  VF_INPUT(unsigned char, how); if (how == 0) tm_destroy(dst, dst + c); else if (how == 1) { T *e = tm_destroy_n(dst, c); VF_ASSERT(e == dst + c, "destroy_n returns the end of the range"); } else { T *e = tm_ranges_destroy(dst, dst + c); VF_ASSERT(e == dst + c, "ranges::destroy returns last"); }
  DST_IS(0); SRC_INTACT(c); LEAKFREE(1); VF_REACH(); }

/*@GROUP name=m_at props=C03,C02 kind=K unwind=7 objbits=12@*/
void h_m_at(void) { VF_INPUT(unsigned char, d); VF_INPUT_BOOL(rng); __CPROVER_assume(d < N); DST(d); ARG(x); id_type xid = x.id;
  T *r = rng ? tm_ranges_construct_at(dst + d, &x) : tm_construct_at(dst + d, xid);
  DST_IS(d + 1); LEAKFREE(1); VF_ASSERT(r == dst + d && dst[d].id == xid && vf_out_live(&x, 1), "construct_at constructs exactly one object at p from the arguments and returns p");
  if (rng) tm_ranges_destroy_at(dst + d); else tm_destroy_at(dst + d);
  DST_IS(d); LEAKFREE(1); VF_REACH(); }

/*@COMMON@*/
/* ---- inplace_function<int(int),8,1>: _storage holds a live callable (tag 3) <=> _vtable is not the empty vtable -------
 * g__ZN3etl6detail12empty_vtableIiJiEEE / g__ZZN3etl16inplace_functionIFiiELm8ELm1EEC1IRKN2vf2FnES5_EEOT_E2vt / g__ZZN3etl16inplace_functionIFiiELm8ELm1EEC1IN2vf2FnES5_EEOT_E2vt are cxx2c's names for detail::empty_vtable<int,int> and for the function-local
 * `static constexpr vtable_t vt` of the two converting constructors (from Fn const& and from Fn&&). */
typedef struct etl_inplace_function_int_int_8_1 F;
typedef struct vf_Fn FN;
#define VT_EMPTY (&g__ZN3etl6detail12empty_vtableIiJiEEE)
#define VT_FN_C (&g__ZZN3etl16inplace_functionIFiiELm8ELm1EEC1IRKN2vf2FnES5_EEOT_E2vt)
#define VT_FN_M (&g__ZZN3etl16inplace_functionIFiiELm8ELm1EEC1IN2vf2FnES5_EEOT_E2vt)
#define FEL(f) ((FN *)&(f)._storage)
#define FENG(f) ((f)._vtable != VT_EMPTY)
static void own_fun(int k, F *f, unsigned char sel) { vf_region_set(k, FEL(*f), sizeof f->_storage, 1); __CPROVER_assume(sel <= 2); f->_vtable = sel == 0 ? VT_EMPTY : (sel == 1 ? VT_FN_C : VT_FN_M); vf_region_live_prefix(k, sel != 0, 3); }
static void raw_fun(int k, F *f) { vf_region_set(k, FEL(*f), sizeof f->_storage, 1); vf_region_live_prefix(k, 0, 3); }
static _Bool inv_fun(int k, const F *f) { return (f->_vtable == VT_EMPTY || f->_vtable == VT_FN_C || f->_vtable == VT_FN_M) && vf_region_is_prefix(k, FENG(*f), 3); }
static oview_t fview_of(const F *f) { oview_t w; w.has = FENG(*f); w.id = w.has ? FEL(*f)->id : 0; return w; }
#define ARBF(k, f) VF_INPUT(F, f); VF_INPUT(unsigned char, f##_sel); own_fun(k, &f, f##_sel)
#define ARGF(x) VF_INPUT(FN, x); vf_out_add(&x, 3)
#define INVF(k, f) VF_ASSERT(inv_fun(k, &(f)), "C03: representation invariant after the operation: the storage holds a live callable <=> the vtable is not the empty vtable")
#define DESTROYF_(k, f) do { tn_dtor(&(f)); VF_ASSERT(vf_all_dead(k), "C03: nothing alive once the owner is destroyed"); } while (0)

/*@GROUP name=n_ctors props=C03,C20,C02 kind=F unwind=7 objbits=12@*/
void h_n_ctors(void) { VF_INPUT(F, f); raw_fun(0, &f); ARGF(x); VF_INPUT(unsigned char, which); VF_INPUT(int, a); __CPROVER_assume(which <= 3); id_type xid = x.id;
  if (which == 0) tn_default(&f); else if (which == 1) tn_nullptr(&f); else if (which == 2) tn_from(&f, &x); else tn_from_rv(&f, &x);
  INVF(0, f); LEAKFREE(1); VF_ASSERT(vf_out_live(&x, 3), "C03: the argument is still alive");
  oview_t e; e.has = which >= 2; e.id = xid; VF_ASSERT(oview_eq(fview_of(&f), e) && tn_bool(&f) == e.has, "inplace_function(), (nullptr): empty; (callable): holds a copy / the moved callable");
  if (e.has) { VF_ASSERT(tn_call(&f, a) == (a & 1) + xid, "operator() invokes the stored callable"); INVF(0, f); }
  DESTROYF_(0, f); LEAKFREE(1); VF_REACH(); }

/*@GROUP name=n_copy_move props=C03,C20,C02 kind=F unwind=7 objbits=12 cost=2@*/
void h_n_copy_move(void) { ARBF(1, s); VF_INPUT(F, t); VF_INPUT(unsigned char, t_sel); VF_INPUT(unsigned char, which); ARGF(x); __CPROVER_assume(which <= 3); oview_t os = fview_of(&s); oview_t em; em.has = 0;
  if (which == 0) { raw_fun(0, &t); tn_copy_ctor(&t, &s); }
  else if (which == 1) { own_fun(0, &t, t_sel); tn_assign(&t, &s); }
  else if (which == 2) { raw_fun(0, &t); tn_move_ctor(&t, &s); }
  else { own_fun(0, &t, t_sel); tn_assign_rv(&t, &s); }
  INVF(0, t); INVF(1, s); LEAKFREE(1);
  VF_ASSERT(oview_eq(fview_of(&t), os), "copy/move construction and assignment over all (empty, engaged) pairs: target == source");
  VF_ASSERT(oview_eq(fview_of(&s), which <= 1 ? os : em), "copy leaves the source unchanged; move leaves it empty (the callable is relocated)");
  /* the source stays a valid object: assignable, destructible */
  VF_INPUT_BOOL(reassign); if (reassign) { tn_assign_fn(&s, &x); INVF(1, s); VF_ASSERT(FENG(s) && FEL(s)->id == x.id, "assignment of a callable to the moved-from source"); }
  LEAKFREE(1); DESTROYF_(1, s); INVF(0, t); VF_ASSERT(oview_eq(fview_of(&t), os), "destroying the source leaves the target alone"); DESTROYF_(0, t); LEAKFREE(1); VF_REACH(); }

/*@GROUP name=n_modify props=C03,C20,C02 kind=F unwind=7 objbits=12@*/
void h_n_modify(void) { ARBF(0, f); ARGF(x); VF_INPUT_BOOL(null); id_type xid = x.id; if (null) tn_assign_null(&f); else tn_assign_fn(&f, &x);
  INVF(0, f); LEAKFREE(1); VF_ASSERT(vf_out_live(&x, 3) && x.id == xid, "C03: the argument is alive and unchanged");
  oview_t e; e.has = !null; e.id = xid; VF_ASSERT(oview_eq(fview_of(&f), e), "= nullptr: empty (the old callable is destroyed); = callable: holds a copy");
  DESTROYF_(0, f); LEAKFREE(1); VF_REACH(); }

/*@GROUP name=n_swap props=C03,C20,C02 kind=F unwind=7 objbits=12 cost=2@*/
void h_n_swap(void) { ARBF(0, a); ARBF(1, b); oview_t oa = fview_of(&a), ob = fview_of(&b); tn_swap(&a, &b);
  INVF(0, a); INVF(1, b); LEAKFREE(0); VF_ASSERT(oview_eq(fview_of(&a), ob) && oview_eq(fview_of(&b), oa), "swap exchanges the callables over all four (empty, engaged) pairs");
  DESTROYF_(0, a); INVF(1, b); DESTROYF_(1, b); LEAKFREE(0); VF_REACH(); }

/*@GROUP name=n_widen props=C03,C20,C02 kind=F unwind=7 objbits=12@*/
void h_n_widen(void) { /* inplace_function<int(int),16,1>(inplace_function<int(int),8,1> const& / &&): the converting constructors */
  ARBF(1, s); VF_INPUT(struct etl_inplace_function_int_int_16_1, t); VF_INPUT_BOOL(mv); VF_INPUT(int, a); oview_t os = fview_of(&s); oview_t em; em.has = 0;
  vf_region_set(0, (FN *)&t._storage, sizeof t._storage, 1); vf_region_live_prefix(0, 0, 3);
  if (mv) tn_widen_move(&t, &s); else tn_widen_copy(&t, &s);
  VF_ASSERT((t._vtable != VT_EMPTY) == os.has && vf_region_is_prefix(0, os.has, 3), "C03: the target holds a live callable exactly when the source did");
  INVF(1, s); LEAKFREE(0);
  VF_ASSERT(oview_eq(fview_of(&s), mv ? em : os), "converting copy leaves the source's callable alive and unchanged; converting move empties the source");
  if (os.has) { VF_ASSERT(((FN *)&t._storage)->id == os.id && tnw_call(&t, a) == (a & 1) + os.id, "the widened target calls an equivalent callable"); }
  DESTROYF_(1, s); tnw_dtor(&t); VF_ASSERT(vf_all_dead(0), "C03: nothing alive once the owner is destroyed"); LEAKFREE(0); VF_REACH(); }

/*@GROUP name=n_self props=C03,C20,C02 kind=F unwind=7 objbits=12@*/
void h_n_self(void) { ARBF(0, a); oview_t oa = fview_of(&a); VF_INPUT(unsigned char, which); __CPROVER_assume(which <= 2);
  VF_KNOWN(C03_ipf_self_swap, which == 2 && oa.has);
  if (which == 0) tn_assign(&a, &a); else if (which == 1) tn_assign_rv(&a, &a); else tn_swap(&a, &a);
  INVF(0, a); LEAKFREE(0); VF_ASSERT(oview_eq(fview_of(&a), oa), "self-assignment and self-swap leave the value unchanged");
  DESTROYF_(0, a); LEAKFREE(0); VF_REACH(); }

/*@COMMON@*/
/* ---- static_vector of a move-only (tag 4) and of a copy-only (tag 5) element type ------------------------------------- */
#define VF_VEC_HELPERS(sfx, VT, ET, TAG)                                                                                               \
  static view_t view_of##sfx(const VT *v) { view_t w; w.n = SZ(*v); for (int i = 0; i < N; ++i) w.a[i] = (unsigned long)i < w.n ? ((ET *)&v->b0._data[i])->id : 0; w.a[N] = 0; return w; } \
  static void own_vec##sfx(int k, VT *v) { vf_region_set(k, &v->b0._data[0], sizeof(ET), N); __CPROVER_assume(SZ(*v) <= N); vf_region_live_prefix(k, SZ(*v), TAG); } \
  static void raw_vec##sfx(int k, VT *v) { vf_region_set(k, &v->b0._data[0], sizeof(ET), N); vf_region_live_prefix(k, 0, TAG); }       \
  static _Bool inv_vec##sfx(int k, const VT *v) { return SZ(*v) <= N && vf_region_is_prefix(k, SZ(*v), TAG); }
typedef struct vf_MoveOnly TM;
typedef struct vf_CopyOnly TC;
typedef struct CAT(etl_static_vector_vf_MoveOnly_, VF_N) VM;
typedef struct CAT(etl_static_vector_vf_CopyOnly_, VF_N) VC;
VF_VEC_HELPERS(_mo, VM, TM, 4)
VF_VEC_HELPERS(_co, VC, TC, 5)
#define ELPM(v, i) ((TM *)&(v).b0._data[i])
#define ELPC(v, i) ((TC *)&(v).b0._data[i])
#define INVM(k, v) VF_ASSERT(inv_vec_mo(k, &(v)), "C03: representation invariant after the operation: live[slot] <=> slot < size")
#define INVC(k, v) VF_ASSERT(inv_vec_co(k, &(v)), "C03: representation invariant after the operation: live[slot] <=> slot < size")
#define DESTROYM(k, v) do { tvm_dtor(&(v)); VF_ASSERT(vf_all_dead(k), "C03: nothing alive once the owner is destroyed"); } while (0)
#define DESTROYC(k, v) do { tvc_dtor(&(v)); VF_ASSERT(vf_all_dead(k), "C03: nothing alive once the owner is destroyed"); } while (0)

/*@GROUP name=mo_back props=C03,C02 kind=K unwind=7 unwindset=_ZN3etl6rotateIPN2vf8MoveOnlyEEET_S4_S4_S4_:4 objbits=12@*/
void h_mo_back(void) { VF_INPUT(VM, v); own_vec_mo(0, &v); VF_INPUT(TM, x); vf_out_add(&x, 4); VF_INPUT(unsigned char, which); __CPROVER_assume(which <= 3); view_t o = view_of_mo(&v); view_t c; c.n = 0; id_type xid = x.id;
  if (which <= 1) { __CPROVER_assume(o.n < N); if (which == 0) tvm_push_back_rv(&v, &x); else tvm_emplace_back(&v, xid); VF_ASSERT(view_eq(view_of_mo(&v), sp_insert_n(o, o.n, 1, xid)), "push_back(T&&)/emplace_back: n' = n+1, a'[n] = x"); }
  else if (which == 2) { __CPROVER_assume(o.n > 0); tvm_pop_back(&v); VF_ASSERT(view_eq(view_of_mo(&v), sp_erase(o, o.n - 1, o.n)), "pop_back: n' = n-1"); }
  else { tvm_clear(&v); VF_ASSERT(view_eq(view_of_mo(&v), c), "clear: empty"); }
  INVM(0, v); LEAKFREE(1); VF_ASSERT(vf_out_live(&x, 4), "C03: the argument is still alive (moved-from, not destroyed)"); DESTROYM(0, v); LEAKFREE(1); VF_REACH(); }

/*@GROUP name=mo_insert props=C03,C02 kind=K unwind=7 unwindset=_ZN3etl6rotateIPN2vf8MoveOnlyEEET_S4_S4_S4_:4 objbits=12 cost=3@*/
void h_mo_insert(void) { VF_INPUT(VM, v); own_vec_mo(0, &v); VF_INPUT(TM, x); vf_out_add(&x, 4); VF_INPUT(unsigned char, p); VF_INPUT_BOOL(emp); __CPROVER_assume(SZ(v) < N && p <= SZ(v)); view_t o = view_of_mo(&v); id_type xid = x.id;
  TM *r = emp ? tvm_emplace(&v, ELPM(v, p), xid) : tvm_insert_rv(&v, ELPM(v, p), &x);
  INVM(0, v); LEAKFREE(1); VF_ASSERT(vf_out_live(&x, 4), "C03: the argument is still alive (moved-from, not destroyed)");
  VF_ASSERT(view_eq(view_of_mo(&v), sp_insert_n(o, p, 1, xid)) && r == ELPM(v, p), "insert(pos,T&&)/emplace: n' = n+1; a'[p] = x; suffix shifted up; returns begin()+p");
  DESTROYM(0, v); LEAKFREE(1); VF_REACH(); }

/*@GROUP name=mo_erase_resize props=C03,C02 kind=K unwind=7 unwindset=_ZN3etl6rotateIPN2vf8MoveOnlyEEET_S4_S4_S4_:4 objbits=12 cost=2@*/
void h_mo_erase_resize(void) { VF_INPUT(VM, v); own_vec_mo(0, &v); VF_INPUT(unsigned char, f); VF_INPUT(unsigned char, l); VF_INPUT_BOOL(rs); view_t o = view_of_mo(&v);
  if (rs) { __CPROVER_assume(f <= N); tvm_resize(&v, f); VF_ASSERT(view_eq(view_of_mo(&v), sp_resize(o, f, 0)), "resize(m): n' = m; common prefix kept; new slots are T{}"); }
  else { __CPROVER_assume(f <= l && l <= o.n); TM *r = tvm_erase_range(&v, ELPM(v, f), ELPM(v, l)); VF_ASSERT(view_eq(view_of_mo(&v), sp_erase(o, f, l)) && r == ELPM(v, f), "erase(first,last): n' = n-(l-f); suffix shifted down; returns begin()+f"); }
  INVM(0, v); LEAKFREE(0); DESTROYM(0, v); LEAKFREE(0); VF_REACH(); }

/*@GROUP name=mo_move_ctor props=C03,C02 kind=K unwind=7 unwindset=_ZN3etl6rotateIPN2vf8MoveOnlyEEET_S4_S4_S4_:4 objbits=12@*/
void h_mo_move_ctor(void) { VF_INPUT(VM, s); own_vec_mo(1, &s); VF_INPUT(VM, t); raw_vec_mo(0, &t); view_t os = view_of_mo(&s); VF_INPUT(id_type, i);
  tvm_move_ctor(&t, &s); INVM(0, t); INVM(1, s); LEAKFREE(0); VF_ASSERT(view_eq(view_of_mo(&t), os), "move construction: target view == source view");
  if (SZ(s) < N) { tvm_emplace_back(&s, i); INVM(1, s); } LEAKFREE(0); DESTROYM(1, s); INVM(0, t); VF_ASSERT(view_eq(view_of_mo(&t), os), "destroying the source leaves the target alone"); DESTROYM(0, t); LEAKFREE(0); VF_REACH(); }

/*@GROUP name=co_insert props=C03,C02 kind=K unwind=7 unwindset=_ZN3etl6rotateIPN2vf8CopyOnlyEEET_S4_S4_S4_:4 objbits=12 cost=3@*/
void h_co_insert(void) { VF_INPUT(VC, v); own_vec_co(0, &v); VF_INPUT(TC, x); vf_out_add(&x, 5); VF_INPUT(unsigned char, p); VF_INPUT(unsigned char, c); VF_INPUT(unsigned char, which); __CPROVER_assume(which <= 3 && p <= SZ(v) && c <= N && SZ(v) + c <= N); view_t o = view_of_co(&v); id_type xid = x.id;
  if (which <= 1) { __CPROVER_assume(c == 1); if (which == 0) tvc_push_back(&v, &x); else tvc_push_back_rv(&v, &x); VF_ASSERT(view_eq(view_of_co(&v), sp_insert_n(o, o.n, 1, xid)), "push_back: n' = n+1, a'[n] = x"); }
  else { TC *r = which == 2 ? (__CPROVER_assume(c == 1), tvc_insert(&v, ELPC(v, p), &x)) : tvc_insert_n(&v, ELPC(v, p), c, &x);
    VF_ASSERT(view_eq(view_of_co(&v), sp_insert_n(o, p, c, xid)) && r == ELPC(v, p), "insert(pos,x) / insert(pos,c,x): n' = n+c; c copies of x at p; suffix shifted up; returns begin()+p"); }
  INVC(0, v); LEAKFREE(1); VF_ASSERT(vf_out_live(&x, 5) && x.id == xid, "C03: the copied-from argument is alive and unchanged (a move of a copy-only type is a copy)"); DESTROYC(0, v); LEAKFREE(1); VF_REACH(); }

/*@GROUP name=co_erase_copy props=C03,C02 kind=K unwind=7 unwindset=_ZN3etl6rotateIPN2vf8CopyOnlyEEET_S4_S4_S4_:4 objbits=12 cost=3@*/
void h_co_erase_copy(void) { VF_INPUT(VC, s); own_vec_co(1, &s); VF_INPUT(VC, t); VF_INPUT(TC, x); vf_out_add(&x, 5); VF_INPUT(unsigned char, f); VF_INPUT(unsigned char, l); VF_INPUT(unsigned char, which); __CPROVER_assume(which <= 3); view_t os = view_of_co(&s); id_type xid = x.id;
  if (which == 0) { raw_vec_co(0, &t); tvc_copy_ctor(&t, &s); VF_ASSERT(view_eq(view_of_co(&t), os) && view_eq(view_of_co(&s), os), "copy construction: target == source, source unchanged"); }
  else if (which == 1) { own_vec_co(0, &t); tvc_copy_assign(&t, &s); VF_ASSERT(view_eq(view_of_co(&t), os) && view_eq(view_of_co(&s), os), "copy assignment: target == source, source unchanged"); }
  else if (which == 2) { own_vec_co(0, &t); __CPROVER_assume(f <= l && l <= os.n); TC *r = tvc_erase_range(&s, ELPC(s, f), ELPC(s, l)); VF_ASSERT(view_eq(view_of_co(&s), sp_erase(os, f, l)) && r == ELPC(s, f), "erase(first,last): n' = n-(l-f); suffix shifted down"); }
  else { own_vec_co(0, &t); __CPROVER_assume(f <= N); tvc_resize_x(&s, f, &x); VF_ASSERT(view_eq(view_of_co(&s), sp_resize(os, f, xid)), "resize(m,x): n' = m; common prefix kept; new slots are x"); }
  INVC(0, t); INVC(1, s); LEAKFREE(1); DESTROYC(1, s); INVC(0, t); DESTROYC(0, t); LEAKFREE(1); VF_REACH(); }

/*@COMMON@*/
/* ---- C05: every documented precondition of the NON-TRIVIAL instantiations (static_vector_non_trivial_storage, inplace_vector / stack /
 * flat_set over it, optional / expected / variant of instrumented alternatives).  The call must reach the assertion handler on every path
 * (VF_NORETURN_EXPECTED), and at the handler the owner (every byte), the argument and the ghost registry are unmodified: no element was
 * constructed past the end, destroyed or moved from before the check.  The hook assertions (C03-tagged) count for C05 in these groups. */
#define ARGM(x) VF_INPUT(TM, x); vf_out_add(&x, 4)

/*@GROUP name=viol_v_grow_back props=C05,C02 kind=K unwind=10 unwindset=_ZN3etl6rotateIPN2vf7TrackedEEET_S4_S4_S4_:4 objbits=12@*/
void h_viol_v_grow_back(void) { ARBV(0, v); ARG(x); VF_INPUT(unsigned char, op); VF_INPUT(unsigned long, c); __CPROVER_assume(op <= 5); id_type xid = x.id;
  if (op <= 2) __CPROVER_assume(SZ(v) == N); else __CPROVER_assume(c > N);
  EXPECT_VIOLATION_ARG(v, x);
  if (op == 0) tv_push_back(&v, &x); else if (op == 1) tv_push_back_rv(&v, &x); else if (op == 2) tv_emplace_back(&v, xid);
  else if (op == 3) tv_resize(&v, c); else if (op == 4) tv_resize_x(&v, c, &x); else tv_assign_n(&v, c, &x);
  VF_NORETURN_EXPECTED(); }

/*@GROUP name=viol_v_grow_ins props=C05,C02 kind=K unwind=10 unwindset=_ZN3etl6rotateIPN2vf7TrackedEEET_S4_S4_S4_:4 objbits=12 cost=2@*/
void h_viol_v_grow_ins(void) { ARBV(0, v); ARG(x); VF_INPUT(unsigned char, op); VF_INPUT(unsigned char, p); __CPROVER_assume(op <= 2 && p <= SZ(v) && SZ(v) == N); id_type xid = x.id;
  EXPECT_VIOLATION_ARG(v, x);
  if (op == 0) tv_insert(&v, ELP(v, p), &x); else if (op == 1) tv_insert_rv(&v, ELP(v, p), &x); else tv_emplace(&v, ELP(v, p), xid);
  VF_NORETURN_EXPECTED(); }

/*@GROUP name=viol_v_grow_n props=C05,C02 kind=K unwind=10 unwindset=_ZN3etl6rotateIPN2vf7TrackedEEET_S4_S4_S4_:4 objbits=12 cost=2@*/
void h_viol_v_grow_n(void) { /* insert(pos, c, x) with any count above the remaining room, up to SIZE_MAX */
  ARBV(0, v); ARG(x); VF_INPUT(unsigned char, p); VF_INPUT(unsigned long, c); __CPROVER_assume(p <= SZ(v) && c > N - SZ(v));
  VF_KNOWN(C05_insert_n_count_wraps, c > ~0UL - SZ(v));
  EXPECT_VIOLATION_ARG(v, x); tv_insert_n(&v, ELP(v, p), c, &x);
  VF_NORETURN_EXPECTED(); }

/*@GROUP name=viol_v_grow_range props=C05,C02 kind=K unwind=10 unwindset=_ZN3etl6rotateIPN2vf7TrackedEEET_S4_S4_S4_:4 objbits=12@*/
void h_viol_v_grow_range(void) { /* sized ranges that do not fit the remaining room / the capacity, reversed ranges, counts above the capacity in the constructors */
  VF_INPUT(V, v); ARG(x); VF_INPUT(unsigned char, op); VF_INPUT(unsigned char, p); VF_INPUT(unsigned char, c); VF_INPUT(unsigned char, d); VF_INPUT(unsigned long, big);
  VF_INPUT_ARR(T, src, N + 1); vf_region_set(1, src, sizeof(T), N); vf_region_live_prefix(1, N, 1);   /* src[N] is never an object: the handler must fire before it is read */
  __CPROVER_assume(op <= 5 && c <= N + 1 && d <= N + 1 && big > N);
  if (op == 0) { own_vec(0, &v); __CPROVER_assume(p <= SZ(v) && c <= N && SZ(v) + c > N); EXPECT_VIOLATION(v); tv_insert_range(&v, ELP(v, p), src, src + c); }
  else if (op == 1) { own_vec(0, &v); __CPROVER_assume(p <= SZ(v) && d < c); EXPECT_VIOLATION(v); tv_insert_range(&v, ELP(v, p), src + c, src + d); }
  else if (op == 2) { own_vec(0, &v); __CPROVER_assume(c == N + 1 || d < c); EXPECT_VIOLATION(v); if (c == N + 1) tv_assign_range(&v, src, src + c); else tv_assign_range(&v, src + c, src + d); }
  else if (op == 3) { raw_vec(0, &v); __CPROVER_assume(c == N + 1 || d < c); EXPECT_VIOLATION_RAW(); if (c == N + 1) tv_ctor_range(&v, src, src + c); else tv_ctor_range(&v, src + c, src + d); }
  else if (op == 4) { raw_vec(0, &v); EXPECT_VIOLATION_RAW(); tv_ctor_n(&v, big); }
  else { raw_vec(0, &v); EXPECT_VIOLATION_RAW(); tv_ctor_n_x(&v, big, &x); }
  VF_NORETURN_EXPECTED(); }

/*@GROUP name=viol_v_empty_index props=C05,C02 kind=K unwind=10 unwindset=_ZN3etl6rotateIPN2vf7TrackedEEET_S4_S4_S4_:4 objbits=12@*/
void h_viol_v_empty_index(void) { ARBV(0, v); VF_INPUT(unsigned char, op); VF_INPUT(unsigned long, i); __CPROVER_assume(op <= 6); if (op <= 4) __CPROVER_assume(SZ(v) == 0); else __CPROVER_assume(i >= SZ(v));
  EXPECT_VIOLATION(v);
  if (op == 0) tv_pop_back(&v); else if (op == 1) tv_back(&v); else if (op == 2) tv_cback(&v); else if (op == 3) tv_front(&v); else if (op == 4) tv_cfront(&v);
  else if (op == 5) tv_index(&v, i); else tv_cindex(&v, i);
  VF_NORETURN_EXPECTED(); }

/*@GROUP name=viol_v_pos_ins props=C05,C02 kind=K unwind=10 unwindset=_ZN3etl6rotateIPN2vf7TrackedEEET_S4_S4_S4_:4 objbits=12 cost=2@*/
void h_viol_v_pos_ins(void) { /* insert positions outside [begin,end] but inside the storage array */
  ARBV(0, v); ARG(x); VF_INPUT(unsigned char, op); VF_INPUT(unsigned char, p); SRC(1); __CPROVER_assume(op <= 4 && SZ(v) < N && p > SZ(v) && p <= N); id_type xid = x.id;
  EXPECT_VIOLATION_ARG(v, x);
  if (op == 0) tv_insert(&v, ELP(v, p), &x); else if (op == 1) tv_insert_rv(&v, ELP(v, p), &x); else if (op == 2) tv_emplace(&v, ELP(v, p), xid); else if (op == 3) tv_insert_n(&v, ELP(v, p), 1, &x);
  else tv_insert_range(&v, ELP(v, p), src, src + 1);
  VF_NORETURN_EXPECTED(); }

/*@GROUP name=viol_v_pos_erase props=C05,C02 kind=K unwind=10 unwindset=_ZN3etl6rotateIPN2vf7TrackedEEET_S4_S4_S4_:4 objbits=12@*/
void h_viol_v_pos_erase(void) { /* erase positions at/behind end(), reversed iterator pairs, ranges ending behind end() */
  ARBV(0, v); VF_INPUT_BOOL(single); VF_INPUT(unsigned char, p); VF_INPUT(unsigned char, q);
  if (single) __CPROVER_assume(p >= SZ(v) && p <= N); else __CPROVER_assume(p <= N && q <= N && (p > q || q > SZ(v)));
  EXPECT_VIOLATION(v);
  if (single) tv_erase(&v, ELP(v, p)); else tv_erase_range(&v, ELP(v, p), ELP(v, q));
  VF_NORETURN_EXPECTED(); }

/*@GROUP name=viol_mo props=C05,C02 kind=K unwind=10 unwindset=_ZN3etl6rotateIPN2vf8MoveOnlyEEET_S4_S4_S4_:4 objbits=12@*/
void h_viol_mo(void) { /* the same preconditions in the instantiation for a move-only element */
  VF_INPUT(VM, v); own_vec_mo(0, &v); ARGM(x); VF_INPUT(unsigned char, op); VF_INPUT(unsigned char, p); __CPROVER_assume(op <= 4 && p <= SZ(v)); id_type xid = x.id;
  if (op <= 3) __CPROVER_assume(SZ(v) == N); else __CPROVER_assume(SZ(v) == 0);
  EXPECT_VIOLATION_ARG(v, x);
  if (op == 0) tvm_push_back_rv(&v, &x); else if (op == 1) tvm_emplace_back(&v, xid); else if (op == 2) tvm_insert_rv(&v, ELPM(v, p), &x); else if (op == 3) tvm_emplace(&v, ELPM(v, p), xid); else tvm_pop_back(&v);
  VF_NORETURN_EXPECTED(); }

/*@GROUP name=viol_co props=C05,C02 kind=K unwind=10 unwindset=_ZN3etl6rotateIPN2vf8CopyOnlyEEET_S4_S4_S4_:4 objbits=12@*/
void h_viol_co(void) { /* the same preconditions in the instantiation for a copy-only element (every move degrades to a copy) */
  VF_INPUT(VC, v); own_vec_co(0, &v); VF_INPUT(TC, x); vf_out_add(&x, 5); VF_INPUT(unsigned char, op); VF_INPUT(unsigned char, p); VF_INPUT(unsigned long, c); __CPROVER_assume(op <= 4 && p <= SZ(v));
  if (op <= 2) __CPROVER_assume(SZ(v) == N); else if (op == 3) __CPROVER_assume(c > N - SZ(v)); else __CPROVER_assume(c > N);
  VF_KNOWN(C05_insert_n_count_wraps, op == 3 && c > ~0UL - SZ(v));
  EXPECT_VIOLATION_ARG(v, x);
  if (op == 0) tvc_push_back(&v, &x); else if (op == 1) tvc_push_back_rv(&v, &x); else if (op == 2) tvc_insert(&v, ELPC(v, p), &x); else if (op == 3) tvc_insert_n(&v, ELPC(v, p), c, &x); else tvc_resize_x(&v, c, &x);
  VF_NORETURN_EXPECTED(); }

/*@GROUP name=viol_i props=C05,C02 kind=K unwind=10 objbits=12@*/
void h_viol_i(void) { /* inplace_vector<Tracked,N>: unchecked_* on a full vector, pop_back/back/front on an empty one, operator[] out of range */
  ARBI(0, v); ARG(x); VF_INPUT(unsigned char, op); VF_INPUT(unsigned long, i); __CPROVER_assume(op <= 9); id_type xid = x.id;
  if (op <= 2) __CPROVER_assume(ISZ(v) == N); else if (op <= 7) __CPROVER_assume(ISZ(v) == 0); else __CPROVER_assume(i >= ISZ(v));
  EXPECT_VIOLATION_ARG(v, x);
  if (op == 0) ti_unchecked_emplace_back(&v, xid); else if (op == 1) ti_unchecked_push_back(&v, &x); else if (op == 2) ti_unchecked_push_back_rv(&v, &x);
  else if (op == 3) ti_pop_back(&v); else if (op == 4) ti_back(&v); else if (op == 5) ti_cback(&v); else if (op == 6) ti_front(&v); else if (op == 7) ti_cfront(&v);
  else if (op == 8) ti_index(&v, i); else ti_cindex(&v, i);
  VF_NORETURN_EXPECTED(); }

/*@GROUP name=viol_k props=C05,C02 kind=K unwind=10 unwindset=_ZN3etl6rotateIPN2vf7TrackedEEET_S4_S4_S4_:4 objbits=12@*/
void h_viol_k(void) { /* stack over the non-trivial static_vector: push/emplace on full, pop/top on empty */
  ARG(x); VF_INPUT(unsigned char, op); __CPROVER_assume(op <= 5); id_type xid = x.id;
  VF_INPUT(ST, s); own_vec(0, &s.c); if (op <= 2) __CPROVER_assume(SZ(s.c) == N); else __CPROVER_assume(SZ(s.c) == 0); EXPECT_VIOLATION_ARG(s, x);
  if (op == 0) tk_push(&s, &x); else if (op == 1) tk_push_rv(&s, &x); else if (op == 2) tk_emplace(&s, xid); else if (op == 3) tk_pop(&s); else if (op == 4) tk_top(&s); else tk_ctop(&s);
  VF_NORETURN_EXPECTED(); }

/*@GROUP name=viol_f props=C05,C02 kind=K unwind=10 unwindset=_ZN3etl6rotateIPN2vf7TrackedEEET_S4_S4_S4_:4 objbits=12 cost=2@*/
void h_viol_f(void) { /* flat_set: a NEW key into a full container (the container's precondition; the set and its element storage are untouched);
  static_set(first,last) with a sized range longer than the capacity */
  ARG(x); VF_INPUT(unsigned char, op); __CPROVER_assume(op <= 3); id_type xid = x.id; T *pos;
  if (op <= 2) { ARBSET(0, FS, s, _container); __CPROVER_assume(SZ(s._container) == N && !has_of(view_of(&s._container), xid)); EXPECT_VIOLATION(s); vf_snap_storage_only = 1;
    if (op == 0) tf_insert(&s, &x, &pos); else if (op == 1) tf_insert_rv(&s, &x, &pos); else tf_emplace(&s, xid, &pos); }
  else { VF_INPUT(SS, t); raw_vec(0, &t._storage); VF_INPUT_ARR(T, big, N + 1); vf_region_set(1, big, sizeof(T), N); vf_region_live_prefix(1, N, 1); EXPECT_VIOLATION_RAW(); ts_ctor_range(&t, big, big + N + 1); }
  VF_NORETURN_EXPECTED(); }

/*@GROUP name=viol_o_x props=C05,C02 kind=F unwind=10 objbits=12@*/
void h_viol_o_x(void) { /* optional<Tracked>: operator* (&, const&, &&, const&&) when disengaged; expected<Tracked,Tracked2>: operator* when it holds the error, error() when it holds the value */
  VF_INPUT(unsigned char, op); __CPROVER_assume(op <= 11);
  if (op <= 3) { ARBO(0, o); __CPROVER_assume(OIDX(o) == 0); EXPECT_VIOLATION(o);
    if (op == 0) to_deref(&o); else if (op == 1) to_cderef(&o); else if (op == 2) to_deref_rv(&o); else to_cderef_rv(&o); }
  else { ARBX(0, e); __CPROVER_assume(XIDX(e) == (op <= 7 ? 1 : 0)); EXPECT_VIOLATION(e);
    if (op == 4) tx_deref(&e); else if (op == 5) tx_cderef(&e); else if (op == 6) tx_deref_rv(&e); else if (op == 7) tx_cderef_rv(&e);
    else if (op == 8) tx_error(&e); else if (op == 9) tx_cerror(&e); else if (op == 10) tx_error_rv(&e); else tx_cerror_rv(&e); }
  VF_NORETURN_EXPECTED(); }

/*@GROUP name=viol_w props=C05,C02 kind=F unwind=10 objbits=12@*/
void h_viol_w(void) { /* variant<int,Tracked,Tracked2>: unchecked_get<I> and operator[](index_v<I>) in all four value categories with I != index() */
  ARBW(0, w); VF_INPUT(unsigned char, op); VF_INPUT(unsigned char, k); __CPROVER_assume(k <= 2 && k != WIDX(w) && op <= 7); EXPECT_VIOLATION(w);
#define VF_W_CALL(I) (op == 0 ? tw_uget_##I(&w) : op == 1 ? tw_cuget_##I(&w) : op == 2 ? tw_uget_rv_##I(&w) : op == 3 ? tw_cuget_rv_##I(&w) : op == 4 ? tw_sub_##I(&w) : op == 5 ? tw_csub_##I(&w) : op == 6 ? tw_sub_rv_##I(&w) : tw_csub_rv_##I(&w))
  if (k == 0) VF_W_CALL(0); else if (k == 1) VF_W_CALL(1); else VF_W_CALL(2);
  VF_NORETURN_EXPECTED(); }

/*@GROUP name=v_access props=C01,C03,C02 kind=K unwind=7 unwindset=_ZN3etl6rotateIPN2vf7TrackedEEET_S4_S4_S4_:4 objbits=12@*/
void h_v_access(void) { /* valid element access of the non-trivial instantiations: addresses the element, constructs/destroys nothing, handler silent */
  VF_INPUT(unsigned char, op); VF_INPUT(unsigned char, i); __CPROVER_assume(op <= 2);
  if (op == 0) { ARBV(0, v); __CPROVER_assume(i < SZ(v)); view_t o = view_of(&v);
    VF_ASSERT(tv_index(&v, i) == ELP(v, i) && tv_cindex(&v, i) == ELP(v, i) && tv_front(&v) == ELP(v, 0) && tv_cfront(&v) == ELP(v, 0) && tv_back(&v) == ELP(v, o.n - 1) && tv_cback(&v) == ELP(v, o.n - 1), "operator[], front, back address the element");
    INVV(0, v); VF_ASSERT(view_eq(view_of(&v), o), "element access leaves the vector unchanged"); DESTROYV(0, v); }
  else if (op == 1) { ARBI(0, v); __CPROVER_assume(i < ISZ(v)); view_t o = iview_of(&v);
    VF_ASSERT(ti_index(&v, i) == IELP(v, i) && ti_cindex(&v, i) == IELP(v, i) && ti_front(&v) == IELP(v, 0) && ti_cfront(&v) == IELP(v, 0) && ti_back(&v) == IELP(v, o.n - 1) && ti_cback(&v) == IELP(v, o.n - 1), "operator[], front, back address the element");
    INVI(0, v); VF_ASSERT(view_eq(iview_of(&v), o), "element access leaves the vector unchanged"); DESTROYI(0, v); }
  else { VF_INPUT(ST, s); own_vec(0, &s.c); __CPROVER_assume(SZ(s.c) > 0); view_t o = view_of(&s.c);
    VF_ASSERT(tk_top(&s) == ELP(s.c, o.n - 1) && tk_ctop(&s) == ELP(s.c, o.n - 1), "top() addresses the last element"); INVV(0, s.c); VF_ASSERT(view_eq(view_of(&s.c), o), "top() leaves the stack unchanged"); DESTROYK(0, s); }
  LEAKFREE(0); VF_REACH(); }

/*@COMMON@*/
/* ---- Handle (tag 6): an ownership-transferring element.  Move construction and move assignment take the payload and mark the source -1
 * UNCONDITIONALLY (a self-move-assignment loses the payload: MoveAssignable says nothing about t = move(t), and std::remove_if, std::rotate,
 * vector::erase/insert never self-move), the destructor releases the payload (-2).  The oracles below are the std::vector / std::optional /
 * std::variant semantics over VALUES: an implementation that self-moves a kept element, reads a moved-from or destroyed element, or
 * destroys a value before reading an argument that aliases it, delivers -1 / -2 where the reference semantics has the payload. */
typedef struct vf_Handle TH;
typedef struct CAT(etl_static_vector_vf_Handle_, VF_N) VH;
VF_VEC_HELPERS(_h, VH, TH, 6)
#define ELPH(v, i) ((TH *)&(v).b0._data[i])
#define ARBVH(k, v) VF_INPUT(VH, v); own_vec_h(k, &v)
#define ARGH(x) VF_INPUT(TH, x); vf_out_add(&x, 6)
#define INVH(k, v) VF_ASSERT(inv_vec_h(k, &(v)), "C03: representation invariant after the operation: live[slot] <=> slot < size")
#define DESTROYH(k, v) do { th_dtor(&(v)); VF_ASSERT(vf_all_dead(k), "C03: nothing alive once the owner is destroyed"); } while (0)
#define SRCH(c) VF_INPUT_ARR(TH, src, N); vf_region_set(1, src, sizeof(TH), N); vf_region_live_prefix(1, (c), 6)
#define SRCH_INTACT(c) VF_ASSERT(vf_region_is_prefix(1, (c), 6), "C03: exactly the elements of the source range are still alive")
static view_t sp_insert_range_h(view_t o, unsigned long p, const TH *src, unsigned long c) { view_t r; r.n = o.n + c;
  for (int i = 0; i <= N; ++i) { unsigned long k = (unsigned long)i; r.a[i] = k < p ? o.a[i] : (k < p + c ? src[k - p].id : (k < r.n && k - c <= N ? o.a[k - c] : 0)); } return r; }
/* [vector.erasure]: exactly the elements for which the predicate is false survive, in their original order */
static view_t sp_erase_if(view_t o, unsigned char mask) { view_t e; e.n = 0; for (int i = 0; i <= N; ++i) e.a[i] = 0;
  for (int i = 0; i < N; ++i) if ((unsigned long)i < o.n && !((mask >> (o.a[i] & 7)) & 1)) { e.a[e.n] = o.a[i]; ++e.n; } return e; }
static view_t sp_erase_value(view_t o, id_type x) { view_t e; e.n = 0; for (int i = 0; i <= N; ++i) e.a[i] = 0;
  for (int i = 0; i < N; ++i) if ((unsigned long)i < o.n && !(o.a[i] == x)) { e.a[e.n] = o.a[i]; ++e.n; } return e; }

/*@GROUP name=h_erase_if props=C01,C03,C02 kind=K unwind=7 unwindset=_ZN3etl6rotateIPN2vf6HandleEEET_S4_S4_S4_:4 objbits=12 cost=2@*/
void h_h_erase_if(void) { ARBVH(0, v); ARGH(x); VF_INPUT(unsigned char, mask); VF_INPUT_BOOL(byval); view_t o = view_of_h(&v); id_type xid = x.id;
  view_t e = byval ? sp_erase_value(o, xid) : sp_erase_if(o, mask);
  unsigned long r = byval ? th_erase_value(&v, &x) : th_erase_if(&v, mask);
  INVH(0, v); LEAKFREE(1); VF_ASSERT(vf_out_live(&x, 6) && x.id == xid, "C03: the value argument is alive and unchanged");
  VF_ASSERT(view_eq(view_of_h(&v), e) && r == o.n - e.n, "erase(c, value) / erase_if(c, pred): exactly the elements that do not match survive, with their payload, in order; returns the number removed");
  DESTROYH(0, v); LEAKFREE(1); VF_REACH(); }

/*@GROUP name=h_erase props=C01,C03,C02 kind=K unwind=7 unwindset=_ZN3etl6rotateIPN2vf6HandleEEET_S4_S4_S4_:4 objbits=12@*/
void h_h_erase(void) { ARBVH(0, v); VF_INPUT(unsigned char, f); VF_INPUT(unsigned char, l); VF_INPUT(unsigned char, which); __CPROVER_assume(which <= 2 && f <= l && l <= SZ(v)); view_t o = view_of_h(&v);
  if (which == 0) __CPROVER_assume(l == f + 1); else if (which == 2) __CPROVER_assume(l == o.n && f < l);
  TH *r = ELPH(v, f); if (which == 0) r = th_erase(&v, ELPH(v, f)); else if (which == 1) r = th_erase_range(&v, ELPH(v, f), ELPH(v, l)); else th_pop_back(&v);
  INVH(0, v); LEAKFREE(0);
  VF_ASSERT(view_eq(view_of_h(&v), which == 2 ? sp_erase(o, o.n - 1, o.n) : sp_erase(o, f, l)) && r == ELPH(v, f), "erase(pos) / erase(first,last) / pop_back: prefix kept, suffix shifted down with its payload; returns begin()+f");
  DESTROYH(0, v); LEAKFREE(0); VF_REACH(); }

/*@GROUP name=h_insert props=C01,C03,C02 kind=K unwind=7 unwindset=_ZN3etl6rotateIPN2vf6HandleEEET_S4_S4_S4_:4 objbits=12 cost=3@*/
void h_h_insert(void) { ARBVH(0, v); ARGH(x); VF_INPUT(unsigned char, p); VF_INPUT(unsigned char, which); __CPROVER_assume(which <= 6 && SZ(v) < N && p <= SZ(v)); view_t o = view_of_h(&v); id_type xid = x.id;
  if (which >= 4) __CPROVER_assume(p == o.n);
  TH *r = ELPH(v, p);
  if (which == 0) r = th_insert(&v, ELPH(v, p), &x); else if (which == 1) r = th_insert_rv(&v, ELPH(v, p), &x); else if (which == 2) r = th_emplace(&v, ELPH(v, p), xid); else if (which == 3) r = th_emplace_copy(&v, ELPH(v, p), &x);
  else if (which == 4) th_push_back(&v, &x); else if (which == 5) th_push_back_rv(&v, &x); else th_emplace_back(&v, xid);
  INVH(0, v); LEAKFREE(1); VF_ASSERT(vf_out_live(&x, 6) && (which == 1 || which == 5 || x.id == xid), "C03: the argument is still alive; a copied-from argument is unchanged");
  VF_ASSERT(view_eq(view_of_h(&v), sp_insert_n(o, p, 1, xid)) && r == ELPH(v, p), "insert/emplace(pos,x), push_back/emplace_back: n' = n+1; prefix; a'[p] = x; suffix shifted up by one with its payload; returns begin()+p");
  DESTROYH(0, v); LEAKFREE(1); VF_REACH(); }

/*@GROUP name=h_insert_n props=C01,C03,C02 kind=K unwind=7 unwindset=_ZN3etl6rotateIPN2vf6HandleEEET_S4_S4_S4_:4 objbits=12 cost=3@*/
void h_h_insert_n(void) { ARBVH(0, v); ARGH(x); VF_INPUT(unsigned char, p); VF_INPUT(unsigned char, c); VF_INPUT_BOOL(range); __CPROVER_assume(p <= SZ(v) && c <= N && SZ(v) + c <= N); SRCH(range ? c : 0); view_t o = view_of_h(&v); id_type xid = x.id;
  view_t e = range ? sp_insert_range_h(o, p, src, c) : sp_insert_n(o, p, c, xid);
  TH *r = range ? th_insert_range(&v, ELPH(v, p), src, src + c) : th_insert_n(&v, ELPH(v, p), c, &x);
  INVH(0, v); LEAKFREE(1); SRCH_INTACT(range ? c : 0); VF_ASSERT(vf_out_live(&x, 6) && x.id == xid, "C03: the copied-from argument is alive and unchanged");
  VF_ASSERT(view_eq(view_of_h(&v), e) && r == ELPH(v, p), "insert(pos,c,x) / insert(pos,first,last): n' = n+c; prefix; the new elements; suffix shifted up by c with its payload; returns begin()+p");
  DESTROYH(0, v); LEAKFREE(1); VF_REACH(); }

/*@GROUP name=h_resize_assign props=C01,C03,C02 kind=K unwind=7 unwindset=_ZN3etl6rotateIPN2vf6HandleEEET_S4_S4_S4_:4 objbits=12 cost=3@*/
void h_h_resize_assign(void) { ARBVH(0, v); ARGH(x); VF_INPUT(unsigned char, m); VF_INPUT(unsigned char, which); __CPROVER_assume(m <= N && which <= 3); SRCH(which == 3 ? m : 0); view_t o = view_of_h(&v); view_t z; z.n = 0; id_type xid = x.id;
  view_t e = which == 0 ? sp_resize(o, m, 0) : which == 1 ? sp_resize(o, m, xid) : which == 2 ? sp_resize(z, m, xid) : sp_insert_range_h(z, 0, src, m);
  if (which == 0) th_resize(&v, m); else if (which == 1) th_resize_x(&v, m, &x); else if (which == 2) th_assign_n(&v, m, &x); else th_assign_range(&v, src, src + m);
  INVH(0, v); LEAKFREE(1); SRCH_INTACT(which == 3 ? m : 0); VF_ASSERT(vf_out_live(&x, 6) && x.id == xid, "C03: the copied-from argument is alive and unchanged");
  VF_ASSERT(view_eq(view_of_h(&v), e), "resize(m[,x]): common prefix kept with its payload, new slots T{} / x; assign(m,x) / assign(first,last): exactly m copies / the source range");
  DESTROYH(0, v); LEAKFREE(1); VF_REACH(); }

/*@GROUP name=h_copy_move_swap props=C01,C03,C02 kind=K unwind=7 unwindset=_ZN3etl6rotateIPN2vf6HandleEEET_S4_S4_S4_:4 objbits=12 cost=3@*/
void h_h_copy_move_swap(void) { ARBVH(1, s); VF_INPUT(VH, t); VF_INPUT(unsigned char, which); __CPROVER_assume(which <= 5); view_t os = view_of_h(&s), ot; ot.n = 0;
  if (which == 0) { raw_vec_h(0, &t); th_copy_ctor(&t, &s); }
  else if (which == 1) { own_vec_h(0, &t); th_copy_assign(&t, &s); }
  else if (which == 2) { raw_vec_h(0, &t); th_move_ctor(&t, &s); }
  else if (which == 3) { own_vec_h(0, &t); th_move_assign(&t, &s); }
  else { own_vec_h(0, &t); ot = view_of_h(&t); if (which == 4) th_swap(&t, &s); else th_swap_free(&t, &s); }
  INVH(0, t); INVH(1, s); LEAKFREE(0);
  VF_ASSERT(view_eq(view_of_h(&t), os), "copy/move construction and assignment, swap: the target holds the source's elements with their payload");
  if (which <= 1) VF_ASSERT(view_eq(view_of_h(&s), os), "copy leaves the source unchanged");
  if (which >= 4) VF_ASSERT(view_eq(view_of_h(&s), ot), "swap: the other vector holds this one's elements with their payload");
  DESTROYH(1, s); INVH(0, t); VF_ASSERT(view_eq(view_of_h(&t), os), "destroying the source leaves the target alone"); DESTROYH(0, t); LEAKFREE(0); VF_REACH(); }

/* ---- arguments that alias an element of the vector itself ([sequence.reqmts]: a.push_back(a[k]), a.insert(p, a[k]), a.insert(p, n, a[k]),
 * a.emplace(p, a[k]), a.resize(n, a[k]) behave as if the value had been copied before anything moves; rvalue arguments are excluded by
 * [res.on.arguments], assign(n, a[k]) and ranges into the vector itself by their preconditions) */
/*@GROUP name=h_alias props=C01,C03,C02 kind=K unwind=7 unwindset=_ZN3etl6rotateIPN2vf6HandleEEET_S4_S4_S4_:4 objbits=12 cost=3@*/
void h_h_alias(void) { ARBVH(0, v); VF_INPUT(unsigned char, p); VF_INPUT(unsigned char, k); VF_INPUT(unsigned char, c); VF_INPUT(unsigned char, which); __CPROVER_assume(which <= 6 && k < SZ(v) && p <= SZ(v) && c <= N); view_t o = view_of_h(&v); id_type xid = o.a[k];
  TH *a = ELPH(v, k), *r = ELPH(v, p); view_t e;
  if (which <= 4) __CPROVER_assume(o.n < N); if (which <= 2) __CPROVER_assume(p == o.n);
  if (which == 0) { th_push_back(&v, a); e = sp_insert_n(o, o.n, 1, xid); } else if (which == 1) { th_push_back_lv(&v, a); e = sp_insert_n(o, o.n, 1, xid); } else if (which == 2) { th_emplace_back_copy(&v, a); e = sp_insert_n(o, o.n, 1, xid); }
  else if (which == 3) { r = th_insert(&v, ELPH(v, p), a); e = sp_insert_n(o, p, 1, xid); } else if (which == 4) { r = th_emplace_copy(&v, ELPH(v, p), a); e = sp_insert_n(o, p, 1, xid); }
  else if (which == 5) { __CPROVER_assume(o.n + c <= N); r = th_insert_n(&v, ELPH(v, p), c, a); e = sp_insert_n(o, p, c, xid); }
  else { __CPROVER_assume(p == o.n); th_resize_x(&v, c, a); e = sp_resize(o, c, xid); r = ELPH(v, p); }
  INVH(0, v); LEAKFREE(0);
  VF_ASSERT(view_eq(view_of_h(&v), e) && r == ELPH(v, p), "an argument that refers to an element of the vector itself is copied before any element moves: same result as with a copy of a[k]");
  DESTROYH(0, v); LEAKFREE(0); VF_REACH(); }

/*@COMMON@*/
/* ---- optional<Handle>, variant<int,Handle,Tracked2>, expected<Handle,Tracked2>: C07 value semantics with an element whose destructor
 * releases the payload and whose move marks the source; value assignment also from a reference to the OWN contained value
 * ([optional.assign], [variant.assign]: an engaged optional / a variant holding T_j ASSIGNS forward<U>(v) to the contained value, so
 * `o = *o` and `w = get<j>(w)` are a copy self-assignment of the value and leave it unchanged; an implementation that destroys the value
 * first reads a dead object).  Rvalue self-references are excluded ([res.on.arguments]). */
typedef struct etl_optional_vf_Handle OH;
typedef struct etl_variant_int_vf_Handle_vf_Tracked2 WH;
typedef struct etl_expected_vf_Handle_vf_Tracked2 XH;
static oview_t oview_of_h(const OH *o) { oview_t w; w.has = OIDX(*o) == 1; w.id = w.has ? OEL(*o)->id : 0; return w; }
static void own_opt_h(int k, OH *o) { vf_region_set(k, OEL(*o), sizeof(TH), 1); __CPROVER_assume(OIDX(*o) <= 1); vf_region_live_prefix(k, OIDX(*o) == 1, 6); }
static _Bool inv_opt_h(int k, const OH *o) { return OIDX(*o) <= 1 && vf_region_is_prefix(k, OIDX(*o) == 1, 6); }
#define ARBOH(k, o) VF_INPUT(OH, o); own_opt_h(k, &o)
#define INVOH(k, o) VF_ASSERT(inv_opt_h(k, &(o)), "C03: representation invariant after the operation: the value slot is alive <=> has_value()")
#define DESTROYOH(k, o) do { tho_dtor(&(o)); VF_ASSERT(vf_all_dead(k), "C03: nothing alive once the owner is destroyed"); } while (0)
/* variant<int,Handle,Tracked2>: slot state 0 / 6 / 2 for index 0 / 1 / 2; expected<Handle,Tracked2>: 6 for the value, 2 for the error */
static unsigned char wh_tag(unsigned idx) { return idx == 0 ? 0 : (idx == 1 ? 6 : 2); }
static wview_t wview_of_h(const WH *w) { wview_t v; v.idx = WIDX(*w); v.val = v.idx == 0 ? WI(*w) : (v.idx == 1 ? W1(*w)->id : W2(*w)->id); return v; }
static void own_var_h(int k, WH *w) { vf_region_set(k, &w->_union, sizeof w->_union, 1); __CPROVER_assume(WIDX(*w) <= 2); vf_region_live_prefix(k, 0, 0); vf_live[k][0] = wh_tag(WIDX(*w)); }
static _Bool inv_var_h(int k, const WH *w) { return WIDX(*w) <= 2 && vf_live[k][0] == wh_tag(WIDX(*w)) && vf_live[k][1] == 0 && vf_live[k][2] == 0 && vf_live[k][3] == 0; }
#define ARBWH(k, w) VF_INPUT(WH, w); own_var_h(k, &w)
#define INVWH(k, w) VF_ASSERT(inv_var_h(k, &(w)), "C03: representation invariant after the operation: exactly the alternative selected by index() is alive")
#define DESTROYWH(k, w) do { twh_dtor(&(w)); VF_ASSERT(vf_all_dead(k), "C03: nothing alive once the owner is destroyed"); } while (0)
static wview_t xview_of_h(const XH *x) { wview_t v; v.idx = XIDX(*x); v.val = v.idx == 0 ? XV(*x)->id : XE(*x)->id; return v; }
static void own_exp_h(int k, XH *x) { vf_region_set(k, &x->_u._union, sizeof x->_u._union, 1); __CPROVER_assume(XIDX(*x) <= 1); vf_region_live_prefix(k, 0, 0); vf_live[k][0] = XIDX(*x) == 0 ? 6 : 2; }
static _Bool inv_exp_h(int k, const XH *x) { return XIDX(*x) <= 1 && vf_live[k][0] == (XIDX(*x) == 0 ? 6 : 2) && vf_live[k][1] == 0 && vf_live[k][2] == 0 && vf_live[k][3] == 0; }
#define ARBXH(k, x) VF_INPUT(XH, x); own_exp_h(k, &x)
#define INVXH(k, x) VF_ASSERT(inv_exp_h(k, &(x)), "C03: representation invariant after the operation: the value is alive <=> has_value(), else exactly the error is alive")
#define DESTROYXH(k, x) do { txh_dtor(&(x)); VF_ASSERT(vf_all_dead(k), "C03: nothing alive once the owner is destroyed"); } while (0)

/*@GROUP name=ho_assign_value props=C07,C03,C02 kind=F unwind=7 objbits=12@*/
void h_ho_assign_value(void) { ARBOH(0, o); ARGH(x); VF_INPUT(unsigned char, which); VF_INPUT_BOOL(alias); __CPROVER_assume(which <= 3);
  if (alias || which == 3) __CPROVER_assume(OIDX(o) == 1 && which != 2);
  TH *px = (alias || which == 3) ? OEL(o) : &x; id_type xid = px->id, x0 = x.id;
  if (which == 0) tho_assign_value(&o, px); else if (which == 1) tho_assign_value_lv(&o, px); else if (which == 2) tho_assign_value_rv(&o, px); else tho_assign_deref(&o);
  INVOH(0, o); LEAKFREE(1); VF_ASSERT(vf_out_live(&x, 6) && (which == 2 || x.id == x0), "C03: the argument is still alive; a copied-from argument is unchanged");
  oview_t e; e.has = 1; e.id = xid;
  VF_ASSERT(oview_eq(oview_of_h(&o), e), "optional = value (U = T const&, T&, T&&; also a reference to the own contained value, `o = *o`): engaged and holds the value the argument had");
  DESTROYOH(0, o); LEAKFREE(1); VF_REACH(); }

/*@GROUP name=ho_copy_move_swap props=C07,C03,C02 kind=F unwind=7 objbits=12@*/
void h_ho_copy_move_swap(void) { ARBOH(0, t); ARBOH(1, s); VF_INPUT(unsigned char, which); VF_INPUT(id_type, i); __CPROVER_assume(which <= 4); oview_t os = oview_of_h(&s), ot = oview_of_h(&t);
  if (which == 0) tho_copy_assign(&t, &s); else if (which == 1) tho_move_assign(&t, &s); else if (which == 2) tho_swap(&t, &s); else if (which == 3) tho_copy_assign(&t, &t); else { TH *r = tho_emplace(&t, i); VF_ASSERT(r == OEL(t), "emplace returns the contained value"); }
  INVOH(0, t); INVOH(1, s); LEAKFREE(0);
  oview_t ei; ei.has = 1; ei.id = i;
  VF_ASSERT(oview_eq(oview_of_h(&t), which <= 2 ? os : (which == 3 ? ot : ei)), "copy/move assignment, swap: the target holds the source's state and payload; copy self-assignment keeps it; emplace(i) holds i");
  VF_ASSERT(which == 2 || (oview_of_h(&s).has == os.has && (which == 1 || oview_eq(oview_of_h(&s), os))), "the source keeps its engaged state (moved-from, not destroyed); a copied-from source is unchanged");
  if (which == 2) VF_ASSERT(oview_eq(oview_of_h(&s), ot), "swap: the source holds the target's old state and payload");
  DESTROYOH(1, s); INVOH(0, t); DESTROYOH(0, t); LEAKFREE(0); VF_REACH(); }

/*@GROUP name=hw_assign_value props=C07,C03,C02 kind=F unwind=7 objbits=12 cost=2@*/
void h_hw_assign_value(void) { ARBWH(0, w); ARGH(x); ARG2(y); VF_INPUT(int, i); VF_INPUT(unsigned char, which); VF_INPUT_BOOL(alias); __CPROVER_assume(which <= 4);
  /* which: 0 int const&, 1 Handle const&, 2 Handle&, 3 Handle&&, 4 Tracked2 const&; alias: the argument is the variant's own active alternative */
  unsigned tgt = which == 0 ? 0 : (which <= 3 ? 1 : 2);
  if (alias) __CPROVER_assume(which != 3 && WIDX(w) == tgt);
  VF_KNOWN(C07_variant_assign_own_alternative, alias && tgt != 0);
  int *pi = alias ? &WI(w) : &i; TH *px = alias ? W1(w) : &x; T2 *py = alias ? W2(w) : &y;
  wview_t e; e.idx = tgt; e.val = tgt == 0 ? *pi : (tgt == 1 ? px->id : py->id); id_type x0 = x.id, y0 = y.id;
  if (which == 0) twh_assign_int(&w, pi); else if (which == 1) twh_assign_h(&w, px); else if (which == 2) twh_assign_h_lv(&w, px); else if (which == 3) twh_assign_h_rv(&w, px); else twh_assign_t2(&w, py);
  INVWH(0, w); LEAKFREE(2); VF_ASSERT(vf_out_live(&x, 6) && vf_out_live(&y, 2) && (which == 3 || x.id == x0) && y.id == y0, "C03: the arguments are still alive; copied-from arguments are unchanged");
  VF_ASSERT(wview_eq(wview_of_h(&w), e), "variant = value from every alternative (also a reference to the own active alternative, `w = get<j>(w)`): holds alternative j with the value the argument had");
  DESTROYWH(0, w); LEAKFREE(2); VF_REACH(); }

/*@GROUP name=hw_copy_move_swap props=C07,C03,C02 kind=F unwind=7 objbits=12 cost=2@*/
void h_hw_copy_move_swap(void) { ARBWH(0, t); ARBWH(1, s); VF_INPUT(unsigned char, which); __CPROVER_assume(which <= 3); wview_t os = wview_of_h(&s), ot = wview_of_h(&t);
  if (which == 0) twh_copy_assign(&t, &s); else if (which == 1) twh_move_assign(&t, &s); else if (which == 2) twh_swap(&t, &s); else twh_copy_assign(&t, &t);
  INVWH(0, t); INVWH(1, s); LEAKFREE(0);
  VF_ASSERT(wview_eq(wview_of_h(&t), which <= 2 ? os : ot), "copy/move assignment and swap over all nine index pairs: the target holds the source's alternative and payload; copy self-assignment keeps it");
  VF_ASSERT(which == 2 || (wview_of_h(&s).idx == os.idx && (which == 1 || wview_eq(wview_of_h(&s), os))), "the source keeps its alternative (moved-from, not destroyed); a copied-from source is unchanged");
  if (which == 2) VF_ASSERT(wview_eq(wview_of_h(&s), ot), "swap: the source holds the target's old alternative and payload");
  DESTROYWH(1, s); INVWH(0, t); DESTROYWH(0, t); LEAKFREE(0); VF_REACH(); }

/*@GROUP name=hx_copy_move_swap props=C07,C03,C02 kind=F unwind=7 objbits=12 cost=2@*/
void h_hx_copy_move_swap(void) { ARBXH(0, t); ARBXH(1, s); VF_INPUT(unsigned char, which); VF_INPUT(id_type, i); __CPROVER_assume(which <= 4); wview_t os = xview_of_h(&s), ot = xview_of_h(&t);
  if (which == 0) txh_copy_assign(&t, &s); else if (which == 1) txh_move_assign(&t, &s); else if (which == 2) txh_swap(&t, &s); else if (which == 3) txh_copy_assign(&t, &t); else { TH *r = txh_emplace(&t, i); VF_ASSERT(r == XV(t), "emplace returns the value"); }
  INVXH(0, t); INVXH(1, s); LEAKFREE(0);
  wview_t ei; ei.idx = 0; ei.val = i;
  VF_ASSERT(wview_eq(xview_of_h(&t), which <= 2 ? os : (which == 3 ? ot : ei)), "copy/move assignment and swap over all four (value, error) pairs: the target holds the source's state and payload; copy self-assignment keeps it; emplace(i) holds the value i");
  VF_ASSERT(which == 2 || (xview_of_h(&s).idx == os.idx && (which == 1 || wview_eq(xview_of_h(&s), os))), "the source keeps its state (moved-from, not destroyed); a copied-from source is unchanged");
  if (which == 2) VF_ASSERT(wview_eq(xview_of_h(&s), ot), "swap: the source holds the target's old state and payload");
  DESTROYXH(1, s); INVXH(0, t); DESTROYXH(0, t); LEAKFREE(0); VF_REACH(); }

/*@GROUP name=ik_alias props=C01,C03,C02 kind=K unwind=7 unwindset=_ZN3etl6rotateIPN2vf7TrackedEEET_S4_S4_S4_:4 objbits=12 cost=2@*/
void h_ik_alias(void) { /* inplace_vector / stack: push_back(v[k]), emplace_back(v[k]), push(top()) with the argument referring to an element of the container itself */
  VF_INPUT(unsigned char, which); VF_INPUT(unsigned char, k); __CPROVER_assume(which <= 6);
  if (which <= 3) { ARBI(0, v); __CPROVER_assume(k < ISZ(v)); view_t o = iview_of(&v); id_type xid = o.a[k]; T *a = IELP(v, k); if (which >= 2) __CPROVER_assume(o.n < N);
    T *r = which == 0 ? ti_try_push_back(&v, a) : which == 1 ? ti_try_emplace_back_copy(&v, a) : which == 2 ? ti_unchecked_push_back(&v, a) : ti_unchecked_emplace_back_copy(&v, a);
    INVI(0, v);
    if (o.n == N) VF_ASSERT(r == 0 && view_eq(iview_of(&v), o), "try_*_back(v[k]) on a full vector: returns nullptr, contents unchanged");
    else VF_ASSERT(r == IELP(v, o.n) && view_eq(iview_of(&v), sp_insert_n(o, o.n, 1, xid)), "*_back(v[k]): n' = n+1, prefix (including v[k]) unchanged, a'[n] = old v[k]");
    DESTROYI(0, v); }
  else { VF_INPUT(ST, s); own_vec(0, &s.c); __CPROVER_assume(SZ(s.c) > 0 && SZ(s.c) < N && k < SZ(s.c)); view_t o = view_of(&s.c); T *a = which == 6 ? ELP(s.c, k) : tk_top(&s); id_type xid = a->id;
    if (which == 4) tk_push(&s, a); else tk_emplace_copy(&s, a);
    INVV(0, s.c); VF_ASSERT(view_eq(view_of(&s.c), sp_insert_n(o, o.n, 1, xid)), "push(top()) / emplace(c[k]): the new top is a copy of the old element, everything below unchanged"); DESTROYK(0, s); }
  LEAKFREE(0); VF_REACH(); }

/*@GROUP name=ha_moving_algos props=C06,C03,C02 kind=B bound=len<=VF_N unwind=7 unwindset=_ZN3etl6rotateIPN2vf6HandleEEET_S4_S4_S4_:4 objbits=12 cost=3@*/
void h_ha_moving_algos(void) { /* [alg.remove] [alg.unique] [alg.rotate] [alg.shift] [alg.move] over Handles: the kept / shifted elements arrive with their payload (no self-move, no read
  of a moved-from element); elements behind the returned end are valid but unspecified (alive); nothing is constructed or destroyed */
  VF_INPUT_ARR(TH, a, N); VF_INPUT(unsigned char, c); VF_INPUT(unsigned char, which); VF_INPUT(unsigned char, m); VF_INPUT(unsigned char, d); VF_INPUT(unsigned char, mask); ARGH(x);
  __CPROVER_assume(c <= N && which <= 7 && m <= c && d <= c); vf_region_set(0, a, sizeof(TH), N); vf_region_live_prefix(0, c, 6);
  view_t o; o.n = c; for (int i = 0; i <= N; ++i) o.a[i] = i < c ? a[i < N ? i : 0].id : 0; id_type xid = x.id; unsigned long k = c; view_t e = o;
  TH *r = a;
  if (which == 0) { e = sp_erase_value(o, xid); k = e.n; r = tha_remove(a, a + c, &x); }
  else if (which == 1) { e = sp_erase_if(o, mask); k = e.n; r = tha_remove_if(a, a + c, mask); }
  else if (which == 2) { e.n = 0; for (int i = 0; i < N; ++i) if (i < c && (e.n == 0 || !(e.a[e.n - 1] == o.a[i]))) { e.a[e.n] = o.a[i]; ++e.n; } k = e.n; r = tha_unique(a, a + c); }
  else if (which == 3) { for (int i = 0; i < N; ++i) if (i < c) e.a[i] = o.a[(i + m) % c]; k = c - m; r = tha_rotate(a, a + m, a + c); if (m == 0) k = c; else if (m == c) k = 0; }
  else if (which == 4) { /* shift_left(m): a'[i] = a[i+m] for i < c-m; returns first + (c-m); m >= c: no effect, returns first */
    if (m < c) { e.n = c - m; for (int i = 0; i < N; ++i) if (i + m < c) e.a[i] = o.a[i + m]; k = c - m; } else k = 0;
    r = tha_shift_left(a, a + c, m); }
  else if (which == 5) { /* shift_right(m): a'[m+i] = a[i] for i < c-m; returns first + m; m >= c: no effect, returns last */
    r = tha_shift_right(a, a + c, m); k = m < c ? m : c;
    for (int i = 0; i < N; ++i) if (m < c && i + m < c) VF_ASSERT(a[i + m].id == o.a[i], "shift_right(n): the element at i arrives at i+n with its payload");
    if (m >= c || m == 0) for (int i = 0; i < N; ++i) if (i < c) VF_ASSERT(a[i].id == o.a[i], "shift_right(0) and shift_right(n >= length) have no effect");
    e.n = 0; }
  else if (which == 6) { /* move(first+m, last, first+d) with d < m (d_first not in [first,last)): a'[d+i] = a[m+i] */
    __CPROVER_assume(d < m); r = tha_move(a + m, a + c, a + d); k = d + (c - m); e.n = 0;
    for (int i = 0; i < N; ++i) if (m + i < c) VF_ASSERT(a[d + i].id == o.a[m + i], "move to an overlapping destination in front: every element arrives with its payload"); }
  else { /* move_backward(first, first+m, first+d) with d > m (d_last not in (first,last]): a'[d-m+i] = a[i] */
    __CPROVER_assume(d > m); r = tha_move_backward(a, a + m, a + d); k = d - m; e.n = 0;
    for (int i = 0; i < N; ++i) if (i < m) VF_ASSERT(a[d - m + i].id == o.a[i], "move_backward to an overlapping destination behind: every element arrives with its payload"); }
  VF_ASSERT(r == a + k, "returned iterator: the new logical end (remove, unique, shift_left), first + (last - middle) (rotate), first + n (shift_right), the end of the destination (move) / its begin (move_backward)");
  for (int i = 0; i < N; ++i) if ((unsigned long)i < e.n) VF_ASSERT(a[i].id == e.a[i], "the kept / rotated / shifted elements, in order, with their payload");
  VF_ASSERT(vf_region_is_prefix(0, c, 6), "C03: exactly the elements of the range are still alive"); LEAKFREE(1); VF_ASSERT(vf_out_live(&x, 6) && x.id == xid, "C03: the value argument is alive and unchanged"); VF_REACH(); }
