// driver: static_vector<int, VF_N>, stack on top of it (C01, C02, C05)
#include <etl/vector.hpp>
#include <etl/stack.hpp>
#include <etl/new.hpp>
#ifndef VF_N
#define VF_N 4
#endif
#define VF_E extern "C"
namespace vf {
using V = etl::static_vector<int, VF_N>;
using size_type = etl::size_t;
struct is_mult3 { auto operator()(int const& x) const -> bool { return x % 3 == 0; } };

VF_E void v_default(V* out) { new (out) V; }
VF_E void v_ctor_n(V* out, size_type n) { new (out) V(n); }
VF_E void v_ctor_n_x(V* out, size_type n, int const& x) { new (out) V(n, x); }
VF_E void v_ctor_range(V* out, int const* f, int const* l) { new (out) V(f, l); }
VF_E void v_copy_ctor(V* out, V const& o) { new (out) V(o); }
VF_E void v_move_ctor(V* out, V& o) { new (out) V(etl::move(o)); }
VF_E void v_copy_assign(V& a, V const& b) { a = b; }
VF_E void v_move_assign(V& a, V& b) { a = etl::move(b); }
VF_E void v_push_back(V& v, int const& x) { v.push_back(x); }
VF_E void v_push_back_rv(V& v, int x) { v.push_back(etl::move(x)); }
VF_E void v_emplace_back(V& v, int x) { v.emplace_back(x); }
VF_E void v_pop_back(V& v) { v.pop_back(); }
VF_E int* v_insert(V& v, int const* pos, int const& x) { return v.insert(pos, x); }
VF_E int* v_insert_rv(V& v, int const* pos, int x) { return v.insert(pos, etl::move(x)); }
VF_E int* v_insert_n(V& v, int const* pos, size_type n, int const& x) { return v.insert(pos, n, x); }
VF_E int* v_insert_range(V& v, int const* pos, int const* f, int const* l) { return v.insert(pos, f, l); }
VF_E int* v_emplace(V& v, int const* pos, int x) { return v.emplace(pos, x); }
VF_E int* v_erase(V& v, int const* pos) { return v.erase(pos); }
VF_E int* v_erase_range(V& v, int const* f, int const* l) { return v.erase(f, l); }
VF_E void v_resize(V& v, size_type n) { v.resize(n); }
VF_E void v_resize_x(V& v, size_type n, int const& x) { v.resize(n, x); }
VF_E void v_assign_n(V& v, size_type n, int const& x) { v.assign(n, x); }
VF_E void v_assign_range(V& v, int const* f, int const* l) { v.assign(f, l); }
VF_E void v_clear(V& v) { v.clear(); }
VF_E void v_swap(V& a, V& b) { a.swap(b); }
VF_E void v_swap_free(V& a, V& b) { swap(a, b); }
VF_E bool v_eq(V const& a, V const& b) { return a == b; }
VF_E bool v_ne(V const& a, V const& b) { return a != b; }
VF_E bool v_lt(V const& a, V const& b) { return a < b; }
VF_E bool v_le(V const& a, V const& b) { return a <= b; }
VF_E bool v_gt(V const& a, V const& b) { return a > b; }
VF_E bool v_ge(V const& a, V const& b) { return a >= b; }
VF_E size_type v_erase_value(V& v, int const& x) { return etl::erase(v, x); }
VF_E size_type v_erase_if(V& v) { return etl::erase_if(v, is_mult3{}); }
// heterogeneous value ([vector.erasure]: elements e with e == value, compared in the common type, are removed)
VF_E size_type v_erase_value_ll(V& v, long long const& x) { return etl::erase(v, x); }
VF_E size_type v_erase_value_u(V& v, unsigned const& x) { return etl::erase(v, x); }
VF_E size_type v_erase_value_d(V& v, double const& x) { return etl::erase(v, x); }
// a floating-point element type: equality is value equality (+0 == -0, NaN != NaN), not bit equality
using VD = etl::static_vector<double, VF_N>;
VF_E bool vd_eq(VD const& a, VD const& b) { return a == b; }
VF_E bool vd_ne(VD const& a, VD const& b) { return a != b; }
VF_E bool vd_lt(VD const& a, VD const& b) { return a < b; }
VF_E size_type vd_erase_value(VD& v, double const& x) { return etl::erase(v, x); }
VF_E int* v_front(V& v) { return &v.front(); }
VF_E int* v_back(V& v) { return &v.back(); }
VF_E int* v_index(V& v, size_type i) { return &v[i]; }
VF_E int const* v_cindex(V const& v, size_type i) { return &v[i]; }
VF_E int* v_data(V& v) { return v.data(); }
VF_E int* v_begin(V& v) { return v.begin(); }
VF_E int* v_end(V& v) { return v.end(); }
VF_E int* v_rbegin_base(V& v) { return v.rbegin().base(); }
VF_E int* v_rend_base(V& v) { return v.rend().base(); }
VF_E int const* v_cbegin(V const& v) { return v.cbegin(); }
VF_E int const* v_cend(V const& v) { return v.cend(); }
VF_E int const* v_begin_c(V const& v) { return v.begin(); }
VF_E int const* v_end_c(V const& v) { return v.end(); }
VF_E int const* v_crbegin_base(V const& v) { return v.crbegin().base(); }
VF_E int const* v_crend_base(V const& v) { return v.crend().base(); }
VF_E int const* v_rbegin_c_base(V const& v) { return v.rbegin().base(); }
VF_E int const* v_rend_c_base(V const& v) { return v.rend().base(); }
VF_E int const* v_front_c(V const& v) { return &v.front(); }
VF_E int const* v_back_c(V const& v) { return &v.back(); }
VF_E int const* v_data_c(V const& v) { return v.data(); }
VF_E size_type v_size(V const& v) { return v.size(); }
VF_E size_type v_capacity(V const& v) { return v.capacity(); }
VF_E size_type v_max_size(V const& v) { return v.max_size(); }
VF_E bool v_empty(V const& v) { return v.empty(); }
VF_E bool v_full(V const& v) { return v.full(); }

using S = etl::stack<int, V>;
VF_E void s_push(S& s, int const& x) { s.push(x); }
VF_E void s_pop(S& s) { s.pop(); }
VF_E int* s_top(S& s) { return &s.top(); }
VF_E size_type s_size(S const& s) { return s.size(); }
VF_E bool s_empty(S const& s) { return s.empty(); }
VF_E void s_swap(S& a, S& b) { a.swap(b); }
VF_E bool s_eq(S const& a, S const& b) { return a == b; }
VF_E bool s_lt(S const& a, S const& b) { return a < b; }
}
