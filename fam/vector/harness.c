/* vector: static_vector<int,N> against the std::vector reference semantics ([vector.modifiers], [sequence.reqmts]) — C01.
 * Every harness starts from an ARBITRARY well-formed object (all bytes symbolic, constrained by wf only): induction over histories.
 * view(v) = (n, a[0..n)); wf(v) = n <= N.  Postconditions are stated over the WHOLE view. */
#define N VF_N
#define CAT_(a, b) a##b
#define CAT(a, b) CAT_(a, b)
typedef struct CAT(etl_static_vector_int_, VF_N) V;
typedef struct CAT(etl_stack_int_etl_static_vector_int_, VF_N) S;
typedef struct CAT(etl_static_vector_double_, VF_N) VD;
typedef struct { unsigned long n; int a[N + 1]; } view_t;

#if VF_N > 0
#define SZ(v) ((v).b0._size)
#define EL(v, i) ((v).b0._data._buf[i])
#define WF(v) (SZ(v) <= N)
static view_t view_of(const V *v) { view_t w; w.n = SZ(*v); for (int i = 0; i < N; ++i) w.a[i] = (unsigned long)i < w.n ? EL(*v, i) : 0; w.a[N] = 0; return w; }
static int *data_of(V *v) { return &EL(*v, 0); }
/* snapshot for C05: a violated precondition must be detected before the object is touched */
V vf_snap; V *vf_snap_of;
#define VF_HANDLER_CHECK() do { if (vf_snap_of) { _Bool same = SZ(*vf_snap_of) == SZ(vf_snap); for (int i = 0; i < N; ++i) same = same && EL(*vf_snap_of, i) == EL(vf_snap, i); \
    __CPROVER_assert(same, "C05: the object is unmodified when the assertion handler runs"); } } while (0)
#define EXPECT_VIOLATION(v) do { vf_expect_handler = 1; vf_snap = (v); vf_snap_of = &(v); } while (0)
#endif
#include "vf_handler.h"

static _Bool view_eq(view_t x, view_t y) { if (x.n != y.n) return 0; for (int i = 0; i < N; ++i) if ((unsigned long)i < x.n && x.a[i] != y.a[i]) return 0; return 1; }
/* reference semantics on views */
static view_t sp_insert_n(view_t o, unsigned long p, unsigned long c, int x) { view_t r; r.n = o.n + c;
  for (int i = 0; i <= N; ++i) { unsigned long k = (unsigned long)i; r.a[i] = k < p ? o.a[i] : (k < p + c ? x : (k < r.n && k - c <= N ? o.a[k - c] : 0)); } return r; }
static view_t sp_insert_range(view_t o, unsigned long p, const int *src, unsigned long c) { view_t r; r.n = o.n + c;
  for (int i = 0; i <= N; ++i) { unsigned long k = (unsigned long)i; r.a[i] = k < p ? o.a[i] : (k < p + c ? src[k - p] : (k < r.n && k - c <= N ? o.a[k - c] : 0)); } return r; }
static view_t sp_erase(view_t o, unsigned long f, unsigned long l) { view_t r; r.n = o.n - (l - f);
  for (int i = 0; i <= N; ++i) { unsigned long k = (unsigned long)i; r.a[i] = k < f ? o.a[i] : (k < r.n && k + (l - f) <= N ? o.a[k + (l - f)] : 0); } return r; }
static view_t sp_resize(view_t o, unsigned long m, int x) { view_t r; r.n = m; for (int i = 0; i <= N; ++i) r.a[i] = (unsigned long)i < o.n ? o.a[i] : x; return r; }
static int sp_lexcmp(view_t x, view_t y) { for (int i = 0; i < N; ++i) { if ((unsigned long)i >= x.n || (unsigned long)i >= y.n) break; if (x.a[i] < y.a[i]) return -1; if (y.a[i] < x.a[i]) return 1; }
  return x.n < y.n ? -1 : (x.n > y.n ? 1 : 0); }

#define ARB(v) VF_INPUT(V, v); __CPROVER_assume(WF(v))
#define CAPACITY_UNCHANGED(v) VF_ASSERT(v_capacity(&(v)) == N && v_max_size(&(v)) == N, "capacity() and max_size() are always N")

/*@GROUP name=default_ctor props=C01,C02 kind=K unwind=9 when=(VF_N>0)*(VF_N<=8)@*/
void h_default_ctor(void) { VF_INPUT(V, v); /* indeterminate storage */ v_default(&v);
  VF_ASSERT(SZ(v) == 0 && v_size(&v) == 0 && v_empty(&v), "default construction establishes wf and the empty view (no uninitialised size)"); CAPACITY_UNCHANGED(v); VF_REACH(); }

/*@GROUP name=push_back props=C01,C02,C05 kind=K unwind=9 when=(VF_N>0)*(VF_N<=8)@*/
void h_push_back(void) { ARB(v); VF_INPUT(int, x); VF_INPUT(unsigned char, which); __CPROVER_assume(SZ(v) < N); view_t o = view_of(&v);
  if (which == 0) v_push_back(&v, &x); else if (which == 1) v_push_back_rv(&v, x); else v_emplace_back(&v, x);
  VF_ASSERT(WF(v) && view_eq(view_of(&v), sp_insert_n(o, o.n, 1, x)), "push_back/emplace_back: n' = n+1, prefix unchanged, a'[n] = x"); CAPACITY_UNCHANGED(v); VF_REACH(); }

/*@GROUP name=pop_back props=C01,C02,C05 kind=K unwind=9 when=(VF_N>0)*(VF_N<=8)@*/
void h_pop_back(void) { ARB(v); __CPROVER_assume(SZ(v) > 0); view_t o = view_of(&v); v_pop_back(&v);
  VF_ASSERT(WF(v) && view_eq(view_of(&v), sp_erase(o, o.n - 1, o.n)), "pop_back: n' = n-1, prefix unchanged"); VF_REACH(); }

/*@GROUP name=insert props=C01,C02,C05 kind=K unwind=9 cost=3 when=(VF_N>0)*(VF_N<=8)@*/
void h_insert(void) { ARB(v); VF_INPUT(int, x); VF_INPUT(unsigned char, p); VF_INPUT(unsigned char, which); __CPROVER_assume(SZ(v) < N && p <= SZ(v)); view_t o = view_of(&v);
  int *r = which == 0 ? v_insert(&v, data_of(&v) + p, &x) : (which == 1 ? v_insert_rv(&v, data_of(&v) + p, x) : v_emplace(&v, data_of(&v) + p, x));
  VF_ASSERT(WF(v) && view_eq(view_of(&v), sp_insert_n(o, p, 1, x)), "insert/emplace(pos,x): n' = n+1; prefix; a'[p] = x; suffix shifted up by one");
  VF_ASSERT(r == data_of(&v) + p, "insert/emplace(pos,x) returns begin()+p"); CAPACITY_UNCHANGED(v); VF_REACH(); }

/* ---- arguments that alias an element of the vector itself ([sequence.reqmts]: v.insert(p, v[k]), v.push_back(v[k]),
 * v.insert(p, n, v[k]), v.assign(n, v[k]), v.resize(n, v[k]) must behave as if the value had been copied first) */
/*@GROUP name=alias_value props=C01,C02,C05 kind=K unwind=9 cost=3 when=(VF_N>1)*(VF_N<=8)@*/
void h_alias_value(void) { ARB(v); VF_INPUT(unsigned char, p); VF_INPUT(unsigned char, k); VF_INPUT(unsigned char, c); VF_INPUT(unsigned char, which);
  __CPROVER_assume(SZ(v) >= 1 && k < SZ(v) && p <= SZ(v) && which <= 4); view_t o = view_of(&v); int x = o.a[k]; const int *src = data_of(&v) + k;
  if (which == 0) { __CPROVER_assume(SZ(v) < N); int *r = v_insert(&v, data_of(&v) + p, src);
    VF_ASSERT(WF(v) && view_eq(view_of(&v), sp_insert_n(o, p, 1, x)) && r == data_of(&v) + p, "insert(pos, v[k]): the value v[k] had BEFORE the call is inserted"); }
  else if (which == 1) { __CPROVER_assume(SZ(v) < N); v_push_back(&v, src);
    VF_ASSERT(WF(v) && view_eq(view_of(&v), sp_insert_n(o, o.n, 1, x)), "push_back(v[k]) appends the value of v[k]"); }
  else if (which == 2) { __CPROVER_assume(c <= N && SZ(v) + c <= N); int *r = v_insert_n(&v, data_of(&v) + p, c, src);
    VF_ASSERT(WF(v) && view_eq(view_of(&v), sp_insert_n(o, p, c, x)) && r == data_of(&v) + p, "insert(pos, c, v[k]): c copies of the value v[k] had BEFORE the call"); }
  else if (which == 3) { __CPROVER_assume(c <= N && c >= SZ(v)); v_resize_x(&v, c, src); view_t e = o; for (unsigned i = 0; i < N; ++i) if (i >= o.n && i < c) e.a[i] = x; e.n = c;
    VF_ASSERT(WF(v) && view_eq(view_of(&v), e), "resize(c, v[k]) appends copies of the value of v[k]"); }
  else { __CPROVER_assume(c <= N); v_assign_n(&v, c, src); view_t e; e.n = c; for (unsigned i = 0; i <= N; ++i) e.a[i] = i < c ? x : 0;
    VF_ASSERT(WF(v) && SZ(v) == c, "assign(c, v[k]): size"); for (unsigned i = 0; i < N; ++i) if (i < c) VF_ASSERT(data_of(&v)[i] == x, "assign(c, v[k]): every element is the value v[k] had BEFORE the call"); }
  VF_REACH(); }

/*@GROUP name=insert_n props=C01,C02,C05 kind=K unwind=9 cost=3 when=(VF_N>0)*(VF_N<=8)@*/
void h_insert_n(void) { ARB(v); VF_INPUT(int, x); VF_INPUT(unsigned char, p); VF_INPUT(unsigned char, c); __CPROVER_assume(p <= SZ(v) && c <= N && SZ(v) + c <= N); view_t o = view_of(&v);
  int *r = v_insert_n(&v, data_of(&v) + p, c, &x);
  VF_ASSERT(WF(v) && view_eq(view_of(&v), sp_insert_n(o, p, c, x)), "insert(pos,c,x): n' = n+c; prefix; c copies of x; suffix shifted up by c");
  VF_ASSERT(r == data_of(&v) + p, "insert(pos,c,x) returns begin()+p (also for c == 0)"); VF_REACH(); }

/*@GROUP name=insert_range props=C01,C02,C05 kind=K unwind=9 cost=3 when=(VF_N>0)*(VF_N<=8)@*/
void h_insert_range(void) { ARB(v); VF_INPUT(unsigned char, p); VF_INPUT(unsigned char, c); __CPROVER_assume(p <= SZ(v) && c <= N && SZ(v) + c <= N); VF_BUF(int, src, c, N); view_t o = view_of(&v);
  int *r = v_insert_range(&v, data_of(&v) + p, src, src + c);
  VF_ASSERT(WF(v) && view_eq(view_of(&v), sp_insert_range(o, p, src_in, c)), "insert(pos,first,last): n' = n+c; prefix; the source range in order; suffix shifted up by c");
  VF_ASSERT(r == data_of(&v) + p, "insert(pos,first,last) returns begin()+p (also for an empty range)"); VF_REACH(); }

/*@GROUP name=erase props=C01,C02,C05 kind=K unwind=9 when=(VF_N>0)*(VF_N<=8)@*/
void h_erase(void) { ARB(v); VF_INPUT(unsigned char, p); __CPROVER_assume(p < SZ(v)); view_t o = view_of(&v);
  int *r = v_erase(&v, data_of(&v) + p);
  VF_ASSERT(WF(v) && view_eq(view_of(&v), sp_erase(o, p, p + 1)), "erase(pos): n' = n-1; prefix; suffix shifted down by one");
  VF_ASSERT(r == data_of(&v) + p, "erase(pos) returns the position of the element that followed"); VF_REACH(); }

/*@GROUP name=erase_range props=C01,C02,C05 kind=K unwind=9 when=(VF_N>0)*(VF_N<=8)@*/
void h_erase_range(void) { ARB(v); VF_INPUT(unsigned char, f); VF_INPUT(unsigned char, l); __CPROVER_assume(f <= l && l <= SZ(v)); view_t o = view_of(&v);
  int *r = v_erase_range(&v, data_of(&v) + f, data_of(&v) + l);
  VF_ASSERT(WF(v) && view_eq(view_of(&v), sp_erase(o, f, l)), "erase(first,last): n' = n-(l-f); prefix; suffix shifted down");
  VF_ASSERT(r == data_of(&v) + f, "erase(first,last) returns begin()+f (also for an empty range)"); VF_REACH(); }

/*@GROUP name=resize props=C01,C02,C05 kind=K unwind=9 when=(VF_N>0)*(VF_N<=8)@*/
void h_resize(void) { ARB(v); VF_INPUT(unsigned char, m); VF_INPUT(int, x); VF_INPUT_BOOL(with_value); __CPROVER_assume(m <= N); view_t o = view_of(&v);
  if (with_value) v_resize_x(&v, m, &x); else v_resize(&v, m);
  VF_ASSERT(WF(v) && view_eq(view_of(&v), sp_resize(o, m, with_value ? x : 0)), "resize(m[,x]): n' = m; common prefix kept; new slots are T{} / x"); VF_REACH(); }

/*@GROUP name=assign props=C01,C02,C05 kind=K unwind=9 when=(VF_N>0)*(VF_N<=8)@*/
void h_assign(void) { ARB(v); VF_INPUT(unsigned char, c); VF_INPUT(int, x); __CPROVER_assume(c <= N); view_t e; e.n = 0;
  v_assign_n(&v, c, &x);
  VF_ASSERT(WF(v) && view_eq(view_of(&v), sp_resize(e, c, x)), "assign(c,x): c copies of x"); VF_REACH(); }

/*@GROUP name=assign_range props=C01,C02,C05 kind=K unwind=9 when=(VF_N>0)*(VF_N<=8)@*/
void h_assign_range(void) { ARB(v); VF_INPUT(unsigned char, c); __CPROVER_assume(c <= N); VF_BUF(int, src, c, N); view_t e; e.n = 0;
  v_assign_range(&v, src, src + c);
  VF_ASSERT(WF(v) && view_eq(view_of(&v), sp_insert_range(e, 0, src_in, c)), "assign(first,last): exactly the source range"); VF_REACH(); }

/*@GROUP name=clear props=C01,C02 kind=K unwind=9 when=(VF_N>0)*(VF_N<=8)@*/
void h_clear(void) { ARB(v); v_clear(&v); VF_ASSERT(SZ(v) == 0 && v_empty(&v) && v_size(&v) == 0, "clear: empty"); CAPACITY_UNCHANGED(v); VF_REACH(); }

/*@GROUP name=ctors props=C01,C02,C05 kind=K unwind=9 when=(VF_N>0)*(VF_N<=8)@*/
void h_ctors(void) { VF_INPUT(V, a); VF_INPUT(V, b); VF_INPUT(V, c); VF_INPUT(unsigned char, m); VF_INPUT(int, x); __CPROVER_assume(m <= N); VF_BUF(int, src, m, N); view_t e; e.n = 0;
  v_ctor_n(&a, m); VF_ASSERT(WF(a) && view_eq(view_of(&a), sp_resize(e, m, 0)), "static_vector(n): n value-initialised elements");
  v_ctor_n_x(&b, m, &x); VF_ASSERT(WF(b) && view_eq(view_of(&b), sp_resize(e, m, x)), "static_vector(n,x): n copies of x");
  v_ctor_range(&c, src, src + m); VF_ASSERT(WF(c) && view_eq(view_of(&c), sp_insert_range(e, 0, src_in, m)), "static_vector(first,last): the source range"); VF_REACH(); }

/*@GROUP name=copy_move props=C01,C02 kind=K unwind=9 cost=2 when=(VF_N>0)*(VF_N<=8)@*/
void h_copy_move(void) { ARB(s); VF_INPUT(V, t); VF_INPUT(unsigned char, which); VF_INPUT(int, x); view_t os = view_of(&s); V s0 = s;
  if (which == 0) v_copy_ctor(&t, &s);
  else if (which == 1) { __CPROVER_assume(WF(t)); v_copy_assign(&t, &s); }
  else if (which == 2) v_move_ctor(&t, &s);
  else { __CPROVER_assume(WF(t)); v_move_assign(&t, &s); }
  VF_ASSERT(WF(t) && view_eq(view_of(&t), os), "copy/move construction and assignment: target view == source view");
  VF_ASSERT(WF(s), "source stays well-formed (valid, assignable, destructible)");
  if (which <= 1) { VF_ASSERT(view_eq(view_of(&s), os), "copy leaves the source view unchanged");
    if (SZ(t) > 0) { EL(t, 0) = x; v_pop_back(&t); } VF_ASSERT(view_eq(view_of(&s), os), "independence: mutating the copy leaves the source view unchanged"); }
  VF_REACH(); }

/*@GROUP name=self_assign props=C01,C02 kind=K unwind=9 when=(VF_N>0)*(VF_N<=8)@*/
void h_self_assign(void) { ARB(s); view_t os = view_of(&s); VF_INPUT_BOOL(mv); if (mv) v_move_assign(&s, &s); else v_copy_assign(&s, &s);
  VF_ASSERT(WF(s), "self-assignment keeps the object well-formed"); VF_KNOWN(C01_self_copy_assign, !mv && os.n > 0); if (!mv) VF_ASSERT(view_eq(view_of(&s), os), "copy self-assignment keeps the view"); VF_REACH(); }

/*@GROUP name=swap props=C01,C02 kind=K unwind=9 cost=2 when=(VF_N>0)*(VF_N<=8)@*/
void h_swap(void) { ARB(a); ARB(b); VF_INPUT_BOOL(fr); view_t oa = view_of(&a), ob = view_of(&b); if (fr) v_swap_free(&a, &b); else v_swap(&a, &b);
  VF_ASSERT(WF(a) && WF(b) && view_eq(view_of(&a), ob) && view_eq(view_of(&b), oa), "swap exchanges the two views"); VF_REACH(); }

/*@GROUP name=self_swap props=C01,C02 kind=K unwind=9 when=(VF_N>0)*(VF_N<=8)@*/
void h_self_swap(void) { ARB(a); view_t oa = view_of(&a); v_swap(&a, &a); VF_ASSERT(WF(a) && view_eq(view_of(&a), oa), "self-swap keeps the view"); VF_REACH(); }

/*@GROUP name=relational props=C01,C02 kind=K unwind=9 when=(VF_N>0)*(VF_N<=8)@*/
void h_relational(void) { ARB(a); ARB(b); int c = sp_lexcmp(view_of(&a), view_of(&b)); _Bool eq = view_eq(view_of(&a), view_of(&b));
  VF_ASSERT(v_eq(&a, &b) == eq && v_ne(&a, &b) == !eq, "== and != compare size and elements");
  VF_ASSERT(v_lt(&a, &b) == (c < 0) && v_le(&a, &b) == (c <= 0) && v_gt(&a, &b) == (c > 0) && v_ge(&a, &b) == (c >= 0), "<,<=,>,>= are the lexicographic comparison of the two views"); VF_REACH(); }

/*@GROUP name=erase_value props=C01,C02 kind=K unwind=9 cost=2 when=(VF_N>0)*(VF_N<=8)@*/
void h_erase_value(void) { ARB(v); VF_INPUT(int, x); VF_INPUT_BOOL(pred); view_t o = view_of(&v); view_t e; e.n = 0;
  for (int i = 0; i < N; ++i) if ((unsigned long)i < o.n && !(pred ? o.a[i] % 3 == 0 : o.a[i] == x)) { e.a[e.n] = o.a[i]; ++e.n; }
  unsigned long r = pred ? v_erase_if(&v) : v_erase_value(&v, &x);
  VF_ASSERT(WF(v) && view_eq(view_of(&v), e), "erase(c,value)/erase_if(c,pred): exactly the non-matching elements survive, in their original order");
  VF_ASSERT(r == o.n - e.n, "erase/erase_if return the number of removed elements"); VF_REACH(); }

/*@GROUP name=erase_hetero props=C01,C02 kind=K unwind=9 cost=2 when=(VF_N>0)*(VF_N<=8)@*/
void h_erase_hetero(void) { ARB(v); VF_INPUT(long long, xl); VF_INPUT(unsigned, xu); VF_INPUT_BOOL(uns); view_t o = view_of(&v); view_t e; e.n = 0;
  for (int i = 0; i < N; ++i) if ((unsigned long)i < o.n) { _Bool m = uns ? (unsigned)o.a[i] == xu : (long long)o.a[i] == xl; if (!m) { e.a[e.n] = o.a[i]; ++e.n; } }
  unsigned long r = uns ? v_erase_value_u(&v, &xu) : v_erase_value_ll(&v, &xl);
  VF_ASSERT(WF(v) && view_eq(view_of(&v), e), "erase(c, value of another integer type): exactly the elements with e == value (usual arithmetic conversions, no narrowing of the value) are removed");
  VF_ASSERT(r == o.n - e.n, "erase returns the number of removed elements"); VF_REACH(); }
/*@GROUP name=erase_hetero_d props=C01,C02 kind=K unwind=9 cost=4 when=(VF_N>0)*(VF_N<=4) tier=thorough timeout=3000@*/
void h_erase_hetero_d(void) { ARB(v); VF_INPUT(double, xd); view_t o = view_of(&v); view_t e; e.n = 0;
  for (int i = 0; i < N; ++i) if ((unsigned long)i < o.n) { if (!((double)o.a[i] == xd)) { e.a[e.n] = o.a[i]; ++e.n; } }
  unsigned long r = v_erase_value_d(&v, &xd);
  VF_ASSERT(WF(v) && view_eq(view_of(&v), e), "erase(c, double): exactly the elements with (double)e == value are removed");
  VF_ASSERT(r == o.n - e.n, "erase returns the number of removed elements"); VF_REACH(); }

/*@GROUP name=float_elements props=C01,C02 kind=K unwind=9 cost=2 when=(VF_N>0)*(VF_N<=4)@*/
void h_float_elements(void) { VF_INPUT(VD, a); VF_INPUT(VD, b); __CPROVER_assume(a.b0._size <= N && b.b0._size <= N);
  const double *pa = (const double *)&a, *pb = (const double *)&b; unsigned long na = a.b0._size, nb = b.b0._size;
  _Bool eq = na == nb; for (int i = 0; i < N; ++i) if ((unsigned long)i < na && (unsigned long)i < nb && !(pa[i] == pb[i])) eq = 0;
  VF_ASSERT(vd_eq(&a, &b) == eq && vd_ne(&a, &b) == !eq, "static_vector<double> ==/!=: element-wise VALUE equality (+0 == -0, NaN != NaN), at run time as at compile time");
  VF_REACH(); }

/*@GROUP name=access props=C01,C02,C05 kind=K unwind=9 when=(VF_N>0)*(VF_N<=8)@*/
void h_access(void) { ARB(v); VF_INPUT(unsigned char, i); view_t o = view_of(&v);
  VF_ASSERT(v_size(&v) == o.n && v_empty(&v) == (o.n == 0) && v_full(&v) == (o.n == N), "size/empty/full follow the view"); CAPACITY_UNCHANGED(v);
  VF_ASSERT(v_data(&v) == data_of(&v) && v_begin(&v) == data_of(&v) && v_end(&v) == data_of(&v) + o.n, "data/begin/end");
  VF_ASSERT(v_rbegin_base(&v) == data_of(&v) + o.n && v_rend_base(&v) == data_of(&v), "rbegin().base() == end(), rend().base() == begin()");
  VF_ASSERT(v_cbegin(&v) == data_of(&v) && v_cend(&v) == data_of(&v) + o.n && v_begin_c(&v) == data_of(&v) && v_end_c(&v) == data_of(&v) + o.n && v_data_c(&v) == data_of(&v), "cbegin/cend, const begin/end/data");
  VF_ASSERT(v_crbegin_base(&v) == data_of(&v) + o.n && v_crend_base(&v) == data_of(&v) && v_rbegin_c_base(&v) == data_of(&v) + o.n && v_rend_c_base(&v) == data_of(&v), "crbegin/crend and const rbegin/rend: base() == end() / begin()");
  if (o.n > 0) { VF_ASSERT(v_front(&v) == data_of(&v) && v_back(&v) == data_of(&v) + (o.n - 1) && v_front_c(&v) == data_of(&v) && v_back_c(&v) == data_of(&v) + (o.n - 1), "front/back (const and non-const) address the first/last element"); }
  if (i < o.n) { VF_ASSERT(v_index(&v, i) == data_of(&v) + i && v_cindex(&v, i) == data_of(&v) + i, "operator[](i) addresses element i"); }
  VF_REACH(); }

/*@GROUP name=stack props=C01,C02 kind=K unwind=9 when=(VF_N>0)*(VF_N<=8)@*/
void h_stack(void) { VF_INPUT(S, s); VF_INPUT(S, t); VF_INPUT(int, x); VF_INPUT(unsigned char, op); __CPROVER_assume(WF(s.c) && WF(t.c)); view_t o = view_of(&s.c), ot = view_of(&t.c);
  VF_ASSERT(s_size(&s) == o.n && s_empty(&s) == (o.n == 0), "stack size/empty follow the container");
  VF_ASSERT(s_eq(&s, &t) == view_eq(o, ot) && s_lt(&s, &t) == (sp_lexcmp(o, ot) < 0), "stack comparisons are the container's");
  if (op == 0 && o.n < N) { s_push(&s, &x); VF_ASSERT(view_eq(view_of(&s.c), sp_insert_n(o, o.n, 1, x)) && *s_top(&s) == x, "push then top"); }
  else if (op == 1 && o.n > 0) { VF_ASSERT(s_top(&s) == data_of(&s.c) + (o.n - 1), "top is the last element"); s_pop(&s); VF_ASSERT(view_eq(view_of(&s.c), sp_erase(o, o.n - 1, o.n)), "pop removes the last element"); }
  else if (op == 2) { s_swap(&s, &t); VF_ASSERT(view_eq(view_of(&s.c), ot) && view_eq(view_of(&t.c), o), "stack swap"); }
  VF_REACH(); }

/*@GROUP name=boundary props=C01,C02,C05 kind=F when=VF_N>=200@*/
void h_boundary(void) { /* the internal size type changes width around capacity 255/256: loop-free members from every state, ghost element index g */
  ARB(v); VF_INPUT(int, x); VF_INPUT(unsigned long, g); __CPROVER_assume(g < N); unsigned long n = SZ(v); int old_g = EL(v, g);
  VF_ASSERT(v_size(&v) == n && v_full(&v) == (n == N) && v_empty(&v) == (n == 0), "size/full/empty follow the stored size at a size-type boundary capacity"); CAPACITY_UNCHANGED(v);
  VF_ASSERT(v_end(&v) == data_of(&v) + n, "end() == begin() + size()");
  if (n < N) { v_push_back(&v, &x);
    VF_ASSERT(SZ(v) == n + 1 && v_size(&v) == n + 1 && v_empty(&v) == 0 && v_full(&v) == (n + 1 == N), "push_back up to and including the last free slot: size grows by one, no wrap-around of the size field");
    VF_ASSERT(EL(v, g) == (g == n ? x : old_g), "push_back writes slot n only");
    VF_ASSERT(v_back(&v) == data_of(&v) + n, "back() addresses the new element"); CAPACITY_UNCHANGED(v);
    v_pop_back(&v); VF_ASSERT(SZ(v) == n && v_size(&v) == n, "pop_back undoes it"); }
  VF_REACH(); }

/* ---- C05: violated preconditions reach the handler, object untouched -------------------------------------------------- */
/*@GROUP name=viol_grow props=C05,C02 kind=K unwind=9 when=(VF_N>0)*(VF_N<=8)@*/
void h_viol_grow(void) { ARB(v); VF_INPUT(int, x); VF_INPUT(unsigned char, op); VF_INPUT(unsigned char, p); VF_INPUT(unsigned long, c); __CPROVER_assume(p <= SZ(v)); EXPECT_VIOLATION(v);
  if (op == 0) { __CPROVER_assume(SZ(v) == N); v_push_back(&v, &x); }
  else if (op == 1) { __CPROVER_assume(SZ(v) == N); v_emplace_back(&v, x); }
  else if (op == 2) { __CPROVER_assume(SZ(v) == N); v_insert(&v, data_of(&v) + p, &x); }
  else if (op == 3) { __CPROVER_assume(SZ(v) == N); v_emplace(&v, data_of(&v) + p, x); }
  else if (op == 4) { __CPROVER_assume(c > N - SZ(v)); v_insert_n(&v, data_of(&v) + p, c, &x); }
  else if (op == 5) { __CPROVER_assume(c > N); v_resize(&v, c); }
  else if (op == 6) { __CPROVER_assume(c > N); v_resize_x(&v, c, &x); }
  else if (op == 7) { __CPROVER_assume(c > N); v_assign_n(&v, c, &x); }
  else { __CPROVER_assume(SZ(v) == N); v_insert_rv(&v, data_of(&v) + p, x); }
  VF_NORETURN_EXPECTED(); }

/*@GROUP name=viol_grow_range props=C05,C02 kind=K unwind=9 when=(VF_N>0)*(VF_N<=8)@*/
void h_viol_grow_range(void) { /* a sized range that does not fit the REMAINING room (it may well fit an empty vector) */
  ARB(v); VF_INPUT(unsigned char, p); VF_INPUT(unsigned char, c); __CPROVER_assume(p <= SZ(v) && c <= N && SZ(v) + c > N); VF_BUF(int, src, c, N); EXPECT_VIOLATION(v);
  v_insert_range(&v, data_of(&v) + p, src, src + c);
  VF_NORETURN_EXPECTED(); }

/*@GROUP name=viol_empty props=C05,C02 kind=K unwind=9 when=(VF_N>0)*(VF_N<=8)@*/
void h_viol_empty(void) { ARB(v); VF_INPUT(unsigned char, op); __CPROVER_assume(SZ(v) == 0); EXPECT_VIOLATION(v);
  if (op == 0) v_pop_back(&v); else if (op == 1) v_back(&v); else v_front(&v);
  VF_NORETURN_EXPECTED(); }

/*@GROUP name=viol_index props=C05,C02 kind=K unwind=9 when=(VF_N>0)*(VF_N<=8)@*/
void h_viol_index(void) { ARB(v); VF_INPUT(unsigned long, i); VF_INPUT_BOOL(cst); __CPROVER_assume(i >= SZ(v));
  VF_KNOWN(C05_index_ptrdiff_cast, i > 0x7fffffffffffffffUL);
  EXPECT_VIOLATION(v); if (cst) v_cindex(&v, i); else v_index(&v, i); VF_NORETURN_EXPECTED(); }

/*@GROUP name=viol_pos props=C05,C02 kind=K unwind=9 when=(VF_N>0)*(VF_N<=8)@*/
void h_viol_pos(void) { ARB(v); VF_INPUT(int, x); VF_INPUT(unsigned char, op); VF_INPUT(unsigned char, p); VF_INPUT(unsigned char, q);
  /* positions outside [begin,end] but inside the storage array, and reversed iterator pairs */
  EXPECT_VIOLATION(v);
  if (op == 0) { __CPROVER_assume(SZ(v) < N && p > SZ(v) && p <= N); v_insert(&v, data_of(&v) + p, &x); }
  else if (op == 1) { __CPROVER_assume(p >= SZ(v) && p <= N); v_erase(&v, data_of(&v) + p); }
  else if (op == 2) { __CPROVER_assume(p <= N && q <= N && (p > q || q > SZ(v))); v_erase_range(&v, data_of(&v) + p, data_of(&v) + q); }
  else { __CPROVER_assume(SZ(v) < N && p > SZ(v) && p <= N); v_insert_n(&v, data_of(&v) + p, 1, &x); }
  VF_NORETURN_EXPECTED(); }
