/* fam/algo: algorithm.hpp / numeric.hpp over pointer iterators (C06).
 *   <fn>    kind=U  contract mode: the function contract + loop contract of contracts.spec enforced on the real tetl function,
 *                   ranges of ghost length vf_n (<= 10^6), ghost indices vf_k/vf_j stand for "for all k".
 *   <fn>_b  kind=B  bounded stand-in (len <= 4, all element values symbolic): the full postcondition against a plain
 *                   reference loop; replayable natively, guards against a wrong contract.                                   */
void _ZN3etl14assert_handlerINS_10assert_msgEEEvRKT_(struct etl_assert_msg *m) { __CPROVER_assert(0, "C05: assert_handler fired on valid input"); __CPROVER_assume(0); }
#define GH() do { vf_n = nondet_ulong(); vf_m = nondet_ulong(); vf_k = nondet_ulong(); vf_j = nondet_ulong(); vf_p = nondet_ulong(); vf_q = nondet_ulong(); vf_ov = nondet_ulong(); } while (0)
#define P3(x) ((x) % 3 == 0)
#define OP1(x) ((int)((unsigned)(x) * 2u + 1u))
#define OP2(x, y) ((int)((unsigned)(x) * 3u + (unsigned)(y)))
#define MAXB 4
/* bounded stand-ins: symbolic length n <= MAXB, exact-size buffer a (copy of a_in) */
#define IN1(a, n) VF_INPUT(unsigned long, n); VF_BUF(int, a, n, MAXB)
#define UNCHANGED(a, n) for (unsigned long i_ = 0; i_ < (n); ++i_) VF_ASSERT(a[i_] == a##_in[i_], "C06: range is not modified")

/*@GROUP name=find props=C06,C02 kind=U mode=contract enforce=etl_find loops=1 standin=find_b@*/
void h_find(void) { int *f, *l, *v; GH(); etl_find(f, l, v); VF_REACH(); }
/*@GROUP name=find_b props=C06,C02 kind=B bound=len<=4 unwind=6@*/
void h_find_b(void) { IN1(a, n); VF_INPUT(int, v); int *r = find_int(a, a + n, &v);
  unsigned long i = 0; while (i < n && a_in[i] != v) ++i;
  VF_ASSERT(r == a + i, "C06: find returns the first match, or last"); UNCHANGED(a, n); VF_REACH(); }

/*@GROUP name=find_if props=C06,C02 kind=U mode=contract enforce=etl_find_if loops=1 standin=find_if_b@*/
void h_find_if(void) { int *f, *l; struct vf_pred3 p; GH(); etl_find_if(f, l, p); VF_REACH(); }
/*@GROUP name=find_if_b props=C06,C02 kind=B bound=len<=4 unwind=6@*/
void h_find_if_b(void) { IN1(a, n); int *r = find_if_p3(a, a + n);
  unsigned long i = 0; while (i < n && !P3(a_in[i])) ++i;
  VF_ASSERT(r == a + i, "C06: find_if returns the first match, or last"); UNCHANGED(a, n); VF_REACH(); }

/*@GROUP name=find_if_not props=C06,C02 kind=U mode=contract enforce=etl_find_if_not loops=1 standin=find_if_not_b@*/
void h_find_if_not(void) { int *f, *l; struct vf_pred3 p; GH(); etl_find_if_not(f, l, p); VF_REACH(); }
/*@GROUP name=find_if_not_b props=C06,C02 kind=B bound=len<=4 unwind=6@*/
void h_find_if_not_b(void) { IN1(a, n); int *r = find_if_not_p3(a, a + n);
  unsigned long i = 0; while (i < n && P3(a_in[i])) ++i;
  VF_ASSERT(r == a + i, "C06: find_if_not returns the first non-match, or last"); UNCHANGED(a, n); VF_REACH(); }

/*@GROUP name=all_of props=C06,C02 kind=U mode=contract enforce=etl_all_of replace=etl_find_if_not standin=all_of_b@*/
void h_all_of(void) { int *f, *l; struct vf_pred3 p; GH(); etl_all_of(f, l, p); VF_REACH(); }
/*@GROUP name=all_of_b props=C06,C02 kind=B bound=len<=4 unwind=6@*/
void h_all_of_b(void) { IN1(a, n); _Bool r = all_of_p3(a, a + n);
  _Bool e = 1; for (unsigned long i = 0; i < n; ++i) if (!P3(a_in[i])) e = 0;
  VF_ASSERT(r == e, "C06: all_of"); UNCHANGED(a, n); VF_REACH(); }

/*@GROUP name=any_of props=C06,C02 kind=U mode=contract enforce=etl_any_of replace=etl_find_if standin=any_of_b@*/
void h_any_of(void) { int *f, *l; struct vf_pred3 p; GH(); etl_any_of(f, l, p); VF_REACH(); }
/*@GROUP name=any_of_b props=C06,C02 kind=B bound=len<=4 unwind=6@*/
void h_any_of_b(void) { IN1(a, n); _Bool r = any_of_p3(a, a + n);
  _Bool e = 0; for (unsigned long i = 0; i < n; ++i) if (P3(a_in[i])) e = 1;
  VF_ASSERT(r == e, "C06: any_of"); UNCHANGED(a, n); VF_REACH(); }

/*@GROUP name=none_of props=C06,C02 kind=U mode=contract enforce=etl_none_of replace=etl_find_if standin=none_of_b@*/
void h_none_of(void) { int *f, *l; struct vf_pred3 p; GH(); etl_none_of(f, l, p); VF_REACH(); }
/*@GROUP name=none_of_b props=C06,C02 kind=B bound=len<=4 unwind=6@*/
void h_none_of_b(void) { IN1(a, n); _Bool r = none_of_p3(a, a + n);
  _Bool e = 1; for (unsigned long i = 0; i < n; ++i) if (P3(a_in[i])) e = 0;
  VF_ASSERT(r == e, "C06: none_of"); UNCHANGED(a, n); VF_REACH(); }

/*@GROUP name=count props=C06,C02 kind=U mode=contract enforce=etl_count loops=1 standin=count_b@*/
void h_count(void) { int *f, *l, *v; GH(); etl_count(f, l, v); VF_REACH(); }
/*@GROUP name=count_b props=C06,C02 kind=B bound=len<=4 unwind=6@*/
void h_count_b(void) { IN1(a, n); VF_INPUT(int, v); long r = count_int(a, a + n, &v);
  long e = 0; for (unsigned long i = 0; i < n; ++i) if (a_in[i] == v) ++e;
  VF_ASSERT(r == e, "C06: count returns the number of elements equal to value"); UNCHANGED(a, n); VF_REACH(); }

/*@GROUP name=count_if props=C06,C02 kind=U mode=contract enforce=etl_count_if loops=1 standin=count_if_b@*/
void h_count_if(void) { int *f, *l; struct vf_pred3 p; GH(); etl_count_if(f, l, p); VF_REACH(); }
/*@GROUP name=count_if_b props=C06,C02 kind=B bound=len<=4 unwind=6@*/
void h_count_if_b(void) { IN1(a, n); long r = count_if_p3(a, a + n);
  long e = 0; for (unsigned long i = 0; i < n; ++i) if (P3(a_in[i])) ++e;
  VF_ASSERT(r == e, "C06: count_if returns the number of elements satisfying the predicate"); UNCHANGED(a, n); VF_REACH(); }

/*@GROUP name=for_each props=C06,C02 kind=U mode=contract enforce=etl_for_each loops=1 standin=for_each_b@*/
void h_for_each(void) { struct vf_idx_int f, l; struct vf_mut1 m; GH(); etl_for_each(f, l, m); VF_REACH(); }
/*@GROUP name=for_each_b props=C06,C02 kind=B bound=len<=4 unwind=6@*/
void h_for_each_b(void) { IN1(a, n); for_each_mut(a, a + n);
  for (unsigned long i = 0; i < n; ++i) VF_ASSERT(a[i] == OP1(a_in[i]), "C06: for_each applies f to every element exactly once");
  VF_REACH(); }

/*@GROUP name=copy props=C06,C02 kind=U mode=contract enforce=etl_copy loops=1 standin=copy_b@*/
void h_copy(void) { struct vf_idx_int f, l, d; GH(); etl_copy(f, l, d); VF_REACH(); }
/*@GROUP name=copy_b props=C06,C02 kind=B bound=len<=4 unwind=6@*/
void h_copy_b(void) { IN1(a, n); VF_BUF(int, d, n, MAXB); int *r = copy_int(a, a + n, d);
  VF_ASSERT(r == d + n, "C06: copy returns d_first + (last - first)");
  for (unsigned long i = 0; i < n; ++i) VF_ASSERT(d[i] == a_in[i], "C06: copy: d[i] == a[i]");
  UNCHANGED(a, n); VF_REACH(); }
