void _ZN3etl14assert_handlerINS_10assert_msgEEEvRKT_(struct etl_assert_msg *m) { __CPROVER_assert(0, "C05: assert_handler fired on valid input"); __CPROVER_assume(0); }
/*@GROUP name=find props=C06,C02 kind=U mode=contract enforce=etl_find_int loops=1@*/
void h_find(void) { int *f, *l, *v; vf_n = nondet_ulong(); vf_k = nondet_ulong(); etl_find_int(f, l, v); VF_REACH(); }
