/* fam/algo: algorithm.hpp / numeric.hpp over pointer iterators (C06).
 *   <fn>    kind=U  contract mode: the function contract + loop contract of contracts.spec enforced on the real tetl function,
 *                   ranges of ghost length vf_n (<= 10^6), ghost indices vf_k/vf_j stand for "for all k".
 *   <fn>_b  kind=B  bounded stand-in (len <= 4, all element values symbolic): the full postcondition against a plain
 *                   reference loop; replayable natively, guards against a wrong contract.                                   */
void _ZN3etl14assert_handlerINS_10assert_msgEEEvRKT_(struct etl_assert_msg *m) { __CPROVER_assert(0, "C05: assert_handler fired on valid input"); __CPROVER_assume(0); }
int *g_base0(void) { return vf_gb0; }    /* ghost hook of vf::gix: the base pointer of range 0 */
#define XG struct vf_gix_int_0
#define GH() do { vf_n = nondet_ulong(); vf_m = nondet_ulong(); vf_k = nondet_ulong(); vf_j = nondet_ulong(); vf_p = nondet_ulong(); vf_q = nondet_ulong(); vf_ov = nondet_ulong(); vf_sel = 0; } while (0)
#define P3(x) ((x) % 3 == 0)
#define OP1(x) (((x) & 0x3fffffff) * 2 + 1)
#define OP2(x, y) (((x) & 0xfffff) * 3 + ((y) & 0xfffff))
#define MAXB 4
/* bounded stand-ins: symbolic length n <= MAXB, exact-size buffer a (copy of a_in) */
#define IN1(a, n) VF_INPUT(unsigned long, n); VF_BUF(int, a, n, MAXB)
#define IN1S(a, n) VF_INPUT(unsigned long, n); VF_BUF(int, a, n, 3)      /* in-place stand-ins: len <= 3 (len 4 takes minutes) */
#define UNCHANGED(a, n) for (unsigned long i_ = 0; i_ < (n); ++i_) VF_ASSERT(a[i_] == a##_in[i_], "C06: range is not modified")

/*@GROUP name=find props=C06,C02 kind=U mode=contract enforce=etl_find loops=1 standin=find_b timeout=900@*/
void h_find(void) { int *f, *l, *v; GH(); etl_find(f, l, v); VF_REACH(); }
/*@GROUP name=find_b props=C06,C02 kind=B bound=len<=4 unwind=6 timeout=600@*/
void h_find_b(void) { IN1(a, n); VF_INPUT(int, v); int *r = find_int(a, a + n, &v);
  unsigned long i = 0; while (i < n && a_in[i] != v) ++i;
  VF_ASSERT(r == a + i, "C06: find returns the first match, or last"); UNCHANGED(a, n); VF_REACH(); }

/*@GROUP name=find_if props=C06,C02 kind=U mode=contract enforce=etl_find_if loops=1 standin=find_if_b timeout=900@*/
void h_find_if(void) { int *f, *l; struct vf_pred3 p; GH(); etl_find_if(f, l, p); VF_REACH(); }
/*@GROUP name=find_if_b props=C06,C02 kind=B bound=len<=4 unwind=6 timeout=600@*/
void h_find_if_b(void) { IN1(a, n); int *r = find_if_p3(a, a + n);
  unsigned long i = 0; while (i < n && !P3(a_in[i])) ++i;
  VF_ASSERT(r == a + i, "C06: find_if returns the first match, or last"); UNCHANGED(a, n); VF_REACH(); }

/*@GROUP name=find_if_not props=C06,C02 kind=U mode=contract enforce=etl_find_if_not loops=1 standin=find_if_not_b timeout=900@*/
void h_find_if_not(void) { int *f, *l; struct vf_pred3 p; GH(); etl_find_if_not(f, l, p); VF_REACH(); }
/*@GROUP name=find_if_not_b props=C06,C02 kind=B bound=len<=4 unwind=6 timeout=600@*/
void h_find_if_not_b(void) { IN1(a, n); int *r = find_if_not_p3(a, a + n);
  unsigned long i = 0; while (i < n && P3(a_in[i])) ++i;
  VF_ASSERT(r == a + i, "C06: find_if_not returns the first non-match, or last"); UNCHANGED(a, n); VF_REACH(); }

/*@GROUP name=all_of props=C06,C02 kind=U mode=contract enforce=etl_all_of replace=etl_find_if_not standin=all_of_b timeout=900@*/
void h_all_of(void) { int *f, *l; struct vf_pred3 p; GH(); etl_all_of(f, l, p); VF_REACH(); }
/*@GROUP name=all_of_b props=C06,C02 kind=B bound=len<=4 unwind=6 timeout=600@*/
void h_all_of_b(void) { IN1(a, n); _Bool r = all_of_p3(a, a + n);
  _Bool e = 1; for (unsigned long i = 0; i < n; ++i) if (!P3(a_in[i])) e = 0;
  VF_ASSERT(r == e, "C06: all_of"); UNCHANGED(a, n); VF_REACH(); }

/*@GROUP name=any_of props=C06,C02 kind=U mode=contract enforce=etl_any_of replace=etl_find_if standin=any_of_b timeout=900@*/
void h_any_of(void) { int *f, *l; struct vf_pred3 p; GH(); etl_any_of(f, l, p); VF_REACH(); }
/*@GROUP name=any_of_b props=C06,C02 kind=B bound=len<=4 unwind=6 timeout=600@*/
void h_any_of_b(void) { IN1(a, n); _Bool r = any_of_p3(a, a + n);
  _Bool e = 0; for (unsigned long i = 0; i < n; ++i) if (P3(a_in[i])) e = 1;
  VF_ASSERT(r == e, "C06: any_of"); UNCHANGED(a, n); VF_REACH(); }

/*@GROUP name=none_of props=C06,C02 kind=U mode=contract enforce=etl_none_of replace=etl_find_if standin=none_of_b timeout=900@*/
void h_none_of(void) { int *f, *l; struct vf_pred3 p; GH(); etl_none_of(f, l, p); VF_REACH(); }
/*@GROUP name=none_of_b props=C06,C02 kind=B bound=len<=4 unwind=6 timeout=600@*/
void h_none_of_b(void) { IN1(a, n); _Bool r = none_of_p3(a, a + n);
  _Bool e = 1; for (unsigned long i = 0; i < n; ++i) if (P3(a_in[i])) e = 0;
  VF_ASSERT(r == e, "C06: none_of"); UNCHANGED(a, n); VF_REACH(); }

/*@GROUP name=count props=C06,C02 kind=U mode=contract enforce=etl_count loops=1 standin=count_b timeout=900@*/
void h_count(void) { int *f, *l, *v; GH(); etl_count(f, l, v); VF_REACH(); }
/*@GROUP name=count_b props=C06,C02 kind=B bound=len<=4 unwind=6 timeout=600@*/
void h_count_b(void) { IN1(a, n); VF_INPUT(int, v); long r = count_int(a, a + n, &v);
  long e = 0; for (unsigned long i = 0; i < n; ++i) if (a_in[i] == v) ++e;
  VF_ASSERT(r == e, "C06: count returns the number of elements equal to value"); UNCHANGED(a, n); VF_REACH(); }

/*@GROUP name=count_if props=C06,C02 kind=U mode=contract enforce=etl_count_if loops=1 standin=count_if_b timeout=900@*/
void h_count_if(void) { int *f, *l; struct vf_pred3 p; GH(); etl_count_if(f, l, p); VF_REACH(); }
/*@GROUP name=count_if_b props=C06,C02 kind=B bound=len<=4 unwind=6 timeout=600@*/
void h_count_if_b(void) { IN1(a, n); long r = count_if_p3(a, a + n);
  long e = 0; for (unsigned long i = 0; i < n; ++i) if (P3(a_in[i])) ++e;
  VF_ASSERT(r == e, "C06: count_if returns the number of elements satisfying the predicate"); UNCHANGED(a, n); VF_REACH(); }

/*@GROUP name=for_each props=C06,C02 kind=U mode=contract enforce=etl_for_each loops=1 standin=for_each_b timeout=900@*/
void h_for_each(void) { struct vf_idx_int f, l; struct vf_mut1 m; GH(); etl_for_each(f, l, m); VF_REACH(); }
/*@GROUP name=for_each_b props=C06,C02 kind=B bound=len<=4 unwind=6 timeout=600@*/
void h_for_each_b(void) { IN1(a, n); for_each_mut(a, a + n);
  for (unsigned long i = 0; i < n; ++i) VF_ASSERT(a[i] == OP1(a_in[i]), "C06: for_each applies f to every element exactly once");
  VF_REACH(); }

/*@GROUP name=copy props=C06,C02 kind=U mode=contract enforce=etl_copy loops=1 standin=copy_b timeout=900@*/
void h_copy(void) { struct vf_idx_int f, l, d; GH(); etl_copy(f, l, d); VF_REACH(); }
/*@GROUP name=copy_b props=C06,C02 kind=B bound=len<=4 unwind=6 timeout=600@*/
void h_copy_b(void) { IN1(a, n); VF_BUF(int, d, n, MAXB); int *r = copy_int(a, a + n, d);
  VF_ASSERT(r == d + n, "C06: copy returns d_first + (last - first)");
  for (unsigned long i = 0; i < n; ++i) VF_ASSERT(d[i] == a_in[i], "C06: copy: d[i] == a[i]");
  UNCHANGED(a, n); VF_REACH(); }

/*@COMMON@*/
/* contract groups of the writing algorithms: iterators are vf::idx<int> {base, i} (see driver.cpp) */
#define XI struct vf_idx_int
#define XU struct vf_idx_unsignedint

#define IN1U(a, n) VF_INPUT(unsigned long, n); VF_BUF(unsigned, a, n, MAXB)

/*@GROUP name=move props=C06,C02 kind=U mode=contract enforce=etl_move loops=1 standin=move_b timeout=900@*/
void h_move(void) { XI f, l, d; GH(); etl_move(f, l, d); VF_REACH(); }
/*@GROUP name=move_b props=C06,C02 kind=B bound=len<=4 unwind=6 timeout=600@*/
void h_move_b(void) { IN1(a, n); VF_BUF(int, d, n, MAXB); int *r = move_int(a, a + n, d);
  VF_ASSERT(r == d + n, "C06: move returns d_first + (last - first)");
  for (unsigned long i = 0; i < n; ++i) VF_ASSERT(d[i] == a_in[i], "C06: move: d[i] == a[i]");
  VF_REACH(); }

/*@GROUP name=copy_backward props=C06,C02 kind=U mode=contract enforce=etl_copy_backward loops=1 standin=copy_backward_b timeout=900@*/
void h_copy_backward(void) { XI f, l, d; GH(); etl_copy_backward(f, l, d); VF_REACH(); }
/*@GROUP name=copy_backward_b props=C06,C02 kind=B bound=len<=3 unwind=6 timeout=600@*/
void h_copy_backward_b(void) { IN1S(a, n); VF_INPUT(unsigned long, m); VF_ASSUME(m <= n);   /* overlapping: a[0..m) -> a[n-m..n) */
  int *r = copy_backward_int(a, a + m, a + n);
  VF_ASSERT(r == a + (n - m), "C06: copy_backward returns d_last - (last - first)");
  for (unsigned long i = 0; i < n; ++i) VF_ASSERT(a[i] == (i >= n - m ? a_in[i - (n - m)] : a_in[i]), "C06: copy_backward: elements");
  VF_REACH(); }

/*@GROUP name=move_backward props=C06,C02 kind=U mode=contract enforce=etl_move_backward loops=1 standin=move_backward_b timeout=900@*/
void h_move_backward(void) { XI f, l, d; GH(); etl_move_backward(f, l, d); VF_REACH(); }
/*@GROUP name=move_backward_b props=C06,C02 kind=B bound=len<=3 unwind=6 timeout=600@*/
void h_move_backward_b(void) { IN1S(a, n); VF_INPUT(unsigned long, m); VF_ASSUME(m <= n);
  int *r = move_backward_int(a, a + m, a + n);
  VF_ASSERT(r == a + (n - m), "C06: move_backward returns d_last - (last - first)");
  for (unsigned long i = 0; i < n; ++i) VF_ASSERT(a[i] == (i >= n - m ? a_in[i - (n - m)] : a_in[i]), "C06: move_backward: elements");
  VF_REACH(); }

/*@GROUP name=copy_n props=C06,C02 kind=U mode=contract enforce=etl_copy_n loops=1 standin=copy_n_b timeout=900@*/
void h_copy_n(void) { XI f, d; long c; GH(); etl_copy_n(f, c, d); VF_REACH(); }     /* elements + frame (vf_sel == 0) */
/*@GROUP name=copy_n_ret props=C06,C02 kind=U mode=contract enforce=etl_copy_n loops=1 standin=copy_n_b timeout=900@*/
void h_copy_n_ret(void) { XI f, d; long c; GH(); vf_sel = 1; VF_KNOWN(C06_copy_n_return, c > 0); etl_copy_n(f, c, d); VF_REACH(); }   /* + returned iterator */
/*@GROUP name=copy_n_b props=C06,C02 kind=B bound=len<=4 unwind=6 timeout=600@*/
void h_copy_n_b(void) { IN1(a, n); VF_BUF(int, d, n, MAXB); VF_INPUT(long, c); VF_ASSUME(c <= 0 ? n == 0 : (unsigned long)c == n);
  int *r = copy_n_int(a, c, d);
  for (unsigned long i = 0; i < n; ++i) VF_ASSERT(d[i] == a_in[i], "C06: copy_n: d[i] == a[i]");
  UNCHANGED(a, n);
  VF_KNOWN(C06_copy_n_return, c > 0);
  VF_ASSERT(r == d + n, "C06: copy_n returns result + n"); VF_REACH(); }

/*@GROUP name=fill props=C06,C02 kind=U mode=contract enforce=etl_fill loops=1 standin=fill_b timeout=900@*/
void h_fill(void) { XI f, l; int *v; GH(); etl_fill(f, l, v); VF_REACH(); }
/*@GROUP name=fill_b props=C06,C02 kind=B bound=len<=4 unwind=6 timeout=600@*/
void h_fill_b(void) { IN1(a, n); VF_INPUT(int, v); fill_int(a, a + n, &v);
  for (unsigned long i = 0; i < n; ++i) VF_ASSERT(a[i] == v, "C06: fill assigns value to every element"); VF_REACH(); }

/*@GROUP name=fill_n props=C06,C02 kind=U mode=contract enforce=etl_fill_n loops=1 standin=fill_n_b timeout=900@*/
void h_fill_n(void) { XI f; long c; int *v; GH(); etl_fill_n(f, c, v); VF_REACH(); }
/*@GROUP name=fill_n_b props=C06,C02 kind=B bound=len<=4 unwind=6 timeout=600@*/
void h_fill_n_b(void) { IN1(a, n); VF_INPUT(int, v); VF_INPUT(long, c); VF_ASSUME(c <= (long)n);
  int *r = fill_n_int(a, c, &v); unsigned long w = c > 0 ? (unsigned long)c : 0;
  VF_ASSERT(r == a + w, "C06: fill_n returns first + n (first if n <= 0)");
  for (unsigned long i = 0; i < n; ++i) VF_ASSERT(a[i] == (i < w ? v : a_in[i]), "C06: fill_n assigns exactly the first n elements"); VF_REACH(); }

/*@GROUP name=generate props=C06,C02 kind=U mode=contract enforce=etl_generate loops=1 standin=generate_b timeout=900@*/
void h_generate(void) { XU f, l; struct vf_gen1 g; GH(); etl_generate(f, l, g); VF_REACH(); }
/*@GROUP name=generate_b props=C06,C02 kind=B bound=len<=4 unwind=6 timeout=600@*/
void h_generate_b(void) { IN1U(a, n); VF_INPUT(unsigned, s); generate_u(a, a + n, s);
  for (unsigned long i = 0; i < n; ++i) VF_ASSERT(a[i] == s + (unsigned)i, "C06: generate assigns successive results of g in order"); VF_REACH(); }

/*@GROUP name=generate_n props=C06,C02 kind=U mode=contract enforce=etl_generate_n loops=1 standin=generate_n_b timeout=900@*/
void h_generate_n(void) { XU f; long c; struct vf_gen1 g; GH(); etl_generate_n(f, c, g); VF_REACH(); }
/*@GROUP name=generate_n_b props=C06,C02 kind=B bound=len<=4 unwind=6 timeout=600@*/
void h_generate_n_b(void) { IN1U(a, n); VF_INPUT(unsigned, s); VF_INPUT(long, c); VF_ASSUME(c <= (long)n);
  unsigned *r = generate_n_u(a, c, s); unsigned long w = c > 0 ? (unsigned long)c : 0;
  VF_ASSERT(r == a + w, "C06: generate_n returns first + n (first if n <= 0)");
  for (unsigned long i = 0; i < n; ++i) VF_ASSERT(a[i] == (i < w ? s + (unsigned)i : a_in[i]), "C06: generate_n assigns exactly the first n elements"); VF_REACH(); }

/*@GROUP name=transform1 props=C06,C02 kind=U mode=contract enforce=etl_transform1 loops=1 standin=transform1_b timeout=900@*/
void h_transform1(void) { XI f, l, d; struct vf_op1 o; GH(); etl_transform1(f, l, d, o); VF_REACH(); }
/*@GROUP name=transform1_b props=C06,C02 kind=B bound=len<=4 unwind=6 timeout=600@*/
void h_transform1_b(void) { IN1(a, n); VF_BUF(int, d, n, MAXB); VF_INPUT_BOOL(inplace); int *o = inplace ? a : d;
  int *r = transform1(a, a + n, o);
  VF_ASSERT(r == o + n, "C06: transform returns result + (last - first)");
  for (unsigned long i = 0; i < n; ++i) VF_ASSERT(o[i] == OP1(a_in[i]), "C06: transform: result[i] == op(a[i])"); VF_REACH(); }

/*@GROUP name=transform2 props=C06,C02 kind=U mode=contract enforce=etl_transform2 loops=1 standin=transform2_b timeout=900@*/
void h_transform2(void) { XI f, l, g, d; struct vf_op2 o; GH(); etl_transform2(f, l, g, d, o); VF_REACH(); }
/*@GROUP name=transform2_b props=C06,C02 kind=B bound=len<=4 unwind=6 timeout=600@*/
void h_transform2_b(void) { IN1(a, n); VF_BUF(int, b, n, MAXB); VF_BUF(int, d, n, MAXB); VF_INPUT(unsigned char, w); int *o = w == 1 ? a : w == 2 ? b : d;
  int *r = transform2(a, a + n, b, o);
  VF_ASSERT(r == o + n, "C06: transform returns result + (last1 - first1)");
  for (unsigned long i = 0; i < n; ++i) VF_ASSERT(o[i] == OP2(a_in[i], b_in[i]), "C06: transform: result[i] == op(a[i], b[i])"); VF_REACH(); }

/*@GROUP name=replace_if props=C06,C02 kind=U mode=contract enforce=etl_replace_if loops=1 standin=replace_if_b timeout=900@*/
void h_replace_if(void) { XI f, l; struct vf_pred3 p; int *v; GH(); etl_replace_if(f, l, p, v); VF_REACH(); }
/*@GROUP name=replace_if_b props=C06,C02 kind=B bound=len<=4 unwind=6 timeout=600@*/
void h_replace_if_b(void) { IN1(a, n); VF_INPUT(int, v); replace_if_p3(a, a + n, &v);
  for (unsigned long i = 0; i < n; ++i) VF_ASSERT(a[i] == (P3(a_in[i]) ? v : a_in[i]), "C06: replace_if"); VF_REACH(); }

/*@GROUP name=replace props=C06,C02 kind=U mode=contract enforce=etl_replace loops=1 standin=replace_b timeout=900@*/
void h_replace(void) { XI f, l; int *o, *v; GH(); etl_replace(f, l, o, v); VF_REACH(); }
/*@GROUP name=replace_b props=C06,C02 kind=B bound=len<=4 unwind=6 timeout=600@*/
void h_replace_b(void) { IN1(a, n); VF_INPUT(int, o); VF_INPUT(int, v); replace_int(a, a + n, &o, &v);
  for (unsigned long i = 0; i < n; ++i) VF_ASSERT(a[i] == (a_in[i] == o ? v : a_in[i]), "C06: replace"); VF_REACH(); }

/*@GROUP name=swap_ranges props=C06,C02 kind=U mode=contract enforce=etl_swap_ranges loops=1 standin=swap_ranges_b timeout=900@*/
void h_swap_ranges(void) { XI f, l, g; GH(); etl_swap_ranges(f, l, g); VF_REACH(); }
/*@GROUP name=swap_ranges_b props=C06,C02 kind=B bound=len<=4 unwind=6 timeout=600@*/
void h_swap_ranges_b(void) { IN1(a, n); VF_BUF(int, b, n, MAXB); int *r = swap_ranges_int(a, a + n, b);
  VF_ASSERT(r == b + n, "C06: swap_ranges returns first2 + (last1 - first1)");
  for (unsigned long i = 0; i < n; ++i) VF_ASSERT(a[i] == b_in[i] && b[i] == a_in[i], "C06: swap_ranges exchanges the elements"); VF_REACH(); }

/*@GROUP name=reverse props=C06,C02 kind=U mode=contract enforce=etl_reverse loops=1 standin=reverse_b timeout=900@*/
void h_reverse(void) { XI f, l; GH(); etl_reverse(f, l); VF_REACH(); }
/*@GROUP name=reverse_b props=C06,C02 kind=B bound=len<=3 unwind=6 timeout=600@*/
void h_reverse_b(void) { IN1S(a, n); reverse_int(a, a + n);
  for (unsigned long i = 0; i < n; ++i) VF_ASSERT(a[i] == a_in[n - 1 - i], "C06: reverse"); VF_REACH(); }

/*@GROUP name=reverse_copy props=C06,C02 kind=U mode=contract enforce=etl_reverse_copy loops=1 standin=reverse_copy_b timeout=900@*/
void h_reverse_copy(void) { XI f, l, d; GH(); etl_reverse_copy(f, l, d); VF_REACH(); }
/*@GROUP name=reverse_copy_b props=C06,C02 kind=B bound=len<=4 unwind=6 timeout=600@*/
void h_reverse_copy_b(void) { IN1(a, n); VF_BUF(int, d, n, MAXB); int *r = reverse_copy_int(a, a + n, d);
  VF_ASSERT(r == d + n, "C06: reverse_copy returns result + (last - first)");
  for (unsigned long i = 0; i < n; ++i) VF_ASSERT(d[i] == a_in[n - 1 - i], "C06: reverse_copy"); UNCHANGED(a, n); VF_REACH(); }

/*@GROUP name=iota props=C06,C02 kind=U mode=contract enforce=etl_iota loops=1 standin=iota_b timeout=900@*/
void h_iota(void) { XU f, l; unsigned v; GH(); etl_iota(f, l, v); VF_REACH(); }
/*@GROUP name=iota_b props=C06,C02 kind=B bound=len<=4 unwind=6 timeout=600@*/
void h_iota_b(void) { IN1U(a, n); VF_INPUT(unsigned, v); iota_u(a, a + n, v);
  for (unsigned long i = 0; i < n; ++i) VF_ASSERT(a[i] == v + (unsigned)i, "C06: iota"); VF_REACH(); }

/*@GROUP name=copy_if props=C06,C02 kind=U mode=contract enforce=etl_copy_if loops=1 standin=copy_if_b timeout=900@*/
void h_copy_if(void) { XI f, l, d; struct vf_pred3 p; GH(); etl_copy_if(f, l, d, p); VF_REACH(); }
/*@GROUP name=copy_if_b props=C06,C02 kind=B bound=len<=4 unwind=6 timeout=600@*/
void h_copy_if_b(void) { IN1(a, n); VF_BUF(int, d, n, MAXB); int *r = copy_if_p3(a, a + n, d);
  int e[MAXB + 1]; unsigned long w = 0; for (unsigned long i = 0; i < n; ++i) if (P3(a_in[i])) e[w++] = a_in[i];
  VF_ASSERT(r == d + w, "C06: copy_if returns the end of the resulting range");
  for (unsigned long i = 0; i < n; ++i) VF_ASSERT(d[i] == (i < w ? e[i] : d_in[i]), "C06: copy_if copies exactly the matching elements, in order");
  UNCHANGED(a, n); VF_REACH(); }

/*@GROUP name=find_if_x props=C06,C02 kind=U mode=contract enforce=etl_find_if_x loops=1 standin=find_if_b timeout=900@*/
void h_find_if_x(void) { XI f, l; struct vf_pred3 p; GH(); etl_find_if_x(f, l, p); VF_REACH(); }

/*@GROUP name=remove_if props=C06,C02 kind=U mode=contract enforce=etl_remove_if loops=1 standin=remove_if_b timeout=900@*/
void h_remove_if(void) { XI f, l; struct vf_pred3 p; GH(); etl_remove_if(f, l, p); VF_REACH(); }
/*@GROUP name=remove_if_b props=C06,C02 kind=B bound=len<=3 unwind=6 timeout=600@*/
void h_remove_if_b(void) { IN1S(a, n); int *r = remove_if_p3(a, a + n);
  unsigned long w = 0; for (unsigned long i = 0; i < n; ++i) if (!P3(a_in[i])) { VF_ASSERT(a[w] == a_in[i], "C06: remove_if keeps exactly the non-matching elements, in order"); ++w; }
  VF_ASSERT(r == a + w, "C06: remove_if returns the end of the resulting range"); VF_REACH(); }

/*@GROUP name=remove props=C06,C02 kind=U mode=contract enforce=etl_remove loops=1 standin=remove_b timeout=900@*/
void h_remove(void) { XI f, l; int *v; GH(); etl_remove(f, l, v); VF_REACH(); }
/*@GROUP name=remove_b props=C06,C02 kind=B bound=len<=3 unwind=6 timeout=600@*/
void h_remove_b(void) { IN1S(a, n); VF_INPUT(int, v); int *r = remove_int(a, a + n, &v);
  unsigned long w = 0; for (unsigned long i = 0; i < n; ++i) if (a_in[i] != v) { VF_ASSERT(a[w] == a_in[i], "C06: remove keeps exactly the elements != value, in order"); ++w; }
  VF_ASSERT(r == a + w, "C06: remove returns the end of the resulting range"); VF_REACH(); }

/*@GROUP name=remove_copy_if props=C06,C02 kind=U mode=contract enforce=etl_remove_copy_if loops=1 standin=remove_copy_if_b timeout=900@*/
void h_remove_copy_if(void) { XI f, l, d; struct vf_pred3 p; GH(); etl_remove_copy_if(f, l, d, p); VF_REACH(); }
/*@GROUP name=remove_copy_if_b props=C06,C02 kind=B bound=len<=4 unwind=6 timeout=600@*/
void h_remove_copy_if_b(void) { IN1(a, n); VF_BUF(int, d, n, MAXB);
  int e[MAXB + 1]; unsigned long w = 0; for (unsigned long i = 0; i < n; ++i) if (!P3(a_in[i])) e[w++] = a_in[i];
  VF_KNOWN(C06_remove_copy_if_holes, w != n);               /* some element satisfies the predicate */
  int *r = remove_copy_if_p3(a, a + n, d);
  VF_ASSERT(r == d + w, "C06: remove_copy_if returns the end of the resulting range");
  for (unsigned long i = 0; i < n; ++i) VF_ASSERT(d[i] == (i < w ? e[i] : d_in[i]), "C06: remove_copy_if copies exactly the non-matching elements to consecutive positions");
  UNCHANGED(a, n); VF_REACH(); }

/*@GROUP name=remove_copy props=C06,C02 kind=U mode=contract enforce=etl_remove_copy loops=1 standin=remove_copy_b timeout=900@*/
void h_remove_copy(void) { XI f, l, d; int *v; GH(); etl_remove_copy(f, l, d, v); VF_REACH(); }
/*@GROUP name=remove_copy_b props=C06,C02 kind=B bound=len<=4 unwind=6 timeout=600@*/
void h_remove_copy_b(void) { IN1(a, n); VF_BUF(int, d, n, MAXB); VF_INPUT(int, v);
  int e[MAXB + 1]; unsigned long w = 0; for (unsigned long i = 0; i < n; ++i) if (a_in[i] != v) e[w++] = a_in[i];
  VF_KNOWN(C06_remove_copy_if_holes, w != n);               /* some element equals value */
  int *r = remove_copy_int(a, a + n, d, &v);
  VF_ASSERT(r == d + w, "C06: remove_copy returns the end of the resulting range");
  for (unsigned long i = 0; i < n; ++i) VF_ASSERT(d[i] == (i < w ? e[i] : d_in[i]), "C06: remove_copy copies exactly the elements != value to consecutive positions");
  UNCHANGED(a, n); VF_REACH(); }

/*@GROUP name=unique props=C06,C02 kind=U mode=contract enforce=etl_unique loops=1 standin=unique_b timeout=900@*/
void h_unique(void) { XI f, l; GH(); etl_unique(f, l); VF_REACH(); }
/*@GROUP name=unique_b props=C06,C02 kind=B bound=len<=4 unwind=6 timeout=600@*/
void h_unique_b(void) { IN1(a, n); int *r = unique_int(a, a + n);
  int e[MAXB + 1]; unsigned long w = 0; for (unsigned long i = 0; i < n; ++i) if (i == 0 || a_in[i] != a_in[i - 1]) e[w++] = a_in[i];
  VF_ASSERT(r == a + w, "C06: unique returns the end of the resulting range");
  for (unsigned long i = 0; i < w; ++i) VF_ASSERT(a[i] == e[i], "C06: unique keeps the first element of every group of equal elements"); VF_REACH(); }

/*@GROUP name=unique_copy props=C06,C02 kind=U mode=contract enforce=etl_unique_copy loops=1 standin=unique_copy_b timeout=900@*/
void h_unique_copy(void) { XI f, l, d; GH(); etl_unique_copy(f, l, d); VF_REACH(); }
/*@GROUP name=unique_copy_b props=C06,C02 kind=B bound=len<=4 unwind=6 timeout=600@*/
void h_unique_copy_b(void) { IN1(a, n); VF_BUF(int, d, n, MAXB); int *r = unique_copy_int(a, a + n, d);
  int e[MAXB + 1]; unsigned long w = 0; for (unsigned long i = 0; i < n; ++i) if (i == 0 || a_in[i] != a_in[i - 1]) e[w++] = a_in[i];
  VF_ASSERT(r == d + w, "C06: unique_copy returns the end of the resulting range");
  for (unsigned long i = 0; i < n; ++i) VF_ASSERT(d[i] == (i < w ? e[i] : d_in[i]), "C06: unique_copy copies the first element of every group of equal elements");
  UNCHANGED(a, n); VF_REACH(); }

/*@GROUP name=partial_sum props=C06,C02 kind=U mode=contract enforce=etl_partial_sum loops=1 standin=partial_sum_b timeout=900@*/
void h_partial_sum(void) { XU f, l, d; GH(); etl_partial_sum(f, l, d); VF_REACH(); }
/*@GROUP name=partial_sum_b props=C06,C02 kind=B bound=len<=4 unwind=6 timeout=600@*/
void h_partial_sum_b(void) { IN1U(a, n); VF_BUF(unsigned, d, n, MAXB); VF_INPUT_BOOL(inplace); unsigned *o = inplace ? a : d;
  unsigned *r = partial_sum_u(a, a + n, o); unsigned s = 0;
  VF_ASSERT(r == o + n, "C06: partial_sum returns result + (last - first)");
  for (unsigned long i = 0; i < n; ++i) { s += a_in[i]; VF_ASSERT(o[i] == s, "C06: partial_sum: result[i] == a[0] + ... + a[i]"); } VF_REACH(); }

/*@GROUP name=adjacent_difference props=C06,C02 kind=U mode=contract enforce=etl_adjacent_difference loops=1 standin=adjacent_difference_b timeout=900@*/
void h_adjacent_difference(void) { XU f, l, d; GH(); etl_adjacent_difference(f, l, d); VF_REACH(); }
/*@GROUP name=adjacent_difference_b props=C06,C02 kind=B bound=len<=4 unwind=6 timeout=600@*/
void h_adjacent_difference_b(void) { IN1U(a, n); VF_BUF(unsigned, d, n, MAXB); VF_INPUT_BOOL(inplace); unsigned *o = inplace ? a : d;
  unsigned *r = adjacent_difference_u(a, a + n, o);
  VF_ASSERT(r == o + n, "C06: adjacent_difference returns result + (last - first)");
  for (unsigned long i = 0; i < n; ++i) VF_ASSERT(o[i] == (i == 0 ? a_in[0] : a_in[i] - a_in[i - 1]), "C06: adjacent_difference: result[i] == a[i] - a[i-1]"); VF_REACH(); }

/*@COMMON@*/
#define IN2(a, n, b, m) IN1(a, n); VF_INPUT(unsigned long, m); VF_BUF(int, b, m, MAXB)

/*@GROUP name=mismatch3 props=C06,C02 kind=U mode=contract enforce=etl_mismatch3 loops=1 standin=mismatch3_b timeout=900@*/
void h_mismatch3(void) { int *f, *l, *g; GH(); etl_mismatch3(f, l, g); VF_REACH(); }
/*@GROUP name=mismatch3_b props=C06,C02 kind=B bound=len<=4 unwind=6 timeout=600@*/
void h_mismatch3_b(void) { IN1(a, n); VF_BUF(int, b, n, MAXB); struct vf_pii r; mismatch3(a, a + n, b, &r);
  unsigned long i = 0; while (i < n && a_in[i] == b_in[i]) ++i;
  VF_ASSERT(r.a == a + i && r.b == b + i, "C06: mismatch returns the first position where the ranges differ"); UNCHANGED(a, n); UNCHANGED(b, n); VF_REACH(); }

/*@GROUP name=mismatch4 props=C06,C02 kind=U mode=contract enforce=etl_mismatch4 loops=1 standin=mismatch4_b timeout=900@*/
void h_mismatch4(void) { int *f, *l, *g, *h; GH(); etl_mismatch4(f, l, g, h); VF_REACH(); }
/*@GROUP name=mismatch4_b props=C06,C02 kind=B bound=len<=4 unwind=6 timeout=600@*/
void h_mismatch4_b(void) { IN2(a, n, b, m); struct vf_pii r; mismatch4(a, a + n, b, b + m, &r);
  unsigned long i = 0; while (i < n && i < m && a_in[i] == b_in[i]) ++i;
  VF_ASSERT(r.a == a + i && r.b == b + i, "C06: mismatch (two ends) returns the first difference or the end of the shorter range"); VF_REACH(); }

/*@GROUP name=equal3 props=C06,C02 kind=U mode=contract enforce=etl_equal3 loops=1 standin=equal3_b timeout=900@*/
void h_equal3(void) { int *f, *l, *g; GH(); etl_equal3(f, l, g); VF_REACH(); }
/*@GROUP name=equal3_b props=C06,C02 kind=B bound=len<=4 unwind=6 timeout=600@*/
void h_equal3_b(void) { IN1(a, n); VF_BUF(int, b, n, MAXB); _Bool r = equal3(a, a + n, b);
  _Bool e = 1; for (unsigned long i = 0; i < n; ++i) if (a_in[i] != b_in[i]) e = 0;
  VF_ASSERT(r == e, "C06: equal"); VF_REACH(); }

/*@GROUP name=equal4 props=C06,C02 kind=U mode=contract enforce=etl_equal4 loops=1 standin=equal4_b timeout=900@*/
void h_equal4(void) { int *f, *l, *g, *h; GH(); etl_equal4(f, l, g, h); VF_REACH(); }
/*@GROUP name=equal4_b props=C06,C02 kind=B bound=len<=4 unwind=6 timeout=600@*/
void h_equal4_b(void) { IN2(a, n, b, m); _Bool r = equal4(a, a + n, b, b + m);
  _Bool e = n == m; for (unsigned long i = 0; i < n && i < m; ++i) if (a_in[i] != b_in[i]) e = 0;
  VF_ASSERT(r == e, "C06: equal (two ends): same length and equal elements"); VF_REACH(); }

/*@GROUP name=adjacent_find props=C06,C02 kind=U mode=contract enforce=etl_adjacent_find loops=1 standin=adjacent_find_b timeout=900@*/
void h_adjacent_find(void) { int *f, *l; GH(); etl_adjacent_find(f, l); VF_REACH(); }
/*@GROUP name=adjacent_find_b props=C06,C02 kind=B bound=len<=4 unwind=6 timeout=600@*/
void h_adjacent_find_b(void) { IN1(a, n); int *r = adjacent_find_int(a, a + n);
  unsigned long i = 0; while (i + 1 < n && a_in[i] != a_in[i + 1]) ++i;
  VF_ASSERT(r == (i + 1 < n ? a + i : a + n), "C06: adjacent_find returns the first i with a[i] == a[i+1], or last"); UNCHANGED(a, n); VF_REACH(); }

/*@GROUP name=lexicographical_compare props=C06,C02 kind=U mode=contract enforce=etl_lexcmp loops=1 standin=lexicographical_compare_b timeout=900@*/
void h_lexicographical_compare(void) { int *f, *l, *g, *h; GH(); etl_lexcmp(f, l, g, h); VF_REACH(); }
/*@GROUP name=lexicographical_compare_b props=C06,C02 kind=B bound=len<=4 unwind=6 timeout=600@*/
void h_lexicographical_compare_b(void) { IN2(a, n, b, m); _Bool r = lexcmp(a, a + n, b, b + m);
  unsigned long i = 0; while (i < n && i < m && a_in[i] == b_in[i]) ++i;
  _Bool e = (i < n && i < m) ? a_in[i] < b_in[i] : (i == n && i < m);
  VF_ASSERT(r == e, "C06: lexicographical_compare"); VF_REACH(); }

/*@GROUP name=min_element props=C06,C02 kind=U mode=contract enforce=etl_min_element loops=1 standin=min_element_b timeout=900@*/
void h_min_element(void) { XG f, l; GH(); etl_min_element(f, l); VF_REACH(); }
/*@GROUP name=min_element_b props=C06,C02 kind=B bound=len<=4 unwind=6 timeout=600@*/
void h_min_element_b(void) { IN1(a, n); int *r = min_element_int(a, a + n);
  unsigned long e = 0; for (unsigned long i = 1; i < n; ++i) if (a_in[i] < a_in[e]) e = i;
  VF_ASSERT(r == (n ? a + e : a + n), "C06: min_element returns the first smallest element, last if empty"); UNCHANGED(a, n); VF_REACH(); }

/*@GROUP name=max_element props=C06,C02 kind=U mode=contract enforce=etl_max_element loops=1 standin=max_element_b timeout=900@*/
void h_max_element(void) { XG f, l; GH(); etl_max_element(f, l); VF_REACH(); }
/*@GROUP name=max_element_b props=C06,C02 kind=B bound=len<=4 unwind=6 timeout=600@*/
void h_max_element_b(void) { IN1(a, n); int *r = max_element_int(a, a + n);
  unsigned long e = 0; for (unsigned long i = 1; i < n; ++i) if (a_in[e] < a_in[i]) e = i;
  VF_ASSERT(r == (n ? a + e : a + n), "C06: max_element returns the first largest element, last if empty"); UNCHANGED(a, n); VF_REACH(); }

/*@GROUP name=max_element_gt props=C06,C02 kind=U mode=contract enforce=etl_max_element_gt loops=1 standin=max_element_gt_b timeout=900@*/
void h_max_element_gt(void) { XG f, l; struct etl_greater c; GH(); etl_max_element_gt(f, l, c); VF_REACH(); }
/*@GROUP name=max_element_gt_b props=C06,C02 kind=B bound=len<=4 unwind=6 timeout=600@*/
void h_max_element_gt_b(void) { IN1(a, n); int *r = max_element_gt(a, a + n);
  unsigned long e = 0; for (unsigned long i = 1; i < n; ++i) if (a_in[e] > a_in[i]) e = i;
  VF_ASSERT(r == (n ? a + e : a + n), "C06: max_element(greater) returns the first element that is largest w.r.t. greater"); VF_REACH(); }

/*@GROUP name=is_sorted_until props=C06,C02 kind=U mode=contract enforce=etl_is_sorted_until loops=1 standin=is_sorted_until_b timeout=900@*/
void h_is_sorted_until(void) { int *f, *l; GH(); etl_is_sorted_until(f, l); VF_REACH(); }
/*@GROUP name=is_sorted_until_b props=C06,C02 kind=B bound=len<=4 unwind=6 timeout=600@*/
void h_is_sorted_until_b(void) { IN1(a, n); int *r = is_sorted_until_int(a, a + n);
  unsigned long i = n ? 1 : 0; while (i < n && !(a_in[i] < a_in[i - 1])) ++i;
  VF_ASSERT(r == a + i, "C06: is_sorted_until returns the end of the longest sorted prefix"); UNCHANGED(a, n); VF_REACH(); }

/*@GROUP name=is_sorted_until_gt props=C06,C02 kind=U mode=contract enforce=etl_is_sorted_until_gt loops=1 standin=is_sorted_until_gt_b timeout=900@*/
void h_is_sorted_until_gt(void) { int *f, *l; struct etl_greater c; GH(); etl_is_sorted_until_gt(f, l, c); VF_REACH(); }
/*@GROUP name=is_sorted_until_gt_b props=C06,C02 kind=B bound=len<=4 unwind=6 timeout=600@*/
void h_is_sorted_until_gt_b(void) { IN1(a, n); int *r = is_sorted_until_gt(a, a + n);
  unsigned long i = n ? 1 : 0; while (i < n && !(a_in[i] > a_in[i - 1])) ++i;
  VF_ASSERT(r == a + i, "C06: is_sorted_until(greater)"); VF_REACH(); }

/*@GROUP name=is_sorted props=C06,C02 kind=U mode=contract enforce=etl_is_sorted replace=etl_is_sorted_until standin=is_sorted_b timeout=900@*/
void h_is_sorted(void) { int *f, *l; GH(); etl_is_sorted(f, l); VF_REACH(); }
/*@GROUP name=is_sorted_b props=C06,C02 kind=B bound=len<=4 unwind=6 timeout=600@*/
void h_is_sorted_b(void) { IN1(a, n); _Bool r = is_sorted_int(a, a + n);
  _Bool e = 1; for (unsigned long i = 1; i < n; ++i) if (a_in[i] < a_in[i - 1]) e = 0;
  VF_ASSERT(r == e, "C06: is_sorted"); VF_REACH(); }

/*@GROUP name=is_partitioned props=C06,C02 kind=U mode=contract enforce=etl_is_partitioned loops=1 standin=is_partitioned_b timeout=900 solver=kissat@*/
void h_is_partitioned(void) { XI f, l; struct vf_pred3 p; GH(); etl_is_partitioned(f, l, p); VF_REACH(); }
/*@GROUP name=is_partitioned_b props=C06,C02 kind=B bound=len<=4 unwind=6 timeout=600@*/
void h_is_partitioned_b(void) { IN1(a, n); _Bool r = is_partitioned_p3(a, a + n);
  _Bool e = 1; for (unsigned long i = 1; i < n; ++i) if (P3(a_in[i]) && !P3(a_in[i - 1])) e = 0;
  VF_ASSERT(r == e, "C06: is_partitioned"); VF_REACH(); }

/*@GROUP name=partition_point props=C06,C02 kind=U mode=contract enforce=etl_partition_point loops=1 standin=partition_point_b timeout=900@*/
void h_partition_point(void) { int *f, *l; struct vf_pred3 p; GH(); etl_partition_point(f, l, p); VF_REACH(); }
/*@GROUP name=partition_point_b props=C06,C02 kind=B bound=len<=4 unwind=6 timeout=600@*/
void h_partition_point_b(void) { IN1(a, n); for (unsigned long i = 1; i < n; ++i) VF_ASSUME(!(P3(a_in[i]) && !P3(a_in[i - 1])));   /* partitioned */
  int *r = partition_point_p3(a, a + n);
  unsigned long c = 0; for (unsigned long i = 0; i < n; ++i) if (P3(a_in[i])) ++c;
  VF_ASSERT(r == a + c, "C06: partition_point returns the end of the first partition"); VF_REACH(); }

/*@GROUP name=clamp props=C06,C02 kind=F mode=contract enforce=etl_clamp standin=clamp_b timeout=600@*/
void h_clamp(void) { int *v, *lo, *hi; etl_clamp(v, lo, hi); VF_REACH(); }
/*@GROUP name=clamp_b props=C06,C02 kind=F@*/
void h_clamp_b(void) { VF_INPUT(int, v); VF_INPUT(int, lo); VF_INPUT(int, hi); VF_ASSUME(!(hi < lo)); const int *r = clamp_int(&v, &lo, &hi);
  VF_ASSERT(r == (v < lo ? &lo : hi < v ? &hi : &v), "C06: clamp returns lo if v < lo, hi if hi < v, otherwise v"); VF_REACH(); }

/*@GROUP name=min props=C06,C02 kind=F mode=contract enforce=etl_min standin=minmax_b timeout=600@*/
void h_min(void) { int *a, *b; etl_min(a, b); VF_REACH(); }
/*@GROUP name=max props=C06,C02 kind=F mode=contract enforce=etl_max standin=minmax_b timeout=600@*/
void h_max(void) { int *a, *b; etl_max(a, b); VF_REACH(); }
/*@GROUP name=minmax props=C06,C02 kind=F mode=contract enforce=etl_minmax standin=minmax_b timeout=600@*/
void h_minmax(void) { int *a, *b; etl_minmax(a, b); VF_REACH(); }
/*@GROUP name=minmax_b props=C06,C02 kind=F@*/
void h_minmax_b(void) { VF_INPUT(int, a); VF_INPUT(int, b); const int *lo, *hi; minmax_int(&a, &b, &lo, &hi);
  VF_ASSERT(min_int(&a, &b) == (b < a ? &b : &a), "C06: min returns the first argument when equivalent");
  VF_ASSERT(max_int(&a, &b) == (a < b ? &b : &a), "C06: max returns the first argument when equivalent");
  VF_ASSERT(lo == (b < a ? &b : &a) && hi == (b < a ? &a : &b), "C06: minmax returns pair(a, b) unless b < a"); VF_REACH(); }

/*@COMMON@*/
#define SORTED(a, n) for (unsigned long i_ = 1; i_ < (n); ++i_) VF_ASSUME(!(a##_in[i_] < a##_in[i_ - 1]))

/*@GROUP name=lower_bound props=C06,C02 kind=U mode=contract enforce=etl_lower_bound loops=1 standin=lower_bound_b timeout=900@*/
void h_lower_bound(void) { XG f, l; int *v; struct etl_less c; GH(); etl_lower_bound(f, l, v, c); VF_REACH(); }
/*@GROUP name=lower_bound_b props=C06,C02 kind=B bound=len<=4 unwind=6 solver=kissat timeout=600@*/
void h_lower_bound_b(void) { IN1(a, n); SORTED(a, n); VF_INPUT(int, v); int *r = lower_bound_int(a, a + n, &v);
  unsigned long i = 0; while (i < n && a_in[i] < v) ++i;
  VF_ASSERT(r == a + i, "C06: lower_bound returns the first position whose element is not less than value"); UNCHANGED(a, n); VF_REACH(); }

/*@GROUP name=upper_bound props=C06,C02 kind=U mode=contract enforce=etl_upper_bound loops=1 standin=upper_bound_b timeout=900@*/
void h_upper_bound(void) { XG f, l; int *v; struct etl_less c; GH(); etl_upper_bound(f, l, v, c); VF_REACH(); }
/*@GROUP name=upper_bound_b props=C06,C02 kind=B bound=len<=4 unwind=6 solver=kissat timeout=600@*/
void h_upper_bound_b(void) { IN1(a, n); SORTED(a, n); VF_INPUT(int, v); int *r = upper_bound_int(a, a + n, &v);
  unsigned long i = 0; while (i < n && !(v < a_in[i])) ++i;
  VF_ASSERT(r == a + i, "C06: upper_bound returns the first position whose element is greater than value"); UNCHANGED(a, n); VF_REACH(); }

/*@GROUP name=binary_search props=C06,C02 kind=U mode=contract enforce=etl_binary_search replace=etl_lower_bound standin=binary_search_b timeout=900@*/
void h_binary_search(void) { XG f, l; int *v; struct etl_less c; GH(); etl_binary_search(f, l, v, c); VF_REACH(); }
/*@GROUP name=binary_search_b props=C06,C02 kind=B bound=len<=4 unwind=6 solver=kissat timeout=600@*/
void h_binary_search_b(void) { IN1(a, n); SORTED(a, n); VF_INPUT(int, v); _Bool r = binary_search_int(a, a + n, &v);
  _Bool e = 0; for (unsigned long i = 0; i < n; ++i) if (a_in[i] == v) e = 1;
  VF_ASSERT(r == e, "C06: binary_search returns whether an element equivalent to value exists"); VF_REACH(); }

/*@GROUP name=equal_range props=C06,C02 kind=U mode=contract enforce=etl_equal_range loops=1 standin=equal_range_b timeout=900@*/
void h_equal_range(void) { XG f, l; int *v; struct etl_less c; GH(); etl_equal_range(f, l, v, c); VF_REACH(); }
/*@GROUP name=equal_range_b props=C06,C02 kind=B bound=len<=4 unwind=6 solver=kissat timeout=600@*/
void h_equal_range_b(void) { IN1(a, n); SORTED(a, n); VF_INPUT(int, v); struct vf_pii r; equal_range_int(a, a + n, &v, &r);
  unsigned long i = 0; while (i < n && a_in[i] < v) ++i; unsigned long j = i; while (j < n && !(v < a_in[j])) ++j;
  VF_ASSERT(r.a == a + i && r.b == a + j, "C06: equal_range returns [lower_bound, upper_bound)"); VF_REACH(); }

/*@GROUP name=accumulate props=C06,C02 kind=U mode=contract enforce=etl_accumulate loops=1 standin=accumulate_b timeout=900@*/
void h_accumulate(void) { unsigned *f, *l, i; GH(); etl_accumulate(f, l, i); VF_REACH(); }
/*@GROUP name=accumulate_b props=C06,C02 kind=B bound=len<=4 unwind=6 timeout=600@*/
void h_accumulate_b(void) { IN1U(a, n); VF_INPUT(unsigned, s); unsigned r = accumulate_u(a, a + n, s);
  unsigned e = s; for (unsigned long i = 0; i < n; ++i) e += a_in[i];
  VF_ASSERT(r == e, "C06: accumulate returns init + a[0] + ... + a[n-1]"); VF_REACH(); }
/*@GROUP name=accumulate_int_b props=C06,C02 kind=B bound=len<=4,|values|<2^28 unwind=6 timeout=600@*/
void h_accumulate_int_b(void) { IN1(a, n); VF_INPUT(int, s); VF_ASSUME(s > -(1 << 28) && s < (1 << 28));
  for (unsigned long i = 0; i < n; ++i) VF_ASSUME(a_in[i] > -(1 << 28) && a_in[i] < (1 << 28));      /* signed overflow in accumulate is the caller's UB */
  int r = accumulate_i(a, a + n, s); int e = s; for (unsigned long i = 0; i < n; ++i) e += a_in[i];
  VF_ASSERT(r == e, "C06: accumulate over int"); VF_REACH(); }

/*@GROUP name=accumulate_op props=C06,C02 kind=U mode=contract enforce=etl_accumulate_op loops=1 standin=accumulate_op_b timeout=900@*/
void h_accumulate_op(void) { int *f, *l, i; struct vf_op2 o; GH(); etl_accumulate_op(f, l, i, o); VF_REACH(); }
/*@GROUP name=accumulate_op_b props=C06,C02 kind=B bound=len<=4 unwind=6 timeout=600@*/
void h_accumulate_op_b(void) { IN1(a, n); VF_INPUT(int, s); int r = accumulate_op(a, a + n, s);
  int e = s; for (unsigned long i = 0; i < n; ++i) e = OP2(e, a_in[i]);
  VF_ASSERT(r == e, "C06: accumulate(op) folds from the left: op(op(init, a[0]), a[1]) ..."); VF_REACH(); }

/*@GROUP name=inner_product props=C06,C02 kind=U mode=contract enforce=etl_inner_product loops=1 standin=inner_product_b timeout=900@*/
void h_inner_product(void) { unsigned *f, *l, *g, i; GH(); etl_inner_product(f, l, g, i); VF_REACH(); }
/*@GROUP name=inner_product_b props=C06,C02 kind=B bound=len<=3 unwind=6 solver=kissat timeout=600@*/
void h_inner_product_b(void) { VF_INPUT(unsigned long, n); VF_ASSUME(n <= 3); VF_BUF(unsigned, a, n, MAXB); VF_BUF(unsigned, b, n, MAXB); VF_INPUT(unsigned, s);
  unsigned r = inner_product_u(a, a + n, b, s); unsigned e = s; for (unsigned long i = 0; i < n; ++i) e += a_in[i] * b_in[i];
  VF_ASSERT(r == e, "C06: inner_product returns init + sum a[i]*b[i]"); VF_REACH(); }

/*@GROUP name=reduce props=C06,C02 kind=U mode=contract enforce=etl_reduce loops=1 standin=reduce_b timeout=900@*/
void h_reduce(void) { unsigned *f, *l, i; GH(); etl_reduce(f, l, i); VF_REACH(); }
/*@GROUP name=reduce0 props=C06,C02 kind=U mode=contract enforce=etl_reduce0 replace=etl_reduce standin=reduce_b timeout=900@*/
void h_reduce0(void) { unsigned *f, *l; GH(); etl_reduce0(f, l); VF_REACH(); }
/*@GROUP name=reduce_b props=C06,C02 kind=B bound=len<=4 unwind=6 timeout=600@*/
void h_reduce_b(void) { IN1U(a, n); VF_INPUT(unsigned, s); unsigned r = reduce_u(a, a + n, s), r0 = reduce0_u(a, a + n);
  unsigned e = 0; for (unsigned long i = 0; i < n; ++i) e += a_in[i];
  VF_ASSERT(r == s + e && r0 == e, "C06: reduce returns init + the sum of the elements (init defaults to 0)"); VF_REACH(); }

/*@GROUP name=minmax_element props=C06,C02 kind=U mode=contract enforce=etl_minmax_element loops=1 standin=minmax_element_b timeout=900@*/
void h_minmax_element(void) { XG f, l; GH(); etl_minmax_element(f, l); VF_REACH(); }
/*@GROUP name=minmax_element_b props=C06,C02 kind=B bound=len<=3 unwind=5 timeout=600@*/
void h_minmax_element_b(void) { IN1S(a, n); struct vf_pii r; minmax_element_int(a, a + n, &r);
  if (n == 0) { VF_ASSERT(r.a == a && r.b == a, "C06: minmax_element of an empty range returns {first, first}"); }
  else { VF_ASSERT(r.a >= a && r.a < a + n && r.b >= a && r.b < a + n, "C06: minmax_element returns iterators into the range");
    for (unsigned long i = 0; i < n; ++i) {
      VF_ASSERT(!(a_in[i] < *r.a) && (a + i >= r.a || *r.a < a_in[i]), "C06: minmax_element: first is the FIRST smallest element");
      VF_ASSERT(!(*r.b < a_in[i]) && (a + i <= r.b || a_in[i] < *r.b), "C06: minmax_element: second is the LAST largest element"); } }
  UNCHANGED(a, n); VF_REACH(); }
