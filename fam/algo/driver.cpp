// driver: algorithm.hpp / numeric.hpp over pointer iterators (C06)
#include <etl/algorithm.hpp>
#include <etl/functional.hpp>
#include <etl/iterator.hpp>
#include <etl/numeric.hpp>
#include <etl/utility.hpp>
#define VF_E extern "C"
namespace vf {
using uint = unsigned;
// functors (lowered to C functions taking the functor object by pointer)
struct pred3 {
    constexpr auto operator()(int x) const -> bool { return x % 3 == 0; }
};
struct op1 { // x*2+1 on a wrap-free domain (the argument is masked to 30 bits)
    constexpr auto operator()(int x) const -> int { return (x & 0x3fffffff) * 2 + 1; }
};
struct op2 { // x*3+y on a wrap-free domain (both arguments masked to 20 bits)
    constexpr auto operator()(int x, int y) const -> int { return (x & 0xfffff) * 3 + (y & 0xfffff); }
};
struct mut1 { // for_each: in-place op1
    constexpr auto operator()(int& x) const -> void { x = (x & 0x3fffffff) * 2 + 1; }
};
struct gen1 { // generator: next, next+1, ...
    uint next;
    constexpr auto operator()() -> uint { return next++; }
};
struct pii { int* a; int* b; };

// index iterator (random access): the position is an integer member, the base pointer never changes.  The unbounded
// contract groups of the WRITING algorithms instantiate tetl with this iterator: a loop contract havocs what the loop
// assigns; a havocked raw pointer makes CBMC's symbolic execution dereference it over every address-taken object
// (each store then updates every such object: the formula explodes), a havocked integer index keeps the base precise.
template <typename T>
struct idx {
    using iterator_category = etl::random_access_iterator_tag;
    using value_type        = T;
    using difference_type   = long;
    using pointer           = T*;
    using reference         = T&;
    T* base;
    long i;
    constexpr auto operator*() const -> T& { return base[i]; }
    constexpr auto operator[](long n) const -> T& { return base[i + n]; }
    constexpr auto operator++() -> idx& { ++i; return *this; }
    constexpr auto operator--() -> idx& { --i; return *this; }
    constexpr auto operator++(int) -> idx { auto t = *this; ++i; return t; }
    constexpr auto operator--(int) -> idx { auto t = *this; --i; return t; }
    constexpr auto operator+=(long n) -> idx& { i += n; return *this; }
    constexpr auto operator-=(long n) -> idx& { i -= n; return *this; }
    friend constexpr auto operator+(idx a, long n) -> idx { return idx{a.base, a.i + n}; }
    friend constexpr auto operator-(idx a, long n) -> idx { return idx{a.base, a.i - n}; }
    friend constexpr auto operator-(idx a, idx b) -> long { return a.i - b.i; }
    friend constexpr auto operator==(idx a, idx b) -> bool { return a.base == b.base && a.i == b.i; }
    friend constexpr auto operator!=(idx a, idx b) -> bool { return !(a == b); }
    friend constexpr auto operator<(idx a, idx b) -> bool { return a.i < b.i; }
};
// index iterator whose base pointer lives in a global (one per range tag): copying / assigning the iterator copies only the
// index, so algorithms that assign whole iterators inside their loop (smallest = first; first = ++it) keep a precise base too.
VF_E int* g_base0();   // ghost hook: defined by the harness, returns the harness global vf_gb0
template <typename T, int Tag>
struct gix {
    using iterator_category = etl::random_access_iterator_tag;
    using value_type        = T;
    using difference_type   = long;
    using pointer           = T*;
    using reference         = T&;
    long i;
    auto operator*() const -> T& { return g_base0()[i]; }
    constexpr auto operator++() -> gix& { ++i; return *this; }
    constexpr auto operator--() -> gix& { --i; return *this; }
    constexpr auto operator++(int) -> gix { auto t = *this; ++i; return t; }
    constexpr auto operator--(int) -> gix { auto t = *this; --i; return t; }
    constexpr auto operator+=(long n) -> gix& { i += n; return *this; }
    constexpr auto operator-=(long n) -> gix& { i -= n; return *this; }
    friend constexpr auto operator+(gix a, long n) -> gix { return gix{a.i + n}; }
    friend constexpr auto operator-(gix a, long n) -> gix { return gix{a.i - n}; }
    friend constexpr auto operator-(gix a, gix b) -> long { return a.i - b.i; }
    friend constexpr auto operator==(gix a, gix b) -> bool { return a.i == b.i; }
    friend constexpr auto operator!=(gix a, gix b) -> bool { return a.i != b.i; }
    friend constexpr auto operator<(gix a, gix b) -> bool { return a.i < b.i; }
};
using git = gix<int, 0>;
using it  = idx<int>;
using uit = idx<uint>;

// non-modifying
VF_E int* find_int(int* f, int* l, int const& v) { return etl::find(f, l, v); }
VF_E int* find_if_p3(int* f, int* l) { return etl::find_if(f, l, pred3{}); }
VF_E int* find_if_not_p3(int* f, int* l) { return etl::find_if_not(f, l, pred3{}); }
VF_E bool all_of_p3(int* f, int* l) { return etl::all_of(f, l, pred3{}); }
VF_E bool any_of_p3(int* f, int* l) { return etl::any_of(f, l, pred3{}); }
VF_E bool none_of_p3(int* f, int* l) { return etl::none_of(f, l, pred3{}); }
VF_E long count_int(int* f, int* l, int const& v) { return etl::count(f, l, v); }
VF_E long count_if_p3(int* f, int* l) { return etl::count_if(f, l, pred3{}); }
VF_E void for_each_mut(int* f, int* l) { (void)etl::for_each(f, l, mut1{}); }
VF_E void mismatch3(int* f1, int* l1, int* f2, pii* out) { auto r = etl::mismatch(f1, l1, f2); out->a = r.first; out->b = r.second; }
VF_E void mismatch4(int* f1, int* l1, int* f2, int* l2, pii* out) { auto r = etl::mismatch(f1, l1, f2, l2); out->a = r.first; out->b = r.second; }
VF_E bool equal3(int* f1, int* l1, int* f2) { return etl::equal(f1, l1, f2); }
VF_E bool equal4(int* f1, int* l1, int* f2, int* l2) { return etl::equal(f1, l1, f2, l2); }
VF_E int* adjacent_find_int(int* f, int* l) { return etl::adjacent_find(f, l); }
VF_E bool lexcmp(int* f1, int* l1, int* f2, int* l2) { return etl::lexicographical_compare(f1, l1, f2, l2); }

// copying / filling
VF_E int* copy_int(int* f, int* l, int* d) { return etl::copy(f, l, d); }
VF_E int* copy_if_p3(int* f, int* l, int* d) { return etl::copy_if(f, l, d, pred3{}); }
VF_E int* copy_n_int(int* f, long n, int* d) { return etl::copy_n(f, n, d); }
VF_E int* copy_backward_int(int* f, int* l, int* d) { return etl::copy_backward(f, l, d); }
VF_E int* move_int(int* f, int* l, int* d) { return etl::move(f, l, d); }
VF_E int* move_backward_int(int* f, int* l, int* d) { return etl::move_backward(f, l, d); }
VF_E void fill_int(int* f, int* l, int const& v) { etl::fill(f, l, v); }
VF_E int* fill_n_int(int* f, long n, int const& v) { return etl::fill_n(f, n, v); }
VF_E void generate_u(uint* f, uint* l, uint start) { etl::generate(f, l, gen1{start}); }
VF_E uint* generate_n_u(uint* f, long n, uint start) { return etl::generate_n(f, n, gen1{start}); }
VF_E int* transform1(int* f, int* l, int* d) { return etl::transform(f, l, d, op1{}); }
VF_E int* transform2(int* f1, int* l1, int* f2, int* d) { return etl::transform(f1, l1, f2, d, op2{}); }
VF_E void replace_int(int* f, int* l, int const& o, int const& n) { etl::replace(f, l, o, n); }
VF_E void replace_if_p3(int* f, int* l, int const& n) { etl::replace_if(f, l, pred3{}, n); }
VF_E int* swap_ranges_int(int* f1, int* l1, int* f2) { return etl::swap_ranges(f1, l1, f2); }
VF_E void reverse_int(int* f, int* l) { etl::reverse(f, l); }
VF_E int* reverse_copy_int(int* f, int* l, int* d) { return etl::reverse_copy(f, l, d); }

// min / max / order
VF_E int* min_element_int(int* f, int* l) { return etl::min_element(f, l); }
VF_E int* max_element_int(int* f, int* l) { return etl::max_element(f, l); }
VF_E int* max_element_gt(int* f, int* l) { return etl::max_element(f, l, etl::greater()); }
VF_E void minmax_element_int(int* f, int* l, pii* out) { auto r = etl::minmax_element(f, l); out->a = r.first; out->b = r.second; }
VF_E bool is_sorted_int(int* f, int* l) { return etl::is_sorted(f, l); }
VF_E int* is_sorted_until_int(int* f, int* l) { return etl::is_sorted_until(f, l); }
VF_E int* is_sorted_until_gt(int* f, int* l) { return etl::is_sorted_until(f, l, etl::greater()); }
VF_E bool is_partitioned_p3(int* f, int* l) { return etl::is_partitioned(f, l, pred3{}); }
VF_E int* partition_point_p3(int* f, int* l) { return etl::partition_point(f, l, pred3{}); }
VF_E int* lower_bound_int(int* f, int* l, int const& v) { return etl::lower_bound(f, l, v); }
VF_E int* upper_bound_int(int* f, int* l, int const& v) { return etl::upper_bound(f, l, v); }
VF_E bool binary_search_int(int* f, int* l, int const& v) { return etl::binary_search(f, l, v); }
VF_E void equal_range_int(int* f, int* l, int const& v, pii* out) { auto r = etl::equal_range(f, l, v); out->a = r.first; out->b = r.second; }
VF_E int const* clamp_int(int const& v, int const& lo, int const& hi) { return &etl::clamp(v, lo, hi); }
VF_E int const* min_int(int const& a, int const& b) { return &etl::min(a, b); }
VF_E int const* max_int(int const& a, int const& b) { return &etl::max(a, b); }
VF_E void minmax_int(int const& a, int const& b, int const** lo, int const** hi) { auto r = etl::minmax(a, b); *lo = &r.first; *hi = &r.second; }

// removing
VF_E int* remove_int(int* f, int* l, int const& v) { return etl::remove(f, l, v); }
VF_E int* remove_if_p3(int* f, int* l) { return etl::remove_if(f, l, pred3{}); }
VF_E int* remove_copy_int(int* f, int* l, int* d, int const& v) { return etl::remove_copy(f, l, d, v); }
VF_E int* remove_copy_if_p3(int* f, int* l, int* d) { return etl::remove_copy_if(f, l, d, pred3{}); }
VF_E int* unique_int(int* f, int* l) { return etl::unique(f, l); }
VF_E int* unique_copy_int(int* f, int* l, int* d) { return etl::unique_copy(f, l, d); }

// numeric
VF_E uint accumulate_u(uint* f, uint* l, uint init) { return etl::accumulate(f, l, init); }
VF_E int accumulate_i(int* f, int* l, int init) { return etl::accumulate(f, l, init); }
VF_E int accumulate_op(int* f, int* l, int init) { return etl::accumulate(f, l, init, op2{}); }
VF_E uint inner_product_u(uint* f1, uint* l1, uint* f2, uint init) { return etl::inner_product(f1, l1, f2, init); }
VF_E uint* partial_sum_u(uint* f, uint* l, uint* d) { return etl::partial_sum(f, l, d); }
VF_E uint* adjacent_difference_u(uint* f, uint* l, uint* d) { return etl::adjacent_difference(f, l, d); }
VF_E void iota_u(uint* f, uint* l, uint v) { etl::iota(f, l, v); }
VF_E uint reduce_u(uint* f, uint* l, uint init) { return etl::reduce(f, l, init); }
VF_E uint reduce0_u(uint* f, uint* l) { return etl::reduce(f, l); }

// the same writing algorithms over the index iterator (contract groups)
VF_E void x_for_each(it const& f, it const& l) { (void)etl::for_each(f, l, mut1{}); }
VF_E void x_copy(it const& f, it const& l, it const& d, it* o) { *o = etl::copy(f, l, d); }
VF_E void x_copy_if(it const& f, it const& l, it const& d, it* o) { *o = etl::copy_if(f, l, d, pred3{}); }
VF_E void x_copy_n(it const& f, long n, it const& d, it* o) { *o = etl::copy_n(f, n, d); }
VF_E void x_copy_backward(it const& f, it const& l, it const& d, it* o) { *o = etl::copy_backward(f, l, d); }
VF_E void x_move(it const& f, it const& l, it const& d, it* o) { *o = etl::move(f, l, d); }
VF_E void x_move_backward(it const& f, it const& l, it const& d, it* o) { *o = etl::move_backward(f, l, d); }
VF_E void x_fill(it const& f, it const& l, int const& v) { etl::fill(f, l, v); }
VF_E void x_fill_n(it const& f, long n, int const& v, it* o) { *o = etl::fill_n(f, n, v); }
VF_E void x_generate(uit const& f, uit const& l, uint start) { etl::generate(f, l, gen1{start}); }
VF_E void x_generate_n(uit const& f, long n, uint start, uit* o) { *o = etl::generate_n(f, n, gen1{start}); }
VF_E void x_transform1(it const& f, it const& l, it const& d, it* o) { *o = etl::transform(f, l, d, op1{}); }
VF_E void x_transform2(it const& f1, it const& l1, it const& f2, it const& d, it* o) { *o = etl::transform(f1, l1, f2, d, op2{}); }
VF_E void x_replace(it const& f, it const& l, int const& ov, int const& nv) { etl::replace(f, l, ov, nv); }
VF_E void x_replace_if(it const& f, it const& l, int const& nv) { etl::replace_if(f, l, pred3{}, nv); }
VF_E void x_swap_ranges(it const& f1, it const& l1, it const& f2, it* o) { *o = etl::swap_ranges(f1, l1, f2); }
VF_E void x_reverse(it const& f, it const& l) { etl::reverse(f, l); }
VF_E void x_reverse_copy(it const& f, it const& l, it const& d, it* o) { *o = etl::reverse_copy(f, l, d); }
VF_E void x_remove(it const& f, it const& l, int const& v, it* o) { *o = etl::remove(f, l, v); }
VF_E void x_remove_if(it const& f, it const& l, it* o) { *o = etl::remove_if(f, l, pred3{}); }
VF_E void x_remove_copy(it const& f, it const& l, it const& d, int const& v, it* o) { *o = etl::remove_copy(f, l, d, v); }
VF_E void x_remove_copy_if(it const& f, it const& l, it const& d, it* o) { *o = etl::remove_copy_if(f, l, d, pred3{}); }
VF_E void x_unique(it const& f, it const& l, it* o) { *o = etl::unique(f, l); }
VF_E void x_unique_copy(it const& f, it const& l, it const& d, it* o) { *o = etl::unique_copy(f, l, d); }
VF_E void x_partial_sum(uit const& f, uit const& l, uit const& d, uit* o) { *o = etl::partial_sum(f, l, d); }
VF_E void x_adjacent_difference(uit const& f, uit const& l, uit const& d, uit* o) { *o = etl::adjacent_difference(f, l, d); }
VF_E long g_min_element(long f, long l) { return etl::min_element(git{f}, git{l}).i; }
VF_E long g_max_element(long f, long l) { return etl::max_element(git{f}, git{l}).i; }
VF_E long g_lower_bound(long f, long l, int const& v) { return etl::lower_bound(git{f}, git{l}, v).i; }
VF_E long g_upper_bound(long f, long l, int const& v) { return etl::upper_bound(git{f}, git{l}, v).i; }
VF_E bool g_binary_search(long f, long l, int const& v) { return etl::binary_search(git{f}, git{l}, v); }
VF_E void g_equal_range(long f, long l, int const& v, long* a, long* b) { auto r = etl::equal_range(git{f}, git{l}, v); *a = r.first.i; *b = r.second.i; }
VF_E void g_minmax_element(long f, long l, long* a, long* b) { auto r = etl::minmax_element(git{f}, git{l}); *a = r.first.i; *b = r.second.i; }
VF_E long g_max_element_gt(long f, long l) { return etl::max_element(git{f}, git{l}, etl::greater()).i; }
VF_E bool x_is_partitioned(it const& f, it const& l) { return etl::is_partitioned(f, l, pred3{}); }
VF_E void x_iota(uit const& f, uit const& l, uint v) { etl::iota(f, l, v); }

// ---- second wave: algorithms that so far only had bounded stand-ins (fam/algob)
// read-only source ranges of the copying algorithms: idx<int const>.  etl::copy<idx<int const>, idx<int>> is thereby a different
// instantiation than etl::copy<idx<int>, idx<int>> and carries its own, parameter-relative contract (etl_copy_c), which the callers
// rotate_copy / merge / set_* are checked against (replace=).
using cit = idx<int const>;
struct u_xor { constexpr auto operator()(uint a, uint b) const -> uint { return a ^ b; } };
struct u_and { constexpr auto operator()(uint a, uint b) const -> uint { return a & b; } };
struct u_triple { constexpr auto operator()(uint a) const -> uint { return a * 3U; } };
// comparator on the key x >> 4 (the low four bits are a tag: equivalent-but-different elements make the tie rules observable)
struct klt { constexpr auto operator()(int const& a, int const& b) const -> bool { return (a >> 4) < (b >> 4); } };
VF_E void x_partition_copy(it const& f, it const& l, it const& dt, it const& df, it* ot, it* of) { auto r = etl::partition_copy(f, l, dt, df, pred3{}); *ot = r.first; *of = r.second; }
VF_E uint transform_reduce2_u(uint* f, uint* l, uint* f2, uint init) { return etl::transform_reduce(f, l, f2, init); }
VF_E uint transform_reduce2_op(uint* f, uint* l, uint* f2, uint init) { return etl::transform_reduce(f, l, f2, init, u_xor{}, u_and{}); }
VF_E uint transform_reduce1_u(uint* f, uint* l, uint init) { return etl::transform_reduce(f, l, init, etl::plus(), u_triple{}); }
VF_E void x_copy_c(cit const& f, cit const& l, it const& d, it* o) { *o = etl::copy(f, l, d); }
VF_E void x_rotate_copy(cit const& f, cit const& m, cit const& l, it const& d, it* o) { *o = etl::rotate_copy(f, m, l, d); }
VF_E void x_shift_left(it const& f, it const& l, long n, it* o) { *o = etl::shift_left(f, l, n); }
VF_E void x_shift_right(it const& f, it const& l, long n, it* o) { *o = etl::shift_right(f, l, n); }
VF_E void x_find_if_not(it const& f, it const& l, it* o) { *o = etl::find_if_not(f, l, pred3{}); }
VF_E void x_partition(it const& f, it const& l, it* o) { *o = etl::partition(f, l, pred3{}); }
VF_E int* search_n_int(int* f, int* l, long c, int const& v) { return etl::search_n(f, l, c, v); }
VF_E int* find_first_of_int(int* f, int* l, int* sf, int* sl) { return etl::find_first_of(f, l, sf, sl); }
VF_E bool includes_int(int* f1, int* l1, int* f2, int* l2) { return etl::includes(f1, l1, f2, l2); }
VF_E void x_merge(cit const& f1, cit const& l1, cit const& f2, cit const& l2, it const& d, it* o) { *o = etl::merge(f1, l1, f2, l2, d, klt{}); }
VF_E void x_set_union(cit const& f1, cit const& l1, cit const& f2, cit const& l2, it const& d, it* o) { *o = etl::set_union(f1, l1, f2, l2, d, klt{}); }
VF_E void x_set_intersection(cit const& f1, cit const& l1, cit const& f2, cit const& l2, it const& d, it* o) { *o = etl::set_intersection(f1, l1, f2, l2, d, klt{}); }
VF_E void x_set_difference(cit const& f1, cit const& l1, cit const& f2, cit const& l2, it const& d, it* o) { *o = etl::set_difference(f1, l1, f2, l2, d, klt{}); }
VF_E void x_set_symmetric_difference(cit const& f1, cit const& l1, cit const& f2, cit const& l2, it const& d, it* o) { *o = etl::set_symmetric_difference(f1, l1, f2, l2, d, klt{}); }
// for_each_n / iter_swap (no driver instantiated them before)
VF_E int* for_each_n_mut(int* f, long n) { return etl::for_each_n(f, n, mut1{}); }
VF_E void x_for_each_n(it const& f, long n, it* o) { *o = etl::for_each_n(f, n, mut1{}); }
VF_E void iter_swap_int(int* a, int* b) { etl::iter_swap(a, b); }
VF_E int* search_int(int* f, int* l, int* sf, int* sl) { return etl::search(f, l, sf, sl); }
} // namespace vf
