// driver: algorithm.hpp / numeric.hpp over pointer iterators (C06)
#include <etl/algorithm.hpp>
#include <etl/numeric.hpp>
#define VF_E extern "C"
namespace vf {
VF_E int* find_int(int* f, int* l, int const& v) { return etl::find(f, l, v); }
}
