#!/usr/bin/env python3
"""mkspec.py -- writes fam/algo/contracts.spec (run by hand after editing: `python3 fam/algo/mkspec.py`).

contracts.spec has no macro facility of its own (clauses only see the vf.h shorthands OFF/SAME/OLD/ENTRY/RET/FRESH),
so the recurring clause shapes are expanded here.  The engine only ever reads contracts.spec.

Conventions
  vf_n, vf_m   ghost lengths of the first / second range          vf_k, vf_j   ghost indices ("for all k" by symbolic k)
  vf_p, vf_q   ghost partition points (preconditions of the binary searches)
  P3(x)        the driver's predicate  x % 3 == 0   (written out again here, independently of the lowered functor)
  OP1(x)       x*2+1 mod 2^32,  OP2(x,y) x*3+y mod 2^32
"""
import os, re, sys

NMAX = os.environ.get("VF_NMAX", "1000000")
I = "sizeof(int)"


def P3(x): return "((%s) %% 3 == 0)" % x
def OP1(x): return "((int)((unsigned)(%s) * 2u + 1u))" % x
def OP2(x, y): return "((int)((unsigned)(%s) * 3u + (unsigned)(%s)))" % (x, y)


def rng(f="first", l="last", n="vf_n"):
    """requires: [f,l) is a fresh array of n ints"""
    return "%s <= %s && FRESH(%s, %s * %s) && %s == %s + %s" % (n, NMAX, f, n, I, l, f, n)


def buf(p, n="vf_n"):
    return "%s <= %s && FRESH(%s, %s * %s)" % (n, NMAX, p, n, I)


def inr(p, b, n="vf_n"):
    """p points into [b, b+n] (inclusive end), element aligned"""
    return "SAME(%s, %s) && OFF(%s) >= OFF(%s) && OFF(%s) <= OFF(%s) + %s * %s && (OFF(%s) - OFF(%s)) %% %s == 0" % (p, b, p, b, p, b, n, I, p, b, I)


def at(p, b, i):
    """p == b + i, as SAME/OFF facts"""
    return "SAME(%s, %s) && OFF(%s) == OFF(%s) + (%s) * %s" % (p, b, p, b, i, I)


def idx(p, b): return "((OFF(%s) - OFF(%s)) / %s)" % (p, b, I)


def linv(f="first", l="last"):
    """loop: f walks from its entry value towards l"""
    return "SAME(%s, %s) && (OFF(%s) - OFF(ENTRY(%s))) %% %s == 0 && OFF(ENTRY(%s)) <= OFF(%s) && OFF(%s) <= OFF(%s)" % (f, l, f, f, I, f, f, f, l)


def lock(d, f="first"):
    """loop: d advances in lock step with f"""
    return "SAME(%s, ENTRY(%s)) && OFF(%s) - OFF(ENTRY(%s)) == OFF(%s) - OFF(ENTRY(%s))" % (d, d, d, d, f, f)


def before(k, p, b):
    """ghost index k (relative to base b) lies before pointer p"""
    return "OFF(%s) + %s * %s < OFF(%s)" % (b, k, I, p)


def oldel(p, k="vf_k", n="vf_n"):
    """value of p[k] on function entry (guarded so that the snapshot never reads out of bounds)"""
    return "OLD(%s[%s])" % (p, k)


def entel(p, k="vf_k", n="vf_n"):
    return "ENTRY(%s[%s])" % (p, k)


def upto(p, n="vf_n"): return "__CPROVER_object_upto(%s, %s * %s)" % (p, n, I)


OUT = []


def fn(name, alias, clauses, loops=(), sig=None):
    OUT.append("FUNCTION " + name)
    if sig:
        OUT.append("  SIG " + sig)
    OUT.append("  ALIAS " + alias)
    for kw, e in clauses:
        OUT.append("  %s %s" % (kw, e))
    for i, lp in enumerate(loops):
        if lp is None:
            continue
        OUT.append("  LOOP %d" % i)
        for kw, e in lp:
            OUT.append("    %s %s" % (kw, e))


def R(e): return ("REQUIRES", e)
def E(e): return ("ENSURES", e)
def A(e=""): return ("ASSIGNS", e)
def INV(e): return ("INVARIANT", e)
def DEC(e): return ("DECREASES", e)


# ===== CONTRACTS =====

K = "vf_k < vf_n"
OF = "OLD(first)"
EF = "ENTRY(first)"
DECR = DEC("OFF(last) - OFF(first)")
KB = "(%s && %s + vf_k < first)" % (K, EF)          # loop: ghost element already visited
KA = "(%s && %s + vf_k >= first)" % (K, EF)         # loop: ghost element not yet visited


def finder(name, alias, hit, extra_req=()):
    """first position whose element satisfies hit(e), or last; nothing written"""
    fn(name, alias,
       [R(x) for x in extra_req] + [R(rng()),
        E(inr("RET", OF)),
        E("RET == OLD(last) || %s" % hit("*RET")),
        E("(%s && %s) ==> !%s" % (K, before("vf_k", "RET", OF), hit("OLD(first)[vf_k]"))),
        A()],
       [[A("first"), INV(linv()), INV("%s ==> !%s" % (KB, hit(EF + "[vf_k]"))), DECR]])


finder("etl::find<int *, int>", "etl_find", lambda e: "(%s == *value)" % e, ["FRESH(value, sizeof(int))"])
finder("etl::find_if<int *, vf::pred3>", "etl_find_if", P3)
finder("etl::find_if_not<int *, vf::pred3>", "etl_find_if_not", lambda e: "(!%s)" % P3(e))

# all_of / any_of / none_of: checked against the contract of find_if(_not) (replace=)
fn("etl::all_of<int *, vf::pred3>", "etl_all_of", [R(rng()),
   E("(RET && %s) ==> %s" % (K, P3("OLD(first)[vf_k]"))),
   E("vf_n == 0 ==> RET"), A()])
fn("etl::any_of<int *, vf::pred3>", "etl_any_of", [R(rng()),
   E("(!RET && %s) ==> !%s" % (K, P3("OLD(first)[vf_k]"))),
   E("vf_n == 0 ==> !RET"), A()])
fn("etl::none_of<int *, vf::pred3>", "etl_none_of", [R(rng()),
   E("(RET && %s) ==> !%s" % (K, P3("OLD(first)[vf_k]"))),
   E("vf_n == 0 ==> RET"), A()])


def counter(name, alias, hit, extra_req=()):
    """number of matching elements: 0 <= r <= n, r >= 1 iff some element matches, r <= n-1 iff some element does not"""
    fn(name, alias,
       [R(x) for x in extra_req] + [R(rng()),
        E("0 <= RET && RET <= (long)vf_n"),
        E("(%s && %s) ==> RET >= 1" % (K, hit("OLD(first)[vf_k]"))),
        E("(%s && !%s) ==> RET <= (long)vf_n - 1" % (K, hit("OLD(first)[vf_k]"))),
        A()],
       [[A("first, result"), INV(linv()),
         INV("0 <= result && result <= (long)%s" % idx("first", EF)),
         INV("(%s && %s) ==> result >= 1" % (KB, hit(EF + "[vf_k]"))),
         INV("(%s && !%s) ==> result <= (long)%s - 1" % (KB, hit(EF + "[vf_k]"), idx("first", EF))),
         DECR]])


counter("etl::count<int *, int>", "etl_count", lambda e: "(%s == *value)" % e, ["FRESH(value, sizeof(int))"])
counter("etl::count_if<int *, vf::pred3>", "etl_count_if", P3)


# ---------------------------------------------------------------------------------------------------------------------
# writing algorithms: instantiated with the index iterator vf::idx<T> {T* base; long i;} (see driver.cpp for the reason)
def xrng(f="first", l="last", n="vf_n", off="0"):
    """requires: [f,l) = elements off .. off+n of a fresh array of off+n ints"""
    return "vf_k <= %s && %s <= %s && %s <= %s && FRESH(%s.base, (%s + %s) * %s) && %s.i == (long)(%s) && %s.base == %s.base && %s.i == (long)(%s + %s)" % (
        n, n, NMAX, off, NMAX, f, off, n, I, f, off, l, f, l, off, n)


def xbuf(d, n="vf_n"):
    return "FRESH(%s.base, %s * %s) && %s.i == 0" % (d, n, I, d)


def xat(r, base, i): return "%s.base == %s && %s.i == (long)(%s)" % (r, base, r, i)
def xupto(b, n="vf_n"): return "__CPROVER_object_upto(%s, (%s) * %s)" % (b, n, I)


XDEC = DEC("last.i - first.i")
XK_B = "(vf_k < vf_n && (long)vf_k < first.i)"
XK_A = "(vf_k < vf_n && (long)vf_k >= first.i)"

fn("etl::for_each<vf::idx<int>, vf::mut1>", "etl_for_each", [R(xrng()),
   E("%s ==> OLD(first.base)[vf_k] == %s" % (K, OP1("OLD(first.base[vf_k])"))),
   A(xupto("first.base"))],
   [[A("first.i, " + xupto("first.base")), INV("0 <= first.i && first.i <= last.i"),
     INV("%s ==> first.base[vf_k] == %s" % (XK_B, OP1("ENTRY(first.base[vf_k])"))),
     INV("%s ==> first.base[vf_k] == ENTRY(first.base[vf_k])" % XK_A),
     XDEC]])

# copy: source = elements vf_m .. vf_m+vf_n of buffer A; destination = a separate buffer, or the start of A (vf_m >= 1: the
# destination lies before `first`, the overlap direction [alg.copy] permits)
SRC = "(first.i - (long)vf_m)"     # loop: number of elements copied so far
fn("etl::copy<vf::idx<int>, vf::idx<int>>", "etl_copy", [R(xrng(off="vf_m")),
   R("vf_ov ? (__CPROVER_pointer_equals(destination.base, first.base) && destination.i == 0 && vf_m >= 1) : (%s)" % xbuf("destination")),
   E(xat("RET", "OLD(destination.base)", "vf_n")),
   E("%s ==> OLD(destination.base)[vf_k] == OLD(first.base[vf_m + vf_k])" % K),
   A(xupto("destination.base"))],
   [[A("first.i, destination.i, " + xupto("destination.base")),
     INV("(long)vf_m <= first.i && first.i <= last.i && destination.i == %s" % SRC),
     INV("(%s && (long)vf_k < %s) ==> destination.base[vf_k] == ENTRY(first.base[vf_m + vf_k])" % (K, SRC)),
     INV("(%s && (long)vf_k >= %s) ==> first.base[vf_m + vf_k] == ENTRY(first.base[vf_m + vf_k])" % (K, SRC)),
     XDEC]])
# ===== END CONTRACTS =====

hdr = ["# generated by fam/algo/mkspec.py -- edit that file and re-run it",
       "GHOST unsigned long vf_n, vf_m, vf_k, vf_j, vf_p, vf_q, vf_ov;"]
open(os.path.join(os.path.dirname(os.path.abspath(__file__)), "contracts.spec"), "w").write("\n".join(hdr + OUT) + "\n")
