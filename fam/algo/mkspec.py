#!/usr/bin/env python3
"""mkspec.py -- writes fam/algo/contracts.spec (run by hand after editing: `python3 fam/algo/mkspec.py`).

contracts.spec has no macro facility of its own (clauses only see the vf.h shorthands OFF/SAME/OLD/ENTRY/RET/FRESH),
so the recurring clause shapes are expanded here.  The engine only ever reads contracts.spec.

Conventions
  vf_n, vf_m   ghost lengths of the first / second range          vf_k, vf_j   ghost indices ("for all k" by symbolic k)
  vf_ov        ghost selector: which of the overlap / aliasing configurations the standard permits is set up by REQUIRES
  vf_sel       ghost selector: 1 = also check the clause that a known finding violates (see KNOWN), 0 = all other clauses
  vf_p, vf_q   ghost partition points (preconditions of the binary searches)
  P3(x)        the driver's predicate  x % 3 == 0   (written out again here, independently of the lowered functor)
  OP1(x)       (x & 0x3fffffff)*2+1,  OP2(x,y) (x & 0xfffff)*3 + (y & 0xfffff)   (wrap-free on all of int)
"""
import os, re, sys

NMAX = os.environ.get("VF_NMAX", "1000000")      # cap on the ghost length of ranges that are only read
NMAXW = os.environ.get("VF_NMAXW", "10000")      # cap for ranges that are written: cbmc --trace (always on in the engine, and VF_REACH
                                                 # fails by design) enumerates a havocked array element-wise: 10^4 -> 15 s, 10^5 -> 10 min+
I = "sizeof(int)"


def P3(x): return "((%s) %% 3 == 0)" % x
def OP1(x): return "(((%s) & 0x3fffffff) * 2 + 1)" % x
def OP2(x, y): return "(((%s) & 0xfffff) * 3 + ((%s) & 0xfffff))" % (x, y)


def rng(f="first", l="last", n="vf_n"):
    """requires: [f,l) is a fresh array of n ints"""
    g = "vf_k <= vf_n && vf_j <= vf_n && " if n == "vf_n" else ""
    return g + "%s <= %s && FRESH(%s, %s * %s) && __CPROVER_pointer_equals(%s, %s + %s)" % (n, NMAX, f, n, I, l, f, n)


def buf(p, n="vf_n"):
    return "%s <= %s && FRESH(%s, %s * %s)" % (n, NMAX, p, n, I)


def inr(p, b, n="vf_n"):
    """p points into [b, b+n] (inclusive end), element aligned"""
    return "SAME(%s, %s) && OFF(%s) >= OFF(%s) && OFF(%s) <= OFF(%s) + %s * %s && (OFF(%s) - OFF(%s)) %% %s == 0" % (p, b, p, b, p, b, n, I, p, b, I)


def at(p, b, i):
    """p == b + i, as SAME/OFF facts"""
    return "SAME(%s, %s) && OFF(%s) == OFF(%s) + (%s) * %s" % (p, b, p, b, i, I)


def idx(p, b): return "((OFF(%s) - OFF(%s)) / %s)" % (p, b, I)


def linv(f="first", l="last"):
    """loop: f walks from its entry value towards l"""
    return "SAME(%s, %s) && (OFF(%s) - OFF(ENTRY(%s))) %% %s == 0 && OFF(ENTRY(%s)) <= OFF(%s) && OFF(%s) <= OFF(%s)" % (f, l, f, f, I, f, f, f, l)


def lock(d, f="first"):
    """loop: d advances in lock step with f"""
    return "SAME(%s, ENTRY(%s)) && OFF(%s) - OFF(ENTRY(%s)) == OFF(%s) - OFF(ENTRY(%s))" % (d, d, d, d, f, f)


def before(k, p, b):
    """ghost index k (relative to base b) lies before pointer p"""
    return "OFF(%s) + %s * %s < OFF(%s)" % (b, k, I, p)


def oldel(p, k="vf_k", n="vf_n"):
    """value of p[k] on function entry (guarded so that the snapshot never reads out of bounds)"""
    return "OLD(%s[%s])" % (p, k)


def entel(p, k="vf_k", n="vf_n"):
    return "ENTRY(%s[%s])" % (p, k)


def upto(p, n="vf_n"): return "__CPROVER_object_upto(%s, %s * %s)" % (p, n, I)


OUT = []


def fn(name, alias, clauses, loops=(), sig=None):
    OUT.append("FUNCTION " + name)
    if sig:
        OUT.append("  SIG " + sig)
    OUT.append("  ALIAS " + alias)
    for kw, e in clauses:
        OUT.append("  %s %s" % (kw, e))
    for i, lp in enumerate(loops):
        if lp is None:
            continue
        OUT.append("  LOOP %d" % i)
        for kw, e in lp:
            OUT.append("    %s %s" % (kw, e))


def R(e): return ("REQUIRES", e)
def E(e): return ("ENSURES", e)
def A(e=""): return ("ASSIGNS", e)
def INV(e): return ("INVARIANT", e)
def DEC(e): return ("DECREASES", e)


# ===== CONTRACTS =====

K = "vf_k < vf_n"
OF = "OLD(first)"
EF = "ENTRY(first)"
DECR = DEC("OFF(last) - OFF(first)")
KB = "(%s && %s + vf_k < first)" % (K, EF)          # loop: ghost element already visited
KA = "(%s && %s + vf_k >= first)" % (K, EF)         # loop: ghost element not yet visited


def finder(name, alias, hit, extra_req=()):
    """first position whose element satisfies hit(e), or last; nothing written"""
    fn(name, alias,
       [R(x) for x in extra_req] + [R(rng()),
        E(inr("RET", OF)),
        E("RET == OLD(last) || %s" % hit("*RET")),
        E("(%s && %s) ==> !%s" % (K, before("vf_k", "RET", OF), hit("OLD(first)[vf_k]"))),
        A()],
       [[A("first"), INV(linv()), INV("%s ==> !%s" % (KB, hit(EF + "[vf_k]"))), DECR]])


finder("etl::find<int *, int>", "etl_find", lambda e: "(%s == *value)" % e, ["FRESH(value, sizeof(int))"])
finder("etl::find_if<int *, vf::pred3>", "etl_find_if", P3)
finder("etl::find_if_not<int *, vf::pred3>", "etl_find_if_not", lambda e: "(!%s)" % P3(e))

# all_of / any_of / none_of: checked against the contract of find_if(_not) (replace=)
fn("etl::all_of<int *, vf::pred3>", "etl_all_of", [R(rng()),
   E("(RET && %s) ==> %s" % (K, P3("OLD(first)[vf_k]"))),
   E("vf_n == 0 ==> RET"), A()])
fn("etl::any_of<int *, vf::pred3>", "etl_any_of", [R(rng()),
   E("(!RET && %s) ==> !%s" % (K, P3("OLD(first)[vf_k]"))),
   E("vf_n == 0 ==> !RET"), A()])
fn("etl::none_of<int *, vf::pred3>", "etl_none_of", [R(rng()),
   E("(RET && %s) ==> !%s" % (K, P3("OLD(first)[vf_k]"))),
   E("vf_n == 0 ==> RET"), A()])


def counter(name, alias, hit, extra_req=()):
    """number of matching elements: 0 <= r <= n, r >= 1 iff some element matches, r <= n-1 iff some element does not"""
    fn(name, alias,
       [R(x) for x in extra_req] + [R(rng()),
        E("0 <= RET && RET <= (long)vf_n"),
        E("(%s && %s) ==> RET >= 1" % (K, hit("OLD(first)[vf_k]"))),
        E("(%s && !%s) ==> RET <= (long)vf_n - 1" % (K, hit("OLD(first)[vf_k]"))),
        A()],
       [[A("first, result"), INV(linv()),
         INV("0 <= result && result <= (long)%s" % idx("first", EF)),
         INV("(%s && %s) ==> result >= 1" % (KB, hit(EF + "[vf_k]"))),
         INV("(%s && !%s) ==> result <= (long)%s - 1" % (KB, hit(EF + "[vf_k]"), idx("first", EF))),
         DECR]])


counter("etl::count<int *, int>", "etl_count", lambda e: "(%s == *value)" % e, ["FRESH(value, sizeof(int))"])
counter("etl::count_if<int *, vf::pred3>", "etl_count_if", P3)


# ---------------------------------------------------------------------------------------------------------------------
# writing algorithms: instantiated with the index iterator vf::idx<T> {T* base; long i;} (see driver.cpp for the reason)
def xrng(f="first", l="last", n="vf_n", off="0"):
    """requires: [f,l) = elements off .. off+n of a fresh array of off+n ints"""
    return "vf_k <= %s && %s <= %s && %s <= %s && FRESH(%s.base, (%s + %s) * %s) && %s.i == (long)(%s) && __CPROVER_pointer_equals(%s.base, %s.base) && %s.i == (long)(%s + %s)" % (
        n, n, NMAXW, off, NMAXW, f, off, n, I, f, off, l, f, l, off, n)


def xbuf(d, n="vf_n"):
    return "FRESH(%s.base, %s * %s) && %s.i == 0" % (d, n, I, d)


def xat(r, base, i): return "%s.base == %s && %s.i == (long)(%s)" % (r, base, r, i)
def xupto(b, n="vf_n"): return "__CPROVER_object_upto(%s, (%s) * %s)" % (b, n, I)


XDEC = DEC("last.i - first.i")
XK_B = "(vf_k < vf_n && (long)vf_k < first.i)"
XK_A = "(vf_k < vf_n && (long)vf_k >= first.i)"

fn("etl::for_each<vf::idx<int>, vf::mut1>", "etl_for_each", [R(xrng()),
   E("%s ==> OLD(first.base)[vf_k] == %s" % (K, OP1("OLD(first.base[vf_k])"))),
   A(xupto("first.base"))],
   [[A("first.i, " + xupto("first.base")), INV("0 <= first.i && first.i <= last.i"),
     INV("%s ==> first.base[vf_k] == %s" % (XK_B, OP1("ENTRY(first.base[vf_k])"))),
     INV("%s ==> first.base[vf_k] == ENTRY(first.base[vf_k])" % XK_A),
     XDEC]])

# copy: source = elements vf_m .. vf_m+vf_n of buffer A; destination = a separate buffer, or the start of A (vf_m >= 1: the
# destination lies before `first`, the overlap direction [alg.copy] permits)
SRC = "(first.i - (long)vf_m)"     # loop: number of elements copied so far
fn("etl::copy<vf::idx<int>, vf::idx<int>>", "etl_copy", [R(xrng(off="vf_m")),
   R("vf_ov ? (__CPROVER_pointer_equals(destination.base, first.base) && destination.i == 0 && vf_m >= 1) : (%s)" % xbuf("destination")),
   E(xat("RET", "OLD(destination.base)", "vf_n")),
   E("%s ==> OLD(destination.base)[vf_k] == OLD(first.base[vf_m + vf_k])" % K),
   A(xupto("destination.base"))],
   [[A("first.i, destination.i, " + xupto("destination.base")),
     INV("(long)vf_m <= first.i && first.i <= last.i && destination.i == %s" % SRC),
     INV("(%s && (long)vf_k < %s) ==> destination.base[vf_k] == ENTRY(first.base[vf_m + vf_k])" % (K, SRC)),
     INV("(%s && (long)vf_k >= %s) ==> first.base[vf_m + vf_k] == ENTRY(first.base[vf_m + vf_k])" % (K, SRC)),
     XDEC]])

# move: as copy
fn("etl::move<vf::idx<int>, vf::idx<int>>", "etl_move", [R(xrng(off="vf_m")),
   R("vf_ov ? (__CPROVER_pointer_equals(destination.base, first.base) && destination.i == 0 && vf_m >= 1) : (%s)" % xbuf("destination")),
   E(xat("RET", "OLD(destination.base)", "vf_n")),
   E("%s ==> OLD(destination.base)[vf_k] == OLD(first.base[vf_m + vf_k])" % K),
   A(xupto("destination.base"))],
   [[A("first.i, destination.i, " + xupto("destination.base")),
     INV("(long)vf_m <= first.i && first.i <= last.i && destination.i == %s" % SRC),
     INV("(%s && (long)vf_k < %s) ==> destination.base[vf_k] == ENTRY(first.base[vf_m + vf_k])" % (K, SRC)),
     INV("(%s && (long)vf_k >= %s) ==> first.base[vf_m + vf_k] == ENTRY(first.base[vf_m + vf_k])" % (K, SRC)),
     XDEC]])


# copy_backward / move_backward: source = elements 0 .. vf_n of A; destination END = element vf_m+vf_n of a separate buffer, or
# of A itself (vf_m >= 1: the destination lies behind the source, the overlap direction [alg.copy]/[alg.move] permit)
def backward(name, alias, dl):
    fn(name, alias, [
       R("vf_k <= vf_n && vf_n <= %s && vf_m <= %s && FRESH(first.base, (vf_m + vf_n) * %s) && first.i == 0 && __CPROVER_pointer_equals(last.base, first.base) && last.i == (long)vf_n" % (NMAXW, NMAXW, I)),
       R("vf_ov ? (__CPROVER_pointer_equals(%s.base, first.base) && vf_m >= 1) : FRESH(%s.base, (vf_m + vf_n) * %s)" % (dl, dl, I)),
       R("%s.i == (long)(vf_m + vf_n)" % dl),
       E(xat("RET", "OLD(%s.base)" % dl, "vf_m")),
       E("%s ==> OLD(%s.base)[vf_m + vf_k] == OLD(first.base[vf_k])" % (K, dl)),
       A(xupto("%s.base + vf_m" % dl))],
       [[A("last.i, %s.i, %s" % (dl, xupto("%s.base + vf_m" % dl))),
         INV("0 <= last.i && last.i <= (long)vf_n && first.i == 0 && %s.i == (long)vf_m + last.i" % dl),
         INV("(%s && (long)vf_k >= last.i) ==> %s.base[vf_m + vf_k] == ENTRY(first.base[vf_k])" % (K, dl)),
         INV("(%s && (long)vf_k < last.i) ==> first.base[vf_k] == ENTRY(first.base[vf_k])" % K),
         DEC("last.i")]])


backward("etl::copy_backward<vf::idx<int>, vf::idx<int>>", "etl_copy_backward", "dLast")
backward("etl::move_backward<vf::idx<int>, vf::idx<int>>", "etl_move_backward", "destination")

# copy_n: as copy without overlap; count == vf_n, or count <= 0 and nothing is copied
fn("etl::copy_n<vf::idx<int>, long, vf::idx<int>>", "etl_copy_n", [
   R("vf_k <= vf_n && vf_n <= %s && FRESH(first.base, vf_n * %s) && first.i == 0 && %s" % (NMAXW, I, xbuf("result"))),
   R("count > 0 ? count == (long)vf_n : vf_n == 0"),
   E("vf_sel ==> (%s)" % xat("RET", "OLD(result.base)", "vf_n")),
   E("%s ==> OLD(result.base)[vf_k] == OLD(first.base)[vf_k]" % K),
   ("KNOWN", "C06_copy_n_return :: count > 0 && vf_sel"),
   A(xupto("result.base"))],
   [[A("i, first.i, result.i, " + xupto("result.base")),
     INV("1 <= i && i <= count && first.i == i - 1 && result.i == i - 1"),
     INV("(%s && (long)vf_k < i) ==> result.base[vf_k] == first.base[vf_k]" % K),
     DEC("count - i")]])

# fill / fill_n
fn("etl::fill<vf::idx<int>, int>", "etl_fill", [R("FRESH(value, sizeof(int))"), R(xrng()),
   E("%s ==> OLD(first.base)[vf_k] == *value" % K),
   A(xupto("first.base"))],
   [[A("first.i, " + xupto("first.base")), INV("0 <= first.i && first.i <= last.i"),
     INV("%s ==> first.base[vf_k] == *value" % XK_B), XDEC]])
fn("etl::fill_n<vf::idx<int>, long, int>", "etl_fill_n", [R("FRESH(value, sizeof(int))"),
   R("vf_k <= vf_n && vf_n <= %s && FRESH(first.base, vf_n * %s) && first.i == 0" % (NMAXW, I)),
   R("count > 0 ? count == (long)vf_n : vf_n == 0"),
   E(xat("RET", "OLD(first.base)", "vf_n")),
   E("%s ==> OLD(first.base)[vf_k] == *value" % K),
   A(xupto("first.base"))],
   [[A("i, first.i, " + xupto("first.base")), INV("0 <= i && i <= (long)vf_n && first.i == i"),
     INV("%s ==> first.base[vf_k] == *value" % XK_B), DEC("count - i")]])

# generate / generate_n with the counting generator gen1 {next}: element k == start + k (mod 2^32)
fn("etl::generate<vf::idx<unsigned int>, vf::gen1>", "etl_generate", [R(xrng()),
   E("%s ==> OLD(first.base)[vf_k] == OLD(g.next) + (unsigned)vf_k" % K),
   A(xupto("first.base"))],
   [[A("first.i, g.next, " + xupto("first.base")), INV("0 <= first.i && first.i <= last.i && g.next == ENTRY(g.next) + (unsigned)first.i"),
     INV("%s ==> first.base[vf_k] == ENTRY(g.next) + (unsigned)vf_k" % XK_B), XDEC]])
fn("etl::generate_n<vf::idx<unsigned int>, long, vf::gen1>", "etl_generate_n", [
   R("vf_k <= vf_n && vf_n <= %s && FRESH(first.base, vf_n * %s) && first.i == 0" % (NMAXW, I)),
   R("count > 0 ? count == (long)vf_n : vf_n == 0"),
   E(xat("RET", "OLD(first.base)", "vf_n")),
   E("%s ==> OLD(first.base)[vf_k] == OLD(g.next) + (unsigned)vf_k" % K),
   A(xupto("first.base"))],
   [[A("first.i, count, g.next, " + xupto("first.base")),
     INV("0 <= first.i && first.i <= (long)vf_n && count <= (long)vf_n && first.i + (count > 0 ? count : 0) == (long)vf_n && g.next == ENTRY(g.next) + (unsigned)first.i"),
     INV("%s ==> first.base[vf_k] == ENTRY(g.next) + (unsigned)vf_k" % XK_B), DEC("count")]])

# transform (unary): the result may be equal to first ([alg.transform]); (binary): may be equal to first1 or first2
fn("etl::transform<vf::idx<int>, vf::idx<int>, vf::op1>", "etl_transform1", [R(xrng()),
   R("vf_ov ? (__CPROVER_pointer_equals(dest.base, first.base) && dest.i == 0) : (%s)" % xbuf("dest")),
   E(xat("RET", "OLD(dest.base)", "vf_n")),
   E("%s ==> OLD(dest.base)[vf_k] == %s" % (K, OP1("OLD(first.base[vf_k])"))),
   A(xupto("dest.base"))],
   [[A("first.i, dest.i, " + xupto("dest.base")), INV("0 <= first.i && first.i <= last.i && dest.i == first.i"),
     INV("%s ==> dest.base[vf_k] == %s" % (XK_B, OP1("ENTRY(first.base[vf_k])"))),
     INV("%s ==> first.base[vf_k] == ENTRY(first.base[vf_k])" % XK_A), XDEC]])
XK1_B = "(vf_k < vf_n && (long)vf_k < first1.i)"
XK1_A = "(vf_k < vf_n && (long)vf_k >= first1.i)"
fn("etl::transform<vf::idx<int>, vf::idx<int>, vf::idx<int>, vf::op2>", "etl_transform2", [R(xrng("first1", "last1")), R(xbuf("first2")),
   R("vf_ov == 1 ? (__CPROVER_pointer_equals(dest.base, first1.base) && dest.i == 0) : vf_ov == 2 ? (__CPROVER_pointer_equals(dest.base, first2.base) && dest.i == 0) : (%s)" % xbuf("dest")),
   E(xat("RET", "OLD(dest.base)", "vf_n")),
   E("%s ==> OLD(dest.base)[vf_k] == %s" % (K, OP2("OLD(first1.base[vf_k])", "OLD(first2.base[vf_k])"))),
   A(xupto("dest.base"))],
   [[A("first1.i, first2.i, dest.i, " + xupto("dest.base")), INV("0 <= first1.i && first1.i <= last1.i && dest.i == first1.i && first2.i == first1.i"),
     INV("%s ==> dest.base[vf_k] == %s" % (XK1_B, OP2("ENTRY(first1.base[vf_k])", "ENTRY(first2.base[vf_k])"))),
     INV("%s ==> (first1.base[vf_k] == ENTRY(first1.base[vf_k]) && first2.base[vf_k] == ENTRY(first2.base[vf_k]))" % XK1_A),
     DEC("last1.i - first1.i")]])

# replace_if / replace (replace forwards to replace_if<lambda>: its loop carries the contract, the call is inlined)
fn("etl::replace_if<vf::idx<int>, vf::pred3, int>", "etl_replace_if", [R("FRESH(newValue, sizeof(int))"), R(xrng()),
   E("%s ==> OLD(first.base)[vf_k] == (%s ? *newValue : OLD(first.base[vf_k]))" % (K, P3("OLD(first.base[vf_k])"))),
   A(xupto("first.base"))],
   [[A("first.i, " + xupto("first.base")), INV("0 <= first.i && first.i <= last.i"),
     INV("%s ==> first.base[vf_k] == (%s ? *newValue : ENTRY(first.base[vf_k]))" % (XK_B, P3("ENTRY(first.base[vf_k])"))),
     INV("%s ==> first.base[vf_k] == ENTRY(first.base[vf_k])" % XK_A), XDEC]])
fn("etl::replace<vf::idx<int>, int>", "etl_replace", [R("FRESH(oldValue, sizeof(int)) && FRESH(newValue, sizeof(int))"), R(xrng()),
   E("%s ==> OLD(first.base)[vf_k] == (OLD(first.base[vf_k]) == *oldValue ? *newValue : OLD(first.base[vf_k]))" % K),
   A(xupto("first.base"))])
fn("_ZN3etl10replace_ifIN2vf3idxIiEEZNS_7replaceIS3_iEEvT_S5_RKT0_S8_EUlRKS5_E_iEEvS5_S5_S6_RKT1_", "etl_replace_if_lambda", [],
   [[A("first.i, " + xupto("first.base")), INV("0 <= first.i && first.i <= last.i"),
     INV("%s ==> first.base[vf_k] == (ENTRY(first.base[vf_k]) == *p.cap0 ? *newValue : ENTRY(first.base[vf_k]))" % XK_B),
     INV("%s ==> first.base[vf_k] == ENTRY(first.base[vf_k])" % XK_A), XDEC]])

# swap_ranges: the two ranges do not overlap
fn("etl::swap_ranges<vf::idx<int>, vf::idx<int>>", "etl_swap_ranges", [R(xrng("first1", "last1")), R(xbuf("first2")),
   E(xat("RET", "OLD(first2.base)", "vf_n")),
   E("%s ==> (OLD(first1.base)[vf_k] == OLD(first2.base[vf_k]) && OLD(first2.base)[vf_k] == OLD(first1.base[vf_k]))" % K),
   A(xupto("first1.base") + ", " + xupto("first2.base"))],
   [[A("first1.i, first2.i, %s, %s" % (xupto("first1.base"), xupto("first2.base"))),
     INV("0 <= first1.i && first1.i <= last1.i && first2.i == first1.i"),
     INV("%s ==> (first1.base[vf_k] == ENTRY(first2.base[vf_k]) && first2.base[vf_k] == ENTRY(first1.base[vf_k]))" % XK1_B),
     INV("%s ==> (first1.base[vf_k] == ENTRY(first1.base[vf_k]) && first2.base[vf_k] == ENTRY(first2.base[vf_k]))" % XK1_A),
     DEC("last1.i - first1.i")]])

# reverse: element k becomes old element n-1-k; ghost vf_j == vf_n-1-vf_k is the mirror index
MIR = "(vf_k < vf_n ==> vf_j == vf_n - 1 - vf_k) && vf_j <= vf_n"
fn("etl::reverse<vf::idx<int>>", "etl_reverse", [R(xrng()), R(MIR),
   E("%s ==> OLD(first.base)[vf_k] == OLD(first.base[vf_j])" % K),
   A(xupto("first.base"))],
   [[A("first.i, last.i, " + xupto("first.base")),
     INV("0 <= first.i && first.i <= (long)vf_n && -1 <= last.i && last.i <= (long)vf_n && first.i <= last.i + 1 && first.i + last.i == (long)vf_n - 1"),
     INV("(%s && ((long)vf_k < first.i || (long)vf_k > last.i)) ==> first.base[vf_k] == ENTRY(first.base[vf_j])" % K),
     INV("(%s && (long)vf_k >= first.i && (long)vf_k <= last.i) ==> (first.base[vf_k] == ENTRY(first.base[vf_k]) && first.base[vf_j] == ENTRY(first.base[vf_j]))" % K),
     DEC("last.i - first.i + 1")]])
fn("etl::reverse_copy<vf::idx<int>, vf::idx<int>>", "etl_reverse_copy", [R(xrng()), R(MIR), R(xbuf("destination")),
   E(xat("RET", "OLD(destination.base)", "vf_n")),
   E("%s ==> OLD(destination.base)[vf_k] == OLD(first.base)[vf_j]" % K),
   A(xupto("destination.base"))],
   [[A("last.i, destination.i, " + xupto("destination.base")),
     INV("0 <= last.i && last.i <= (long)vf_n && first.i == 0 && destination.i == (long)vf_n - last.i"),
     INV("(%s && (long)vf_k < destination.i) ==> destination.base[vf_k] == first.base[vf_j]" % K),
     DEC("last.i")]])

# iota: element k == value + k (mod 2^32)
fn("etl::iota<vf::idx<unsigned int>, unsigned int>", "etl_iota", [R(xrng()),
   E("%s ==> OLD(first.base)[vf_k] == OLD(value) + (unsigned)vf_k" % K),
   A(xupto("first.base"))],
   [[A("first.i, value, " + xupto("first.base")), INV("0 <= first.i && first.i <= last.i && value == ENTRY(value) + (unsigned)first.i"),
     INV("%s ==> first.base[vf_k] == ENTRY(value) + (unsigned)vf_k" % XK_B), XDEC]])

# ---------------------------------------------------------------------------------------------------------------------
# compacting algorithms (copy_if, remove*, unique*).  The position of a kept element in the output is the NUMBER of kept elements
# before it, which a quantifier-free contract cannot name; the contracts state what a ghost index can express (range of the
# result, every output element is a kept one, some kept / some dropped element moves the result, frame, termination) and the
# bounded stand-ins state the full postcondition (order and exact positions).
XJ = "vf_j <= vf_n"


def compact_clauses(keep, out, src="first.base"):
    """ensures of a compaction of src[0..n) into out[0..RET.i): keep(e) says whether e is kept"""
    return [E("RET.base == OLD(%s) && 0 <= RET.i && RET.i <= (long)vf_n" % out),
            E("(long)vf_j < RET.i ==> %s" % keep("OLD(%s)[vf_j]" % out)),
            E("(%s && %s) ==> RET.i >= 1" % (K, keep("OLD(%s[vf_k])" % src))),
            E("(%s && !%s) ==> RET.i <= (long)vf_n - 1" % (K, keep("OLD(%s[vf_k])" % src)))]


fn("etl::copy_if<vf::idx<int>, vf::idx<int>, vf::pred3>", "etl_copy_if", [R(xrng()), R(XJ), R(xbuf("dFirst"))] +
   compact_clauses(P3, "dFirst.base") + [A(xupto("dFirst.base"))],
   [[A("first.i, dFirst.i, tmp0, " + xupto("dFirst.base")),
     INV("0 <= first.i && first.i <= last.i && 0 <= dFirst.i && dFirst.i <= first.i"),
     INV("(long)vf_j < dFirst.i ==> %s" % P3("dFirst.base[vf_j]")),
     INV("(%s && %s) ==> dFirst.i >= 1" % (XK_B, P3("first.base[vf_k]"))),
     INV("(%s && !%s) ==> dFirst.i <= first.i - 1" % (XK_B, P3("first.base[vf_k]"))),
     XDEC]])


def xfinder(name, alias, hit, peq=False):
    """find_if over the index iterator (called by remove_if); facts for both ghost indices
    (peq: state RET.base with __CPROVER_pointer_equals, needed where the contract REPLACES a call and the caller dereferences the result)"""
    fn(name, alias, [R(xrng()), R(XJ),
       E(("__CPROVER_pointer_equals(RET.base, OLD(first.base))" if peq else "RET.base == OLD(first.base)") + " && 0 <= RET.i && RET.i <= (long)vf_n"),
       E("RET.i == (long)vf_n || %s" % hit("RET.base[RET.i]")),
       E("(%s && (long)vf_k < RET.i) ==> !%s" % (K, hit("OLD(first.base)[vf_k]"))),
       E("(vf_j < vf_n && (long)vf_j < RET.i) ==> !%s" % hit("OLD(first.base)[vf_j]")),
       A()],
       [[A("first.i"), INV("0 <= first.i && first.i <= last.i"),
         INV("%s ==> !%s" % (XK_B, hit("first.base[vf_k]"))),
         INV("(vf_j < vf_n && (long)vf_j < first.i) ==> !%s" % hit("first.base[vf_j]")), XDEC]])


def xremove_if(name, alias, hit, contract=True, extra_req=()):
    cl = []
    if contract:
        cl = [R(x) for x in extra_req] + [R(xrng()), R(XJ)] + compact_clauses(lambda e: "(!%s)" % hit(e), "first.base") + [A(xupto("first.base"))]
    fn(name, alias, cl,
       [[A("first.i, i.i, tmp1, " + xupto("first.base")),
         INV("0 <= first.i && first.i <= i.i && i.i < last.i && last.i == (long)vf_n"),
         INV("(long)vf_j < first.i ==> !%s" % hit("first.base[vf_j]")),
         INV("(%s && (long)vf_k <= i.i && %s) ==> first.i <= i.i" % (K, hit("ENTRY(first.base[vf_k])"))),
         INV("(%s && (long)vf_k <= i.i && !%s) ==> first.i >= 1" % (K, hit("ENTRY(first.base[vf_k])"))),
         INV("(%s && (long)vf_k > i.i) ==> first.base[vf_k] == ENTRY(first.base[vf_k])" % K),
         DEC("last.i - i.i")]])


xfinder("etl::find_if<vf::idx<int>, vf::pred3>", "etl_find_if_x", P3)
xremove_if("etl::remove_if<vf::idx<int>, vf::pred3>", "etl_remove_if", P3)
# remove(first, last, value) forwards to remove_if<lambda [&value]> which calls find_if<lambda>: loop contracts on both, calls inlined
EQV = lambda e: "(%s == *pred.cap0)" % e
fn("etl::remove<vf::idx<int>, int>", "etl_remove", [R("FRESH(value, sizeof(int))"), R(xrng()), R(XJ)] +
   compact_clauses(lambda e: "(!(%s == *value))" % e, "first.base") + [A(xupto("first.base"))])
xremove_if("_ZN3etl9remove_ifIN2vf3idxIiEEZNS_6removeIS3_iEET_S5_S5_RKT0_EUlRKS5_E_EES5_S5_S5_S6_", "etl_remove_if_lambda", EQV, contract=False)
fn("_ZN3etl7find_ifIN2vf3idxIiEEZNS_6removeIS3_iEET_S5_S5_RKT0_EUlRKS5_E_EES5_S5_S5_S6_", "etl_find_if_lambda", [],
   [[A("first.i"), INV("0 <= first.i && first.i <= last.i"),
     INV("%s ==> !%s" % (XK_B, EQV("first.base[vf_k]"))),
     INV("(vf_j < vf_n && (long)vf_j < first.i) ==> !%s" % EQV("first.base[vf_j]")), XDEC]])

# remove_copy_if / remove_copy: [alg.remove] copies the elements NOT satisfying the predicate to consecutive positions
# Known finding C06_remove_copy_if_holes (the destination advances for every element).  The defect shows for every input with a removed
# element; "no element is removed" is a universally quantified hypothesis that a ghost index cannot supply, and the loop invariant of the
# correct algorithm (destination.i <= first.i) is not inductive on the defective loop, so the witness class of the CONTRACT is every
# non-empty range (the bounded stand-ins carry the precise class: some element is removed).
RCW = "vf_n > 0"
fn("etl::remove_copy_if<vf::idx<int>, vf::idx<int>, vf::pred3>", "etl_remove_copy_if", [R(xrng()), R(XJ), R(xbuf("destination"))] +
   compact_clauses(lambda e: "(!%s)" % P3(e), "destination.base") +
   [("KNOWN", "C06_remove_copy_if_holes :: " + RCW), A(xupto("destination.base"))],
   [[A("first.i, destination.i, " + xupto("destination.base")),
     INV("0 <= first.i && first.i <= last.i && 0 <= destination.i && destination.i <= first.i"),
     INV("(long)vf_j < destination.i ==> !%s" % P3("destination.base[vf_j]")),
     INV("(%s && !%s) ==> destination.i >= 1" % (XK_B, P3("first.base[vf_k]"))),
     INV("(%s && %s) ==> destination.i <= first.i - 1" % (XK_B, P3("first.base[vf_k]"))),
     XDEC]])
fn("etl::remove_copy<vf::idx<int>, vf::idx<int>, int>", "etl_remove_copy", [R("FRESH(value, sizeof(int))"), R(xrng()), R(XJ), R(xbuf("destination"))] +
   compact_clauses(lambda e: "(!(%s == *value))" % e, "destination.base") +
   [("KNOWN", "C06_remove_copy_if_holes :: " + RCW), A(xupto("destination.base"))])
EQP = lambda e: "(%s == *p.cap0)" % e
fn("_ZN3etl14remove_copy_ifIN2vf3idxIiEES3_ZNS_11remove_copyIS3_S3_iEET0_T_S6_S5_RKT1_EUlRKS6_E_EES5_S6_S6_S5_S7_", "etl_remove_copy_if_lambda", [],
   [[A("first.i, destination.i, " + xupto("destination.base")),
     INV("0 <= first.i && first.i <= last.i && 0 <= destination.i && destination.i <= first.i"),
     INV("(long)vf_j < destination.i ==> !%s" % EQP("destination.base[vf_j]")),
     INV("(%s && !%s) ==> destination.i >= 1" % (XK_B, EQP("first.base[vf_k]"))),
     INV("(%s && %s) ==> destination.i <= first.i - 1" % (XK_B, EQP("first.base[vf_k]"))),
     XDEC]])

# unique / unique_copy (etl::equal_to): no two adjacent elements of the result are equal; the first element stays, the last kept
# element equals the last element of the input
fn("etl::unique<vf::idx<int>>", "etl_unique", [R(xrng()), R(XJ),
   E("RET.base == OLD(first.base) && (vf_n == 0 ? RET.i == 0 : (1 <= RET.i && RET.i <= (long)vf_n))"),
   E("(long)vf_j + 1 < RET.i ==> OLD(first.base)[vf_j] != OLD(first.base)[vf_j + 1]"),
   E("(%s && vf_k == 0) ==> OLD(first.base)[0] == OLD(first.base[vf_k])" % K),
   E("(%s && vf_k == vf_n - 1) ==> OLD(first.base)[RET.i - 1] == OLD(first.base[vf_k])" % K),
   E("(%s && vf_j == vf_k + 1 && vf_j < vf_n && OLD(first.base[vf_k]) == OLD(first.base[vf_j])) ==> RET.i <= (long)vf_n - 1" % K),
   A(xupto("first.base"))])
fn("etl::unique<vf::idx<int>, etl::equal_to<>>", "etl_unique_pred", [],
   [[A("first.i, result.i, " + xupto("first.base")),
     INV("0 <= result.i && result.i <= first.i && first.i < last.i && last.i == (long)vf_n"),
     INV("(long)vf_j + 1 <= result.i ==> first.base[vf_j] != first.base[vf_j + 1]"),
     INV("first.base[result.i] == first.base[first.i]"),
     INV("(%s && ((long)vf_k >= first.i || vf_k == 0)) ==> first.base[vf_k] == ENTRY(first.base[vf_k])" % K),
     INV("(vf_j < vf_n && (long)vf_j >= first.i) ==> first.base[vf_j] == ENTRY(first.base[vf_j])"),
     INV("(%s && vf_j == vf_k + 1 && (long)vf_j <= first.i && ENTRY(first.base[vf_k]) == ENTRY(first.base[vf_j])) ==> result.i <= first.i - 1" % K),
     DEC("last.i - first.i")]])
fn("etl::unique_copy<vf::idx<int>, vf::idx<int>>", "etl_unique_copy", [R(xrng()), R(XJ), R(xbuf("destination")),
   E("RET.base == OLD(destination.base) && (vf_n == 0 ? RET.i == 0 : (1 <= RET.i && RET.i <= (long)vf_n))"),
   E("(long)vf_j + 1 < RET.i ==> OLD(destination.base)[vf_j] != OLD(destination.base)[vf_j + 1]"),
   E("vf_n > 0 ==> (OLD(destination.base)[0] == OLD(first.base)[0] && OLD(destination.base)[RET.i - 1] == OLD(first.base)[vf_n - 1])"),
   E("(%s && vf_j == vf_k + 1 && vf_j < vf_n && OLD(first.base)[vf_k] == OLD(first.base)[vf_j]) ==> RET.i <= (long)vf_n - 1" % K),
   A(xupto("destination.base"))])
fn("etl::unique_copy<vf::idx<int>, vf::idx<int>, etl::equal_to<>>", "etl_unique_copy_pred", [],
   [[A("first.i, destination.i, " + xupto("destination.base")),
     INV("0 <= destination.i && destination.i <= first.i && first.i < last.i && last.i == (long)vf_n"),
     INV("(long)vf_j + 1 <= destination.i ==> destination.base[vf_j] != destination.base[vf_j + 1]"),
     INV("destination.base[destination.i] == first.base[first.i] && destination.base[0] == first.base[0]"),
     INV("(%s && vf_j == vf_k + 1 && (long)vf_j <= first.i && first.base[vf_k] == first.base[vf_j]) ==> destination.i <= first.i - 1" % K),
     DEC("last.i - first.i")]])

# partial_sum (etl::plus) / adjacent_difference (etl::minus) over unsigned: d[0] == a[0], d[k] == d[k-1] + a[k] resp. d[k] == a[k] - a[k-1];
# ghost vf_j == vf_k - 1.  The contracts take separate buffers (result == first, which the standard permits, made the SAT problem
# run out of memory; the bounded stand-ins cover it)
PRV = "(vf_k >= 1 ==> vf_j == vf_k - 1) && vf_j <= vf_n"
INPL = "vf_ov ? (__CPROVER_pointer_equals(destination.base, first.base) && destination.i == 0) : (%s)" % xbuf("destination")
fn("etl::partial_sum<vf::idx<unsigned int>, vf::idx<unsigned int>>", "etl_partial_sum", [R(xrng()), R(PRV), R(xbuf("destination")),
   E(xat("RET", "OLD(destination.base)", "vf_n")),
   E("(%s && vf_k == 0) ==> OLD(destination.base)[0] == OLD(first.base[vf_k])" % K),
   E("(%s && vf_k >= 1) ==> OLD(destination.base)[vf_k] == OLD(destination.base)[vf_j] + OLD(first.base[vf_k])" % K),
   A(xupto("destination.base"))])
fn("etl::partial_sum<vf::idx<unsigned int>, vf::idx<unsigned int>, etl::plus<>>", "etl_partial_sum_op", [],
   [[A("first.i, destination.i, sum, " + xupto("destination.base")),
     INV("0 <= first.i && first.i < last.i && last.i == (long)vf_n && destination.i == first.i && sum == destination.base[first.i]"),
     INV("(%s && vf_k == 0) ==> destination.base[0] == ENTRY(first.base[vf_k])" % K),
     INV("(%s && vf_k >= 1 && (long)vf_k <= first.i) ==> destination.base[vf_k] == destination.base[vf_j] + ENTRY(first.base[vf_k])" % K),
     INV("(%s && (long)vf_k > first.i) ==> first.base[vf_k] == ENTRY(first.base[vf_k])" % K),
     DEC("last.i - first.i")]])
fn("etl::adjacent_difference<vf::idx<unsigned int>, vf::idx<unsigned int>>", "etl_adjacent_difference", [R(xrng()), R(PRV), R(xbuf("destination")),
   E(xat("RET", "OLD(destination.base)", "vf_n")),
   E("(%s && vf_k == 0) ==> OLD(destination.base)[0] == OLD(first.base[vf_k])" % K),
   E("(%s && vf_k >= 1) ==> OLD(destination.base)[vf_k] == OLD(first.base[vf_k]) - OLD(first.base[vf_j])" % K),
   A(xupto("destination.base"))])
fn("etl::adjacent_difference<vf::idx<unsigned int>, vf::idx<unsigned int>, etl::minus<unsigned int>>", "etl_adjacent_difference_op", [],
   [[A("first.i, destination.i, acc, " + xupto("destination.base")),
     INV("0 <= first.i && first.i < last.i && last.i == (long)vf_n && destination.i == first.i"),
     INV("((long)vf_k == first.i ==> acc == ENTRY(first.base[vf_k])) && ((long)vf_j == first.i ==> acc == ENTRY(first.base[vf_j]))"),
     INV("(%s && vf_k == 0) ==> destination.base[0] == ENTRY(first.base[vf_k])" % K),
     INV("(%s && vf_k >= 1 && (long)vf_k <= first.i) ==> destination.base[vf_k] == ENTRY(first.base[vf_k]) - ENTRY(first.base[vf_j])" % K),
     INV("(%s && (long)vf_k > first.i) ==> first.base[vf_k] == ENTRY(first.base[vf_k])" % K),
     DEC("last.i - first.i")]])

# ---------------------------------------------------------------------------------------------------------------------
# non-modifying algorithms with two ranges / two moving pointers (pointer iterators).  A defaulted overload (no comparator) forwards
# to the comparator overload instantiated with etl::equal_to<> / etl::less<>: the function contract sits on the overload the user calls,
# the loop contract on the forwarded-to instantiation, whose call is inlined.
BASE = "(last - vf_n)"                        # loop: the start of the range once `first` has moved (last never moves)
BOFF = "(OFF(last) - vf_n * %s)" % I


def pin(p, lo, hi):
    """loop: pointer p lies in the range of `last`'s array, element aligned, lo <= OFF(p) <= hi"""
    return "SAME(%s, last) && (OFF(last) - OFF(%s)) %% %s == 0 && %s <= OFF(%s) && OFF(%s) <= %s" % (p, p, I, lo, p, p, hi)


# mismatch (3 iterators): first position where the ranges differ
fn("etl::mismatch<int *, int *>", "etl_mismatch3", [R(rng("first1", "last1")), R(buf("first2")),
   E(inr("RET.first", "OLD(first1)")),
   E("SAME(RET.second, OLD(first2)) && OFF(RET.second) - OFF(OLD(first2)) == OFF(RET.first) - OFF(OLD(first1))"),
   E("RET.first == OLD(last1) || *RET.first != *RET.second"),
   E("(%s && %s) ==> OLD(first1)[vf_k] == OLD(first2)[vf_k]" % (K, before("vf_k", "RET.first", "OLD(first1)"))),
   A()], sig="(int *, int *, int *)")
fn("etl::mismatch<int *, int *, etl::equal_to<>>", "etl_mismatch3_pred", [],
   [[A("first1, first2"), INV(linv("first1", "last1")), INV(lock("first2", "first1")),
     INV("(%s && ENTRY(first1) + vf_k < first1) ==> ENTRY(first1)[vf_k] == ENTRY(first2)[vf_k]" % K),
     DEC("OFF(last1) - OFF(first1)")]], sig="(int *, int *, int *, etl::equal_to<>)")
# mismatch (4 iterators): stops at the shorter range
MINNM = "(vf_n < vf_m ? vf_n : vf_m)"
fn("etl::mismatch<int *, int *>", "etl_mismatch4", [R(rng("first1", "last1")), R(rng("first2", "last2", "vf_m")),
   E(inr("RET.first", "OLD(first1)", MINNM)),
   E("SAME(RET.second, OLD(first2)) && OFF(RET.second) - OFF(OLD(first2)) == OFF(RET.first) - OFF(OLD(first1))"),
   E("RET.first == OLD(last1) || RET.second == OLD(last2) || *RET.first != *RET.second"),
   E("(vf_k < %s && %s) ==> OLD(first1)[vf_k] == OLD(first2)[vf_k]" % (MINNM, before("vf_k", "RET.first", "OLD(first1)"))),
   A()], sig="(int *, int *, int *, int *)")
fn("etl::mismatch<int *, int *, etl::equal_to<>>", "etl_mismatch4_pred", [],
   [[A("first1, first2"), INV(linv("first1", "last1")), INV(linv("first2", "last2")), INV(lock("first2", "first1")),
     INV("(vf_k < %s && ENTRY(first1) + vf_k < first1) ==> ENTRY(first1)[vf_k] == ENTRY(first2)[vf_k]" % MINNM),
     DEC("OFF(last1) - OFF(first1)")]], sig="(int *, int *, int *, int *, etl::equal_to<>)")

# equal: true => all corresponding elements are equal (the converse needs a witness; bounded stand-in); different lengths => false
fn("etl::equal<int *, int *>", "etl_equal3", [R(rng("first1", "last1")), R(buf("first2")),
   E("(RET && %s) ==> OLD(first1)[vf_k] == OLD(first2)[vf_k]" % K),
   E("vf_n == 0 ==> RET"),
   E("(%s && vf_k == 0 && OLD(first1)[0] != OLD(first2)[0]) ==> !RET" % K),
   A()], sig="(int *, int *, int *)")
EQLOOP = [[A("first1, first2"), INV(linv("first1", "last1")), INV(lock("first2", "first1")),
     INV("(%s && ENTRY(first1) + vf_k < first1) ==> ENTRY(first1)[vf_k] == ENTRY(first2)[vf_k]" % K),
     DEC("OFF(last1) - OFF(first1)")]]
fn("etl::equal<int *, int *, etl::equal_to<>>", "etl_equal3_pred", [], EQLOOP, sig="(int *, int *, int *, etl::equal_to<>)")
fn("etl::equal<int *, int *>", "etl_equal4", [R(rng("first1", "last1")), R(rng("first2", "last2", "vf_m")),
   E("vf_n != vf_m ==> !RET"),
   E("(RET && %s) ==> OLD(first1)[vf_k] == OLD(first2)[vf_k]" % K),
   E("(vf_n == 0 && vf_m == 0) ==> RET"),
   A()], sig="(int *, int *, int *, int *)")

# adjacent_find (etl::equal_to): first position i with a[i] == a[i+1], or last
fn("etl::adjacent_find<int *>", "etl_adjacent_find", [R(rng()),
   E(inr("RET", OF)),
   E("RET == OLD(last) || (OFF(RET) + %s < OFF(OLD(last)) && RET[0] == RET[1])" % I),
   E("(vf_k + 1 < vf_n && %s) ==> OLD(first)[vf_k] != OLD(first)[vf_k + 1]" % before("vf_k", "RET", OF)),
   A()])
fn("etl::adjacent_find<int *, etl::equal_to<>>", "etl_adjacent_find_pred", [],
   [[A("first, next"), INV(pin("first", BOFF, "OFF(last) - %s" % I)), INV("SAME(next, first) && OFF(next) == OFF(first) + %s" % I),
     INV("(vf_k + 1 < vf_n && %s + vf_k < first) ==> %s[vf_k] != %s[vf_k + 1]" % (BASE, BASE, BASE)),
     DEC("OFF(last) - OFF(next)")]])

# lexicographical_compare (etl::less): the first differing position decides, a proper prefix is smaller.  "All earlier positions are
# equal" is a universally quantified hypothesis, which a ghost index cannot supply: the contract states the decidable cases
# (an empty range; the first elements differ) and safety/termination; the bounded stand-in states the full result.
fn("etl::lexicographical_compare<int *, int *>", "etl_lexcmp", [R(rng("f1", "l1")), R(rng("f2", "l2", "vf_m")),
   E("vf_m == 0 ==> !RET"), E("(vf_n == 0 && vf_m > 0) ==> RET"),
   E("(vf_n > 0 && vf_m > 0 && OLD(f1)[0] < OLD(f2)[0]) ==> RET"),
   E("(vf_n > 0 && vf_m > 0 && OLD(f2)[0] < OLD(f1)[0]) ==> !RET"),
   A()])
fn("etl::lexicographical_compare<int *, int *, etl::less<>>", "etl_lexcmp_pred", [],
   [[A("f1, f2"), INV(linv("f1", "l1")), INV(linv("f2", "l2")), INV(lock("f2", "f1")),
     INV("f1 != ENTRY(f1) ==> ENTRY(f1)[0] == ENTRY(f2)[0]"),
     DEC("OFF(l1) - OFF(f1)")]])


# ---------------------------------------------------------------------------------------------------------------------
# algorithms that ASSIGN WHOLE ITERATORS inside their loop (smallest = first; first = ++it): instantiated with vf::gix<int, 0> {long i;}
# whose base pointer is the harness global vf_gb0 (returned by the ghost hook vf::g_base0()): assigning the iterator copies only the
# index.  (With idx<int> the loop would have to assign -- hence havoc -- smallest.base; with raw pointers min_element did not finish.)
G = "vf_gb0"


def grng(f="first", l="last"):
    return "vf_k <= vf_n && vf_j <= vf_n && vf_n <= %s && FRESH(%s, vf_n * %s) && %s.i == 0 && %s.i == (long)vf_n" % (NMAX, G, I, f, l)


GK_B = "(vf_k < vf_n && (long)vf_k < first.i)"
# min_element / max_element: the FIRST smallest / largest element w.r.t. comp (less: lt(a,b) = a < b; greater: a > b); last if empty
def extremum(name_outer, name_inner, alias, var, lt, is_min):
    # min: comp(*first, *smallest) replaces;  max: comp(*largest, *first) replaces
    notbetter = (lambda e, m: "!%s" % lt(e, m)) if is_min else (lambda e, m: "!%s" % lt(m, e))     # e does not beat m
    worse = (lambda e, m: lt(m, e)) if is_min else (lambda e, m: lt(e, m))                          # m beats e strictly
    cl = [R(grng()),
          E("0 <= RET.i && (vf_n == 0 ? RET.i == 0 : RET.i < (long)vf_n)"),
          E("%s ==> %s" % (K, notbetter(G + "[vf_k]", G + "[RET.i]"))),
          E("(%s && (long)vf_k < RET.i) ==> %s" % (K, worse(G + "[vf_k]", G + "[RET.i]"))),
          A()]
    loop = [[A("first.i, %s.i" % var), INV("1 <= first.i && first.i <= last.i && last.i == (long)vf_n && 0 <= %s.i && %s.i < first.i" % (var, var)),
             INV("%s ==> %s" % (GK_B, notbetter(G + "[vf_k]", G + "[%s.i]" % var))),
             INV("(%s && (long)vf_k < %s.i) ==> %s" % (K, var, worse(G + "[vf_k]", G + "[%s.i]" % var))),
             XDEC]]
    if name_inner:
        fn(name_outer, alias, cl)
        fn(name_inner, alias + "_pred", [], loop)
    else:
        fn(name_outer, alias, cl, loop)


LT = lambda a, b: "(%s < %s)" % (a, b)
GT = lambda a, b: "(%s > %s)" % (a, b)
extremum("etl::min_element<vf::gix<int, 0>>", "etl::min_element<vf::gix<int, 0>, etl::less<>>", "etl_min_element", "smallest", LT, True)
extremum("etl::max_element<vf::gix<int, 0>>", "etl::max_element<vf::gix<int, 0>, etl::less<>>", "etl_max_element", "largest", LT, False)
extremum("etl::max_element<vf::gix<int, 0>, etl::greater<>>", None, "etl_max_element_gt", "largest", GT, False)


# minmax_element: {first smallest, LAST largest} ([alg.min.max]); {first, first} for an empty range
def mm(lo, hi, upto_):
    """lo / hi are index expressions, upto_ the index of the last element looked at"""
    return ["(%s && (long)vf_k <= %s) ==> (!(%s[vf_k] < %s[%s]) && !(%s[%s] < %s[vf_k]))" % (K, upto_, G, G, lo, G, hi, G),
            "(%s && (long)vf_k < %s) ==> %s[%s] < %s[vf_k]" % (K, lo, G, lo, G),
            "(%s && (long)vf_k > %s && (long)vf_k <= %s) ==> %s[vf_k] < %s[%s]" % (K, hi, upto_, G, G, hi)]


fn("etl::minmax_element<vf::gix<int, 0>>", "etl_minmax_element", [R(grng()),
   E("vf_n == 0 ? (RET.first.i == 0 && RET.second.i == 0) : (0 <= RET.first.i && RET.first.i < (long)vf_n && 0 <= RET.second.i && RET.second.i < (long)vf_n)")] +
   [E("vf_n > 0 ==> (%s)" % c) for c in mm("RET.first.i", "RET.second.i", "(long)vf_n - 1")] + [A()])
fn("etl::minmax_element<vf::gix<int, 0>, etl::less<>>", "etl_minmax_element_pred", [],
   [[A("first.i, min.i, max.i")] +
    [INV("1 <= first.i && first.i < last.i && last.i == (long)vf_n && 0 <= min.i && min.i <= first.i && 0 <= max.i && max.i <= first.i && !(%s[max.i] < %s[min.i]) && (%s)" % (G, G, c)) for c in mm("min.i", "max.i", "first.i")] +
    [XDEC]])

# is_sorted_until / is_sorted: first position i with comp(a[i], a[i-1]), or last; adjacent pairs before it are in order
def sorted_until(name_outer, name_inner, alias, lt):
    cl = [R(rng()),
          E(inr("RET", OF)), E("vf_n > 0 ==> RET != OLD(first)"),
          E("RET == OLD(last) || %s" % lt("RET[0]", "RET[-1]")),
          E("(vf_k + 1 < vf_n && OFF(OLD(first)) + (vf_k + 1) * %s < OFF(RET)) ==> !%s" % (I, lt("OLD(first)[vf_k + 1]", "OLD(first)[vf_k]"))),
          A()]
    loop = [[A("first, next"), INV(pin("first", BOFF, "OFF(last) - %s" % I)), INV("next == first"),
             INV("(vf_k + 1 < vf_n && %s + (vf_k + 1) <= first) ==> !%s" % (BASE, lt("%s[vf_k + 1]" % BASE, "%s[vf_k]" % BASE))),
             DEC("OFF(last) - OFF(next)")]]
    if name_inner:
        fn(name_outer, alias, cl)
        fn(name_inner, alias + "_pred", [], loop)
    else:
        fn(name_outer, alias, cl, loop)


sorted_until("etl::is_sorted_until<int *>", "etl::is_sorted_until<int *, etl::less<>>", "etl_is_sorted_until", LT)
sorted_until("etl::is_sorted_until<int *, etl::greater<>>", None, "etl_is_sorted_until_gt", GT)
fn("etl::is_sorted<int *>", "etl_is_sorted", [R(rng()),
   E("(RET && vf_k + 1 < vf_n) ==> !(OLD(first)[vf_k + 1] < OLD(first)[vf_k])"),
   E("vf_n <= 1 ==> RET"),
   A()])

# is_partitioned: true => no element satisfying p follows one that does not (ghosts vf_j < vf_k).  Index iterators (the raw pointer
# version did not finish in 150 s).
XJ_B = "(vf_j < vf_n && (long)vf_j < first.i)"
fn("etl::is_partitioned<vf::idx<int>, vf::pred3>", "etl_is_partitioned", [R(xrng()), R("vf_j <= vf_n"),
   E("(RET && vf_j < vf_k && vf_k < vf_n && %s) ==> %s" % (P3("OLD(first.base)[vf_k]"), P3("OLD(first.base)[vf_j]"))),
   E("vf_n <= 1 ==> RET"),
   A()],
   [[A("first.i"), INV("0 <= first.i && first.i <= last.i"),
     INV("%s ==> %s" % (XK_B, P3("first.base[vf_k]"))),
     INV("%s ==> %s" % (XJ_B, P3("first.base[vf_j]"))), XDEC],
    [A("first.i"), INV("0 <= ENTRY(first.i) && ENTRY(first.i) <= first.i && first.i <= last.i"),
     INV("(%s && (long)vf_k < ENTRY(first.i)) ==> %s" % (K, P3("first.base[vf_k]"))),
     INV("(vf_j < vf_n && (long)vf_j < ENTRY(first.i)) ==> %s" % P3("first.base[vf_j]")),
     INV("(%s && (long)vf_k >= ENTRY(first.i) && (long)vf_k < first.i) ==> !%s" % (K, P3("first.base[vf_k]"))),
     XDEC]])

# partition_point: first element not satisfying p; given that the range is partitioned (instance for the ghosts vf_j < vf_k), no
# element from the result on satisfies p
fn("etl::partition_point<int *, vf::pred3>", "etl_partition_point", [R(rng()),
   R("(vf_j < vf_k && vf_k < vf_n && %s) ==> %s" % (P3("first[vf_k]"), P3("first[vf_j]"))),
   E(inr("RET", OF)),
   E("RET == OLD(last) || !%s" % P3("*RET")),
   E("(%s && %s) ==> %s" % (K, before("vf_k", "RET", OF), P3("OLD(first)[vf_k]"))),
   E("(vf_j < vf_k && vf_k < vf_n && OFF(RET) == OFF(OLD(first)) + vf_j * %s) ==> !%s" % (I, P3("OLD(first)[vf_k]"))),
   A()],
   [[A("first"), INV(linv()), INV("%s ==> %s" % (KB, P3(EF + "[vf_k]"))), DECR]])

# clamp / min / max / minmax (loop free): the returned reference is one of the arguments, chosen as [alg.clamp] / [alg.min.max] say
fn("etl::clamp<int>", "etl_clamp", [R("FRESH(v, sizeof(int)) && FRESH(lo, sizeof(int)) && FRESH(hi, sizeof(int)) && !(*hi < *lo)"),
   E("RET == (*v < *lo ? lo : *hi < *v ? hi : v)"), A()])
fn("etl::min<int>", "etl_min", [R("FRESH(a, sizeof(int)) && FRESH(b, sizeof(int))"), E("RET == (*b < *a ? b : a)"), A()])
fn("etl::max<int>", "etl_max", [R("FRESH(a, sizeof(int)) && FRESH(b, sizeof(int))"), E("RET == (*a < *b ? b : a)"), A()])
fn("etl::minmax<int>", "etl_minmax", [R("FRESH(a, sizeof(int)) && FRESH(b, sizeof(int))"),
   E("RET.first == (*b < *a ? b : a) && RET.second == (*b < *a ? a : b)"), A()])

# ---------------------------------------------------------------------------------------------------------------------
# binary searches (vf::gix, comparator etl::less<>).  Precondition [alg.binary.search]: the range is partitioned w.r.t. e < value
# (lower_bound) resp. !(value < e) (upper_bound).  "Partitioned" is a universally quantified HYPOTHESIS; a ghost index supplies one
# instance of it.  The contracts therefore state (1) without any precondition the local characterisation of the result r:
# (r == first or r[-1] < value) and (r == last or !(r[0] < value)) -- and (2) for the ghost partition point vf_p and the instances
# of the hypothesis at vf_k and vf_j: if vf_k == r and vf_j == r - 1 then r == vf_p.  Since the instances needed are exactly those two,
# (2) for all ghost values is the standard's Returns clause.
V = "*value"
PRE_LB = lambda x: "((%s < vf_p ==> %s[%s] < %s) && ((vf_p <= %s && %s < vf_n) ==> !(%s[%s] < %s)))" % (x, G, x, V, x, x, G, x, V)
PRE_UB = lambda x: "((%s < vf_q ==> !(%s < %s[%s])) && ((vf_q <= %s && %s < vf_n) ==> %s < %s[%s]))" % (x, V, G, x, x, x, V, G, x)
HYP = "((long)vf_k == RET.i && (RET.i == 0 || (long)vf_j + 1 == RET.i))"
LB_LOCAL = "(RET.i == 0 || %s[RET.i - 1] < %s) && (RET.i == (long)vf_n || !(%s[RET.i] < %s))" % (G, V, G, V)
UB_LOCAL = "(RET.i == 0 || !(%s < %s[RET.i - 1])) && (RET.i == (long)vf_n || %s < %s[RET.i])" % (V, G, V, G)
fn("etl::lower_bound<vf::gix<int, 0>, int, etl::less<>>", "etl_lower_bound", [R("FRESH(value, sizeof(int))"), R(grng()),
   R("vf_p <= vf_n && %s && %s" % (PRE_LB("vf_k"), PRE_LB("vf_j"))),
   E("0 <= RET.i && RET.i <= (long)vf_n"), E(LB_LOCAL), E("%s ==> RET.i == (long)vf_p" % HYP), A()],
   [[A("it.i, step, count, first.i"),
     INV("0 <= first.i && first.i <= (long)vf_n && 0 <= count && count <= (long)vf_n && first.i + count <= (long)vf_n && "
         "(first.i == 0 || %s[first.i - 1] < %s) && (first.i + count == (long)vf_n || !(%s[first.i + count] < %s))" % (G, V, G, V)),
     DEC("count")]])
fn("etl::upper_bound<vf::gix<int, 0>, int, etl::less<>>", "etl_upper_bound", [R("FRESH(value, sizeof(int))"), R(grng()),
   R("vf_q <= vf_n && %s && %s" % (PRE_UB("vf_k"), PRE_UB("vf_j"))),
   E("0 <= RET.i && RET.i <= (long)vf_n"), E(UB_LOCAL), E("%s ==> RET.i == (long)vf_q" % HYP), A()],
   [[A("count, first.i"),
     INV("0 <= first.i && first.i <= (long)vf_n && 0 <= count && count <= (long)vf_n && first.i + count <= (long)vf_n && "
         "(first.i == 0 || !(%s < %s[first.i - 1])) && (first.i + count == (long)vf_n || %s < %s[first.i + count])" % (V, G, V, G)),
     DEC("count")]])
# binary_search / equal_range: checked against the contract of lower_bound / upper_bound (replace=).  binary_search returns whether the
# element at lower_bound is equivalent to value; that position is not visible in its post-state, so the contract states the consequences
# that are: true needs a non-empty range, and a one-element range is decided by its element.
fn("etl::binary_search<vf::gix<int, 0>, int, etl::less<>>", "etl_binary_search", [R("FRESH(value, sizeof(int))"), R(grng()),
   R("vf_p <= vf_n && %s && %s" % (PRE_LB("vf_k"), PRE_LB("vf_j"))),
   E("vf_n == 0 ==> !RET"),
   E("vf_n == 1 ==> RET == (%s[0] == %s)" % (G, V)),
   A()])
fn("etl::equal_range<vf::gix<int, 0>, int, etl::less<>>", "etl_equal_range", [R("FRESH(value, sizeof(int))"), R(grng()),
   R("vf_p <= vf_n && %s && %s" % (PRE_LB("vf_k"), PRE_LB("vf_j"))),
   R("vf_q <= vf_n && %s && %s" % (PRE_UB("vf_k"), PRE_UB("vf_j"))),
   E("0 <= RET.first.i && RET.first.i <= (long)vf_n && 0 <= RET.second.i && RET.second.i <= (long)vf_n"),
   E(LB_LOCAL.replace("RET.i", "RET.first.i")), E(UB_LOCAL.replace("RET.i", "RET.second.i")),
   E("%s ==> RET.first.i == (long)vf_p" % HYP.replace("RET.i", "RET.first.i")),
   E("%s ==> RET.second.i == (long)vf_q" % HYP.replace("RET.i", "RET.second.i")),
   A()])

# ---------------------------------------------------------------------------------------------------------------------
# accumulate / inner_product / reduce over unsigned (wrap-around arithmetic: signed overflow would be UB for any unconstrained element).
# The VALUE of a fold is a recursive function of the whole range, which a ghost index cannot express: the contracts prove safety,
# termination, the frame (nothing written) and the result for ranges of length 0 and 1; the bounded stand-ins check the value.
def fold(name, alias, step0, loop_in=None, loopvars="first, init", extra_req=(), f="first", l="last"):
    cl = [R(x) for x in extra_req] + [R(rng(f, l)),
          E("vf_n == 0 ==> RET == OLD(init)"),
          ] + ([E("vf_n == 1 ==> RET == %s" % step0("OLD(init)", "OLD(%s)" % f))] if step0 else []) + [A()]
    loop = [[A(loopvars), INV(linv(f, l))] + ([INV(lock("first2", "first1"))] if "first2" in loopvars else []) +
            [INV(("(%s == ENTRY(%s) ==> init == ENTRY(init))" % (f, f)) + ((" && (OFF(%s) == OFF(ENTRY(%s)) + %s ==> init == %s)" % (f, f, I, step0("ENTRY(init)", "ENTRY(%s)" % f))) if step0 else "")),
             DEC("OFF(%s) - OFF(%s)" % (l, f))]]
    if loop_in:
        fn(name, alias, cl)
        fn(loop_in, alias + "_op", [], loop)
    else:
        fn(name, alias, cl, loop)


fold("etl::accumulate<unsigned int *, unsigned int>", "etl_accumulate", lambda i, p: "%s + %s[0]" % (i, p))
fold("etl::accumulate<int *, int, vf::op2>", "etl_accumulate_op", lambda i, p: OP2(i, "%s[0]" % p))
# (inner_product: the length-1 value is left to the stand-in as well -- equating two 32-bit multipliers did not finish)
fold("etl::inner_product<unsigned int *, unsigned int *, unsigned int>", "etl_inner_product", None,
     loopvars="first1, first2, init", extra_req=[buf("first2")], f="first1", l="last1")
fold("etl::reduce<unsigned int *, unsigned int>", "etl_reduce", lambda i, p: "%s + %s[0]" % (i, p), loop_in="etl::accumulate<unsigned int *, unsigned int, etl::plus<>>")
fn("etl::reduce<unsigned int *>", "etl_reduce0", [R(rng()), E("vf_n == 0 ==> RET == 0"), E("vf_n == 1 ==> RET == OLD(first)[0]"), A()])
# =====================================================================================================================
# second wave: algorithms that had only bounded stand-ins (fam/algob); `standin=` of these groups names the algob group
# =====================================================================================================================
NP3 = lambda e: "(!%s)" % P3(e)

# partition_copy [alg.partitions]: every element goes to out_true if pred holds, else to out_false; returns the two ends.
# Contract: both ends (their SUM is exactly n), every element of out_true satisfies pred / none of out_false does, an element that
# satisfies pred makes out_true non-empty (and vice versa), the FIRST input element is the first element of its output and the LAST
# input element is the last element of its output, the source is not written.  The exact position of an inner element (the number of
# earlier elements of the same kind) is not expressible with a ghost index: bounded stand-in algob.partition_copy.
DT, DF = "destinationTrue", "destinationFalse"
fn("etl::partition_copy<vf::idx<int>, vf::idx<int>, vf::idx<int>, vf::pred3>", "etl_partition_copy", [R(xrng()), R(XJ), R(xbuf(DT)), R(xbuf(DF)),
   E("RET.first.base == OLD(%s.base) && RET.second.base == OLD(%s.base) && 0 <= RET.first.i && 0 <= RET.second.i && RET.first.i + RET.second.i == (long)vf_n" % (DT, DF)),
   E("(long)vf_j < RET.first.i ==> %s" % P3("OLD(%s.base)[vf_j]" % DT)),
   E("(long)vf_j < RET.second.i ==> %s" % NP3("OLD(%s.base)[vf_j]" % DF)),
   E("(%s && %s) ==> RET.first.i >= 1" % (K, P3("OLD(first.base)[vf_k]"))),
   E("(%s && %s) ==> RET.second.i >= 1" % (K, NP3("OLD(first.base)[vf_k]"))),
   E("(vf_n > 0 && %s) ==> OLD(%s.base)[0] == OLD(first.base)[0]" % (P3("OLD(first.base)[0]"), DT)),
   E("(vf_n > 0 && %s) ==> OLD(%s.base)[0] == OLD(first.base)[0]" % (NP3("OLD(first.base)[0]"), DF)),
   E("(vf_n > 0 && %s) ==> OLD(%s.base)[RET.first.i - 1] == OLD(first.base)[vf_n - 1]" % (P3("OLD(first.base)[vf_n - 1]"), DT)),
   E("(vf_n > 0 && %s) ==> OLD(%s.base)[RET.second.i - 1] == OLD(first.base)[vf_n - 1]" % (NP3("OLD(first.base)[vf_n - 1]"), DF)),
   A(xupto(DT + ".base") + ", " + xupto(DF + ".base"))],
   [[A("first.i, %s.i, %s.i, %s, %s" % (DT, DF, xupto(DT + ".base"), xupto(DF + ".base"))),
     INV("0 <= first.i && first.i <= last.i && 0 <= %s.i && %s.i <= first.i && 0 <= %s.i && %s.i <= first.i && %s.i + %s.i == first.i" % (DT, DT, DF, DF, DT, DF)),
     INV("(long)vf_j < %s.i ==> %s" % (DT, P3("%s.base[vf_j]" % DT))),
     INV("(long)vf_j < %s.i ==> %s" % (DF, NP3("%s.base[vf_j]" % DF))),
     INV("(%s && %s) ==> %s.i >= 1" % (XK_B, P3("first.base[vf_k]"), DT)),
     INV("(%s && %s) ==> %s.i >= 1" % (XK_B, NP3("first.base[vf_k]"), DF)),
     INV("(first.i >= 1 && %s) ==> (%s.i >= 1 && %s.base[0] == first.base[0])" % (P3("first.base[0]"), DT, DT)),
     INV("(first.i >= 1 && %s) ==> (%s.i >= 1 && %s.base[0] == first.base[0])" % (NP3("first.base[0]"), DF, DF)),
     INV("(first.i >= 1 && %s) ==> (%s.i >= 1 && %s.base[%s.i - 1] == first.base[first.i - 1])" % (P3("first.base[first.i - 1]"), DT, DT, DT)),
     INV("(first.i >= 1 && %s) ==> (%s.i >= 1 && %s.base[%s.i - 1] == first.base[first.i - 1])" % (NP3("first.base[first.i - 1]"), DF, DF, DF)),
     XDEC]])

# transform_reduce [transform.reduce]: as accumulate / inner_product (see fold): safety, termination, frame, the value for lengths 0 and 1
fold("etl::transform_reduce<unsigned int *, unsigned int *, unsigned int>", "etl_transform_reduce2", None,
     loop_in="etl::transform_reduce<unsigned int *, unsigned int *, unsigned int, etl::plus<>, etl::multiplies<>>",
     loopvars="first1, first2, init", extra_req=[buf("first2")], f="first1", l="last1")
fold("etl::transform_reduce<unsigned int *, unsigned int *, unsigned int, vf::u_xor, vf::u_and>", "etl_transform_reduce2x",
     lambda i, p: "(%s ^ (%s[0] & %s[0]))" % (i, p, p.replace("first1", "first2")),
     loopvars="first1, first2, init", extra_req=[buf("first2")], f="first1", l="last1")
fold("etl::transform_reduce<unsigned int *, unsigned int, etl::plus<>, vf::u_triple>", "etl_transform_reduce1",
     lambda i, p: "(%s + %s[0] * 3u)" % (i, p))

# copy, parameter-relative (source vf::idx<const int>): copies first.base[first.i .. last.i) to destination.base[destination.i ..);
# no overlap.  This is the contract the callers below are checked against (replace=etl_copy_c); group copy_c proves it.
CNT = "(last.i - first.i)"
OCNT = "(OLD(last.i) - OLD(first.i))"
fn("etl::copy<vf::idx<const int>, vf::idx<int>>", "etl_copy_c", [
   R("vf_k <= %s && 0 <= first.i && first.i <= last.i && last.i <= %s && 0 <= destination.i && destination.i <= %s" % (NMAXW, NMAXW, NMAXW)),
   R("FRESH(first.base, last.i * %s) && __CPROVER_pointer_equals(last.base, first.base) && FRESH(destination.base, (destination.i + %s) * %s)" % (I, CNT, I)),
   E("__CPROVER_pointer_equals(RET.base, OLD(destination.base)) && RET.i == OLD(destination.i) + %s" % OCNT),
   E("(long)vf_k < %s ==> OLD(destination.base)[OLD(destination.i) + (long)vf_k] == OLD(first.base)[OLD(first.i) + (long)vf_k]" % OCNT),
   A("__CPROVER_object_upto(destination.base + destination.i, %s * %s)" % (CNT, I))],
   [[A("first.i, destination.i, __CPROVER_object_upto(destination.base + destination.i, %s * %s)" % (CNT, I)),
     INV("ENTRY(first.i) <= first.i && first.i <= last.i && ENTRY(destination.i) <= destination.i && destination.i <= ENTRY(destination.i) + last.i && destination.i - first.i == ENTRY(destination.i) - ENTRY(first.i)"),
     INV("(long)vf_k < first.i - ENTRY(first.i) ==> destination.base[ENTRY(destination.i) + (long)vf_k] == first.base[ENTRY(first.i) + (long)vf_k]"),
     XDEC]])

# rotate_copy [alg.rotate]: result[k] == first[(k + (middle - first)) mod n], returns result + n; two calls of copy (replaced by etl_copy_c).
# vf_n = length, vf_m = middle - first.  The two ENSURES (same ghost index vf_k, once for each part) are the whole element-wise clause.
fn("etl::rotate_copy<vf::idx<const int>, vf::idx<int>>", "etl_rotate_copy", [
   R("vf_k <= vf_n && vf_n <= %s && vf_m <= vf_n && FRESH(first.base, vf_n * %s) && first.i == 0 && __CPROVER_pointer_equals(nFirst.base, first.base) && nFirst.i == (long)vf_m && __CPROVER_pointer_equals(last.base, first.base) && last.i == (long)vf_n" % (NMAXW, I)),
   R(xbuf("destination")),
   E(xat("RET", "OLD(destination.base)", "vf_n")),
   E("vf_k < vf_n - vf_m ==> OLD(destination.base)[vf_k] == OLD(first.base)[vf_m + vf_k]"),
   E("vf_k < vf_m ==> OLD(destination.base)[vf_n - vf_m + vf_k] == OLD(first.base)[vf_k]"),
   A(xupto("destination.base"))])

# shift_left [alg.shift]: n <= 0 (the standard requires n >= 0; tetl documents n < 0 as "does nothing") or n >= last - first: no effects,
# returns last resp. first; otherwise element first+n+i moves to first+i, returns first + (last - first - n).  Range length = vf_m + vf_n,
# shift n == vf_m in the moving case.  Random-access path: one call of move (replaced by etl_move, overlap configuration vf_ov == 1).
NN = "(vf_m + vf_n)"
SH_RNG = "vf_k <= vf_n && vf_j <= %s && vf_n <= %s && vf_m <= %s && FRESH(first.base, %s * %s) && first.i == 0 && __CPROVER_pointer_equals(last.base, first.base) && last.i == (long)%s" % (NN, NMAXW, NMAXW, NN, I, NN)
fn("etl::shift_left<vf::idx<int>>", "etl_shift_left", [R(SH_RNG),
   R("n <= 0 || n >= (long)%s || n == (long)vf_m" % NN),
   E("RET.base == OLD(first.base) && RET.i == (OLD(n) <= 0 ? (long)%s : OLD(n) >= (long)%s ? 0 : (long)vf_n)" % (NN, NN)),
   E("((OLD(n) <= 0 || OLD(n) >= (long)%s) && vf_j < %s) ==> OLD(first.base)[vf_j] == OLD(first.base[vf_j])" % (NN, NN)),
   E("(OLD(n) > 0 && OLD(n) < (long)%s && %s) ==> OLD(first.base)[vf_k] == OLD(first.base[vf_m + vf_k])" % (NN, K)),
   A(xupto("first.base"))])

# shift_right [alg.shift]: n == 0 or n >= last - first: no effects, returns first (== first + n) resp. last; otherwise element first+i moves
# to first+n+i for i < (last - first) - n, returns first + n.  (n < 0: outside the standard's precondition, not part of the contract.)
fn("etl::shift_right<vf::idx<int>>", "etl_shift_right", [R(SH_RNG),
   R("n == 0 || n >= (long)%s || n == (long)vf_m" % NN),
   E("RET.base == OLD(first.base) && RET.i == (OLD(n) >= (long)%s && OLD(n) > 0 ? (long)%s : OLD(n))" % (NN, NN)),
   E("((OLD(n) == 0 || OLD(n) >= (long)%s) && vf_j < %s) ==> OLD(first.base)[vf_j] == OLD(first.base[vf_j])" % (NN, NN)),
   E("(OLD(n) > 0 && OLD(n) < (long)%s && %s) ==> OLD(first.base)[vf_m + vf_k] == OLD(first.base[vf_k])" % (NN, K)),
   A(xupto("first.base", NN))],
   [[A("dest.i, src.i, " + xupto("first.base", NN)),
     INV("first.i == 0 && n == (long)vf_m && 0 <= src.i && src.i <= (long)vf_n && dest.i == src.i + (long)vf_m && dest.base == first.base && src.base == first.base"),
     INV("(%s && (long)vf_k >= src.i) ==> first.base[vf_m + vf_k] == ENTRY(first.base[vf_k])" % K),
     INV("(%s && (long)vf_k < src.i) ==> first.base[vf_k] == ENTRY(first.base[vf_k])" % K),
     DEC("src.i")],
    [A("dest.i, " + xupto("first.base", "vf_m")),
     INV("first.i == 0 && 0 <= dest.i && dest.i <= (long)vf_m && dest.base == first.base"),
     DEC("dest.i")]])

# partition [alg.partitions]: returns i such that pred holds on [first, i) and on no element of [i, last); permutes.
# Contract: i in range, pred holds on every element before i (ghost index), an element satisfying pred makes i > first, one that does not
# makes i < last, nothing outside the range is written.  NOT in the contract: "no element of [i, last) satisfies pred" -- its loop invariant
# (pred fails on [first, i) of the loop) needs, at every swap, the instance at the moving index `first`, i.e. a genuinely quantified
# invariant; it and the permutation clause stay in the bounded stand-in algob.partition.
xfinder("etl::find_if_not<vf::idx<int>, vf::pred3>", "etl_find_if_not_x", NP3, peq=True)
fn("etl::partition<vf::idx<int>, vf::pred3>", "etl_partition", [R(xrng()), R(XJ),
   E("RET.base == OLD(first.base) && 0 <= RET.i && RET.i <= (long)vf_n"),
   E("(%s && (long)vf_k < RET.i) ==> %s" % (K, P3("OLD(first.base)[vf_k]"))),
   E("(%s && %s) ==> RET.i >= 1" % (K, P3("OLD(first.base[vf_k])"))),
   E("(%s && %s) ==> RET.i <= (long)vf_n - 1" % (K, NP3("OLD(first.base[vf_k])"))),
   A(xupto("first.base"))],
   [[A("first.i, i.i, " + xupto("first.base")),
     INV("0 <= first.i && first.i < i.i && i.i <= last.i && last.i == (long)vf_n && i.base == first.base"),
     INV("(%s && (long)vf_k < first.i) ==> %s" % (K, P3("first.base[vf_k]"))),
     INV("(%s && (long)vf_k >= i.i) ==> first.base[vf_k] == ENTRY(first.base[vf_k])" % K),
     INV("(%s && (long)vf_k < i.i && %s) ==> first.i >= 1" % (K, P3("ENTRY(first.base[vf_k])"))),
     DEC("last.i - i.i")]])

# search_n [alg.search]: the first i such that the count elements from i on equal value; first if count <= 0; last if there is none.
# Contract: result in range; count <= 0 -> first; a result != last starts count elements (ghost vf_j) equal to value, lies at least count
# before last and is not preceded by an equal element (else result - 1 would be an earlier match); count > n -> last; for count == 1
# no element before the result equals value.  NOT in the contract: minimality for count >= 2 ("every earlier window contains a
# different element" is an existential statement per window): bounded stand-in algob.search_n.
SV = "*value"
fn("etl::search_n<int *, long, int>", "etl_search_n", [R("FRESH(value, sizeof(int))"), R(rng()),
   E(inr("RET", OF)),
   E("OLD(count) <= 0 ==> RET == OLD(first)"),
   E("(OLD(count) > 0 && RET != OLD(last)) ==> (OFF(RET) + OLD(count) * %s <= OFF(OLD(last)) && ((long)vf_j < OLD(count) ==> RET[vf_j] == %s))" % (I, SV)),
   E("(OLD(count) > 0 && RET != OLD(last) && RET != OLD(first)) ==> RET[-1] != %s" % SV),
   E("OLD(count) > (long)vf_n ==> RET == OLD(last)"),
   E("(OLD(count) == 1 && %s && %s) ==> OLD(first)[vf_k] != %s" % (K, before("vf_k", "RET", OF), SV)),
   A()])
fn("etl::search_n<int *, long, int, etl::equal_to<>>", "etl_search_n_pred", [],
   [[A("first, found, localCounter"), INV(linv()),
     INV("0 <= localCounter && localCounter < count && localCounter <= (long)%s" % idx("first", EF)),
     INV("localCounter > 0 ==> (SAME(found, first) && OFF(found) + localCounter * %s == OFF(first))" % I),
     INV("(localCounter > 0 && (long)vf_j < localCounter) ==> found[vf_j] == %s" % SV),
     INV("(localCounter > 0 && found != %s) ==> found[-1] != %s" % (EF, SV)),
     INV("(localCounter == 0 && first != %s) ==> first[-1] != %s" % (EF, SV)),
     INV("(count == 1 && %s) ==> %s[vf_k] != %s" % (KB, EF, SV)),
     DECR]])

# find_first_of [alg.find.first.of]: the first i in [first, last) such that *i == *j for some j in [s_first, s_last); last if none.
# Contract (both loops under loop contracts): result in range; no element before the result equals any needle element (ghosts vf_k, vf_p);
# an empty needle gives last; "the result equals SOME needle element" is existential: written out for needles of up to 3 elements.
fn("etl::find_first_of<int *, int *>", "etl_find_first_of", [R(rng()), R(rng("sFirst", "sLast", "vf_m")), R("vf_p <= vf_m"),
   E(inr("RET", OF)),
   E("(%s && %s && vf_p < vf_m) ==> OLD(first)[vf_k] != OLD(sFirst)[vf_p]" % (K, before("vf_k", "RET", OF))),
   E("vf_m == 0 ==> RET == OLD(last)"),
   E("(RET != OLD(last) && vf_m <= 3) ==> ((vf_m >= 1 && *RET == OLD(sFirst)[0]) || (vf_m >= 2 && *RET == OLD(sFirst)[1]) || (vf_m >= 3 && *RET == OLD(sFirst)[2]))"),
   A()])
fn("etl::find_first_of<int *, int *, etl::equal_to<>>", "etl_find_first_of_pred", [],
   [[A("first"), INV(linv()),
     INV("(%s && vf_p < vf_m) ==> %s[vf_k] != sFirst[vf_p]" % (KB, EF)),
     DECR],
    [A("it"), INV(linv("it", "sLast")), INV("ENTRY(it) == sFirst"),
     INV("(vf_p < vf_m && sFirst + vf_p < it) ==> *first != sFirst[vf_p]"),
     DEC("OFF(sLast) - OFF(it)")]])

# includes [includes]: true iff every element of the sorted range 2 is contained in the sorted range 1 (as a sub-multiset).
# "Contained" is existential and its negation universal over range 1: the contract states the decidable cases (empty range 2 -> true;
# range 2 longer than range 1 -> false; the first element of range 2 is less than the first of range 1 -> false; one element each ->
# equivalence of the two), safety, termination and the frame; the bounded stand-in algob.includes states the full result.
fn("etl::includes<int *, int *>", "etl_includes", [R(rng("first1", "last1")), R(rng("first2", "last2", "vf_m")),
   E("vf_m == 0 ==> RET"), E("vf_m > vf_n ==> !RET"),
   E("(vf_n > 0 && vf_m > 0 && OLD(first2)[0] < OLD(first1)[0]) ==> !RET"),
   E("(vf_n == 1 && vf_m == 1) ==> RET == (!(OLD(first1)[0] < OLD(first2)[0]) && !(OLD(first2)[0] < OLD(first1)[0]))"),
   A()])
fn("etl::includes<int *, int *, etl::less<>>", "etl_includes_pred", [],
   [[A("first1, first2"), INV(linv("first1", "last1")), INV(linv("first2", "last2")),
     INV("OFF(first2) - OFF(ENTRY(first2)) <= OFF(first1) - OFF(ENTRY(first1))"),
     INV("OFF(first1) == OFF(ENTRY(first1)) + %s ==> (first2 == ENTRY(first2) ? ENTRY(first1)[0] < ENTRY(first2)[0] : (!(ENTRY(first1)[0] < ENTRY(first2)[0]) && !(ENTRY(first2)[0] < ENTRY(first1)[0])))" % I),
     DEC("OFF(last1) - OFF(first1)")]])
# ---------------------------------------------------------------------------------------------------------------------
# merge and the set operations [alg.merge] [alg.set.operations]: one loop over two cursors + tail copies (calls of copy, replaced by
# etl_copy_c).  Inputs A = first1.base[0..vf_n), B = first2.base[0..vf_m) (read-only iterators vf::idx<const int>), output d, comparator
# vf::klt (key = x >> 4; the low bits distinguish equivalent elements, so "which of two equivalent elements was taken" is observable).
# Cap: vf_n, vf_m <= NMAXW / 2 (the output has up to vf_n + vf_m <= NMAXW elements).
# What a quantifier-free contract can carry: the final POSITION of an input element in the output is a count over the other range
# (algob states it in closed form for len <= 3..6); a post-state clause about an inner output element would have to name the cursor
# pair at the time it was written, which the post-state does not contain.  Therefore
#   ENSURES     memory safety / frame (exact-fit output buffer, inputs not written), the exact length or the exact length bounds of
#               the standard, the first output element (tie -> the element of the FIRST range), the degenerate cases (an empty range);
#   INVARIANTS  (proved for EVERY iteration: "Check invariant after step") the last element written was taken from the cursor of A or B
#               it names, an element of B is only taken when it is STRICTLY less than A's cursor element (stability / tie rule),
#               and for merge: the last two elements written are in order, given the sortedness instances of A and B at the ghost
#               cursors vf_p, vf_q (two-ghost-instance trick as for lower_bound: for all ghost values = for every adjacent pair the
#               main loop writes; these two invariants are switched on by vf_sel == 1, group merge_sorted, to keep each SAT problem
#               small); the tail copies are covered by the contract of copy.
#   bounded stand-in only: permutation / multiset counts, sortedness of the whole output as a post-state clause, final positions.
HALF = str(int(NMAXW) // 2)
LTK = lambda x, y: "((%s >> 4) < (%s >> 4))" % (x, y)
MA, MB, MD = "first1.base", "first2.base", "destination.base"
MP, MQ, MDI = "first1.i", "first2.i", "destination.i"


def two_ranges(dst, dsize):
    return [R("vf_k <= %s && vf_n <= %s && vf_m <= %s" % (NMAXW, HALF, HALF)),
            R("FRESH(first1.base, vf_n * %s) && first1.i == 0 && __CPROVER_pointer_equals(last1.base, first1.base) && last1.i == (long)vf_n" % I),
            R("FRESH(first2.base, vf_m * %s) && first2.i == 0 && __CPROVER_pointer_equals(last2.base, first2.base) && last2.i == (long)vf_m" % I),
            R("FRESH(%s.base, (%s) * %s) && %s.i == 0" % (dst, dsize, I, dst))]


def first_elem(dst, both=True):
    """first output element when both ranges are non-empty: B's first element only if strictly less (tie -> A)"""
    a0, b0, d0 = "OLD(first1.base)[0]", "OLD(first2.base)[0]", "OLD(%s.base)[0]" % dst
    cl = [E("(vf_n > 0 && vf_m > 0 && !%s) ==> %s == %s" % (LTK(b0, a0), d0, a0))] if both else [E("(vf_n > 0 && vf_m > 0 && %s) ==> %s == %s" % (LTK(a0, b0), d0, a0))]
    if both:
        cl.append(E("(vf_n > 0 && vf_m > 0 && %s) ==> %s == %s" % (LTK(b0, a0), d0, b0)))
    return cl


def first_inv(dst, both=True):
    a0, b0, d0 = "first1.base[0]", "first2.base[0]", "%s.base[0]" % dst
    cl = [INV("(%s.i >= 1 && vf_n > 0 && vf_m > 0 && !%s) ==> %s == %s" % (dst, LTK(b0, a0), d0, a0))] if both else []
    if both:
        cl.append(INV("(%s.i >= 1 && vf_n > 0 && vf_m > 0 && %s) ==> %s == %s" % (dst, LTK(b0, a0), d0, b0)))
    return cl


CUR = "0 <= first1.i && first1.i <= (long)vf_n && 0 <= first2.i && first2.i <= (long)vf_m && 0 <= destination.i && destination.i <= (long)(vf_n + vf_m)"
DL1, DL2 = "%s[%s - 1]" % (MD, MDI), "%s[%s - 2]" % (MD, MDI)
AP1, AP2, AP0 = "%s[%s - 1]" % (MA, MP), "%s[%s - 2]" % (MA, MP), "%s[%s]" % (MA, MP)
BQ1, BQ2, BQ0 = "%s[%s - 1]" % (MB, MQ), "%s[%s - 2]" % (MB, MQ), "%s[%s]" % (MB, MQ)
# merge: last step took A's element (B's cursor element, if any, is not less) | took B's element (strictly less than A's cursor element)
M_A = "(%s >= 1 && %s == %s && (%s == (long)vf_m || !%s))" % (MP, DL1, AP1, MQ, LTK(BQ0, AP1))
M_B = "(%s >= 1 && %s == %s && %s < (long)vf_n && %s)" % (MQ, DL1, BQ1, MP, LTK(BQ1, AP0))
M_AA = "(%s >= 2 && %s == %s)" % (MP, DL2, AP2)
M_AB = "(%s >= 1 && %s == %s && %s)" % (MQ, DL2, BQ1, LTK(BQ1, AP1))
M_BA = "(%s >= 1 && %s == %s && !%s)" % (MP, DL2, AP1, LTK(BQ1, AP1))
M_BB = "(%s >= 2 && %s == %s)" % (MQ, DL2, BQ2)
SORT_INST = ("(2 <= vf_p && vf_p <= vf_n) ==> !%s" % LTK("first1.base[vf_p - 1]", "first1.base[vf_p - 2]"),
             "(2 <= vf_q && vf_q <= vf_m) ==> !%s" % LTK("first2.base[vf_q - 1]", "first2.base[vf_q - 2]"))
fn("etl::merge<vf::idx<const int>, vf::idx<const int>, vf::idx<int>, vf::klt>", "etl_merge",
   two_ranges("destination", "vf_n + vf_m") + [R("vf_p <= vf_n && vf_q <= vf_m"), R(SORT_INST[0]), R(SORT_INST[1]),
   E(xat("RET", "OLD(destination.base)", "vf_n + vf_m"))] + first_elem("destination") + [
   E("(vf_m == 0 && %s) ==> OLD(destination.base)[vf_k] == OLD(first1.base)[vf_k]" % K),
   E("(vf_n == 0 && vf_k < vf_m) ==> OLD(destination.base)[vf_k] == OLD(first2.base)[vf_k]"),
   A(xupto("destination.base", "vf_n + vf_m"))],
   [[A("first1.i, first2.i, destination.i, " + xupto("destination.base", "vf_n + vf_m")),
     INV(CUR + " && destination.i == first1.i + first2.i"),
     INV("destination.i >= 1 ==> (%s || %s)" % (M_A, M_B))] + first_inv("destination") + [
     INV("(vf_sel && destination.i >= 2) ==> ((%s && (%s || %s)) || (%s && (%s || %s)))" % (M_A, M_AA, M_AB, M_B, M_BA, M_BB)),
     INV("(vf_sel && destination.i >= 2 && first1.i == (long)vf_p && first2.i == (long)vf_q) ==> !%s" % LTK(DL1, DL2)),
     DEC("(long)(vf_n + vf_m) - destination.i")]])
# set_union [set.union]: m equivalent elements in A and n in B give max(m, n) in the output: all of A's, then B's surplus -> the length lies in
# [max(vf_n, vf_m), vf_n + vf_m].  Invariant: the last element written is A's (B's cursor element was not less; an equivalent one of B was
# skipped) or B's, and B's only if it is STRICTLY less than A's cursor element.
U_A = "(%s >= 1 && %s == %s && ((%s < (long)vf_m && %s) || (%s >= 1 && !%s && !%s)))" % (MP, DL1, AP1, MQ, LTK(AP1, BQ0), MQ, LTK(BQ1, AP1), LTK(AP1, BQ1))
fn("etl::set_union<vf::idx<const int>, vf::idx<const int>, vf::idx<int>, vf::klt>", "etl_set_union",
   two_ranges("destination", "vf_n + vf_m") + [
   E("RET.base == OLD(destination.base) && (long)vf_n <= RET.i && (long)vf_m <= RET.i && RET.i <= (long)(vf_n + vf_m)")] + first_elem("destination") + [
   E("(vf_m == 0 && %s) ==> OLD(destination.base)[vf_k] == OLD(first1.base)[vf_k]" % K),
   E("(vf_n == 0 && vf_k < vf_m) ==> OLD(destination.base)[vf_k] == OLD(first2.base)[vf_k]"),
   E("vf_m == 0 ==> RET.i == (long)vf_n"), E("vf_n == 0 ==> RET.i == (long)vf_m"),
   A(xupto("destination.base", "vf_n + vf_m"))],
   [[A("first1.i, first2.i, destination.i, tmp0, " + xupto("destination.base", "vf_n + vf_m")),
     INV(CUR + " && first1.i <= destination.i && first2.i <= destination.i && destination.i <= first1.i + first2.i"),
     INV("destination.i >= 1 ==> (%s || %s)" % (U_A, M_B))] + first_inv("destination") + [
     DEC("(long)(vf_n + vf_m) - destination.i")]])

# set_intersection [set.intersection]: min(m, n) of the equivalent elements, taken from the FIRST range -> length in [0, min(vf_n, vf_m)] (the output
# buffer has exactly min(vf_n, vf_m) elements).  Which cursor an inner output element came from is not visible in a later state (steps that write
# nothing follow): the contract carries the length bounds, the frame and the one-element case (taken from A iff equivalent).
MINNM2 = "(vf_n < vf_m ? vf_n : vf_m)"
fn("etl::set_intersection<vf::idx<const int>, vf::idx<const int>, vf::idx<int>, vf::klt>", "etl_set_intersection",
   two_ranges("dest", MINNM2) + [
   E("RET.base == OLD(dest.base) && 0 <= RET.i && RET.i <= (long)%s" % MINNM2),
   E("(vf_n == 1 && vf_m == 1) ==> RET.i == ((!%s && !%s) ? 1 : 0)" % (LTK("OLD(first1.base)[0]", "OLD(first2.base)[0]"), LTK("OLD(first2.base)[0]", "OLD(first1.base)[0]"))),
   E("(vf_n == 1 && vf_m == 1 && RET.i == 1) ==> OLD(dest.base)[0] == OLD(first1.base)[0]"),
   A("__CPROVER_object_whole(dest.base)")],
   [[A("first1.i, first2.i, dest.i, tmp0, tmp1, __CPROVER_object_whole(dest.base)"),
     INV("0 <= first1.i && first1.i <= (long)vf_n && 0 <= first2.i && first2.i <= (long)vf_m && 0 <= dest.i && dest.i <= first1.i && dest.i <= first2.i"),
     INV("(vf_n == 1 && vf_m == 1 && dest.i == 1) ==> (dest.base[0] == first1.base[0] && !%s && !%s)" % (LTK("first1.base[0]", "first2.base[0]"), LTK("first2.base[0]", "first1.base[0]"))),
     INV("(vf_n == 1 && vf_m == 1 && dest.i == 0 && (first1.i == 1 || first2.i == 1)) ==> (%s || %s)" % (LTK("first1.base[0]", "first2.base[0]"), LTK("first2.base[0]", "first1.base[0]"))),
     DEC("(long)(vf_n + vf_m) - first1.i - first2.i")]])

# set_difference [set.difference]: max(m - n, 0) of the equivalent elements of A -> length in [max(vf_n - vf_m, 0), vf_n]; B empty -> a copy of A;
# the first element of A is the first output element if it is less than the first element of B; one element each -> A's element iff
# not equivalent.  (A fault that drops a non-equivalent element of A in longer ranges keeps all these clauses: bounded stand-in.)
fn("etl::set_difference<vf::idx<const int>, vf::idx<const int>, vf::idx<int>, vf::klt>", "etl_set_difference",
   two_ranges("destination", "vf_n") + [
   E("RET.base == OLD(destination.base) && 0 <= RET.i && RET.i <= (long)vf_n && (long)vf_n - (long)vf_m <= RET.i")] + first_elem("destination", both=False) + [
   E("(vf_m == 0 && %s) ==> OLD(destination.base)[vf_k] == OLD(first1.base)[vf_k]" % K),
   E("vf_m == 0 ==> RET.i == (long)vf_n"),
   E("(vf_n == 1 && vf_m == 1) ==> RET.i == ((!%s && !%s) ? 0 : 1)" % (LTK("OLD(first1.base)[0]", "OLD(first2.base)[0]"), LTK("OLD(first2.base)[0]", "OLD(first1.base)[0]"))),
   E("(vf_n == 1 && vf_m == 1 && RET.i == 1 && vf_k == 0) ==> OLD(destination.base)[0] == OLD(first1.base)[0]"),
   A(xupto("destination.base", "vf_n"))],
   [[A("first1.i, first2.i, destination.i, tmp0, tmp1, " + xupto("destination.base", "vf_n")),
     INV("0 <= first1.i && first1.i <= (long)vf_n && 0 <= first2.i && first2.i <= (long)vf_m && 0 <= destination.i && destination.i <= first1.i && first1.i - destination.i <= first2.i"),
     INV("(destination.i >= 1 && vf_n > 0 && vf_m > 0 && %s) ==> destination.base[0] == first1.base[0]" % LTK("first1.base[0]", "first2.base[0]")),
     INV("(vf_n > 0 && vf_m > 0 && %s) ==> (first1.i == 0 ? (destination.i == 0 && first2.i == 0) : destination.i >= 1)" % LTK("first1.base[0]", "first2.base[0]")),
     INV("(vf_n == 1 && vf_m == 1) ==> ((first1.i == 0 && first2.i == 0 && destination.i == 0) || (first1.i == 1 && first2.i == 0 && destination.i == 1 && destination.base[0] == first1.base[0] && %s)"
         " || (first1.i == 1 && first2.i == 1 && destination.i == 0 && !%s && !%s) || (first1.i == 0 && first2.i == 1 && destination.i == 0 && %s))" % (
             LTK("first1.base[0]", "first2.base[0]"), LTK("first1.base[0]", "first2.base[0]"), LTK("first2.base[0]", "first1.base[0]"), LTK("first2.base[0]", "first1.base[0]"))),
     DEC("(long)(vf_n + vf_m) - first1.i - first2.i")]])

# set_symmetric_difference [set.symmetric.difference]: |m - n| of the equivalent elements -> the length is vf_n + vf_m - 2s with 0 <= s <= min(vf_n, vf_m)
# (s = number of cancelled pairs): bounds [|vf_n - vf_m|, vf_n + vf_m] and parity; an empty range -> a copy of the other one.
fn("etl::set_symmetric_difference<vf::idx<const int>, vf::idx<const int>, vf::idx<int>, vf::klt>", "etl_set_symmetric_difference",
   two_ranges("destination", "vf_n + vf_m") + [
   E("RET.base == OLD(destination.base) && 0 <= RET.i && RET.i <= (long)(vf_n + vf_m) && ((long)(vf_n + vf_m) - RET.i) % 2 == 0"),
   E("(long)vf_n - (long)vf_m <= RET.i && (long)vf_m - (long)vf_n <= RET.i"),
   E("(vf_m == 0 && %s) ==> OLD(destination.base)[vf_k] == OLD(first1.base)[vf_k]" % K),
   E("(vf_n == 0 && vf_k < vf_m) ==> OLD(destination.base)[vf_k] == OLD(first2.base)[vf_k]"),
   E("vf_m == 0 ==> RET.i == (long)vf_n"), E("vf_n == 0 ==> RET.i == (long)vf_m"),
   E("(vf_n > 0 && vf_m > 0 && %s) ==> OLD(destination.base)[0] == OLD(first1.base)[0]" % LTK("OLD(first1.base)[0]", "OLD(first2.base)[0]")),
   E("(vf_n > 0 && vf_m > 0 && %s) ==> OLD(destination.base)[0] == OLD(first2.base)[0]" % LTK("OLD(first2.base)[0]", "OLD(first1.base)[0]")),
   A(xupto("destination.base", "vf_n + vf_m"))],
   [[A("first1.i, first2.i, destination.i, tmp0, tmp1, tmp2, " + xupto("destination.base", "vf_n + vf_m")),
     INV(CUR + " && destination.i <= first1.i + first2.i && (first1.i + first2.i - destination.i) % 2 == 0 && first1.i + first2.i - destination.i <= 2 * first1.i && first1.i + first2.i - destination.i <= 2 * first2.i"),
     INV("(destination.i >= 1 && vf_n > 0 && vf_m > 0 && %s) ==> destination.base[0] == first1.base[0]" % LTK("first1.base[0]", "first2.base[0]")),
     INV("(destination.i >= 1 && vf_n > 0 && vf_m > 0 && %s) ==> destination.base[0] == first2.base[0]" % LTK("first2.base[0]", "first1.base[0]")),
     INV("(vf_n > 0 && vf_m > 0 && (%s || %s)) ==> ((first1.i == 0 && first2.i == 0) ? destination.i == 0 : destination.i >= 1)" % (LTK("first1.base[0]", "first2.base[0]"), LTK("first2.base[0]", "first1.base[0]"))),
     DEC("(long)(vf_n + vf_m) - first1.i - first2.i")]])

# search [alg.search]: the first i such that [i, i + m) equals the needle; first for an empty needle; last if there is none.
# Contract (outer and inner loop under loop contracts): result in range; empty needle -> first; a result != last lies at least m before last and
# starts a match (ghost vf_p over the needle); needle longer than the range -> last; for a one-element needle no element before the result matches.
# NOT in the contract: minimality for m >= 2 (every earlier window contains a mismatch: existential per window): bounded stand-in algob.search.
fn("etl::search<int *, int *>", "etl_search", [R(rng()), R(rng("sFirst", "sLast", "vf_m")), R("vf_p <= vf_m"),
   E(inr("RET", OF)),
   E("vf_m == 0 ==> RET == OLD(first)"),
   E("(vf_m > 0 && RET != OLD(last)) ==> (OFF(RET) + vf_m * %s <= OFF(OLD(last)) && (vf_p < vf_m ==> RET[vf_p] == OLD(sFirst)[vf_p]))" % I),
   E("vf_m > vf_n ==> RET == OLD(last)"),
   E("(vf_m == 1 && %s && %s) ==> OLD(first)[vf_k] != OLD(sFirst)[0]" % (K, before("vf_k", "RET", OF))),
   A()])
fn("etl::search<int *, int *, etl::equal_to<>>", "etl_search_pred", [],
   [[A("first"), INV(linv()),
     INV("(vf_m == 1 && %s) ==> %s[vf_k] != sFirst[0]" % (KB, EF)),
     DECR],
    [A("it, sIt"), INV("SAME(sIt, sLast) && (OFF(sIt) - OFF(sFirst)) %% %s == 0 && OFF(sFirst) <= OFF(sIt) && OFF(sIt) <= OFF(sLast)" % I),
     INV("SAME(it, last) && OFF(it) - OFF(first) == OFF(sIt) - OFF(sFirst) && OFF(it) <= OFF(last)"),
     INV("(vf_p < vf_m && sFirst + vf_p < sIt) ==> first[vf_p] == sFirst[vf_p]"),
     DEC("OFF(sLast) - OFF(sIt)")]])

# for_each_n [alg.foreach]: applies f to every element of [first, first + n) (exactly once: OP1 applied twice gives another value), returns first + n
fn("etl::for_each_n<vf::idx<int>, long, vf::mut1>", "etl_for_each_n", [
   R("vf_k <= vf_n && vf_n <= %s && FRESH(first.base, vf_n * %s) && first.i == 0" % (NMAXW, I)),
   R("n > 0 ? n == (long)vf_n : vf_n == 0"),
   E(xat("RET", "OLD(first.base)", "vf_n")),
   E("%s ==> OLD(first.base)[vf_k] == %s" % (K, OP1("OLD(first.base[vf_k])"))),
   A(xupto("first.base"))],
   [[A("i, first.i, " + xupto("first.base")), INV("0 <= i && i <= (long)vf_n && first.i == i"),
     INV("%s ==> first.base[vf_k] == %s" % (XK_B, OP1("ENTRY(first.base[vf_k])"))),
     INV("%s ==> first.base[vf_k] == ENTRY(first.base[vf_k])" % XK_A),
     DEC("(long)vf_n - i")]])
# iter_swap [alg.swap] (loop free): swap(*a, *b): the two pointees are exchanged, nothing else is written; a == b (vf_ov) is permitted
fn("etl::iter_swap<int *, int *>", "etl_iter_swap", [
   R("FRESH(a, sizeof(int)) && (vf_ov ? __CPROVER_pointer_equals(b, a) : FRESH(b, sizeof(int)))"),
   E("*a == OLD(*b) && *b == OLD(*a)"),
   A("*a, *b")])
# ===== END CONTRACTS =====

hdr = ["# generated by fam/algo/mkspec.py -- edit that file and re-run it",
       "GHOST unsigned long vf_n, vf_m, vf_k, vf_j, vf_p, vf_q, vf_ov, vf_sel;",
       "GHOST int *vf_gb0;"]
open(os.path.join(os.path.dirname(os.path.abspath(__file__)), "contracts.spec"), "w").write("\n".join(hdr + OUT) + "\n")
