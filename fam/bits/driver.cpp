// driver: bit and integer utilities (C14; both is_constant_evaluated paths for C13)
#include <etl/bit.hpp>
#include <etl/numeric.hpp>
#include <etl/utility.hpp>
#include <etl/cmath.hpp>
#include <etl/cstdlib.hpp>

#define VF_E extern "C"
namespace vf {
using u8 = unsigned char; using u16 = unsigned short; using u32 = unsigned int; using u64 = unsigned long long;
using i8 = signed char; using i16 = short; using i32 = int; using i64 = long long;

#define VF_UNS(X) X(u8) X(u16) X(u32) X(u64)
#define VF_SGN(X) X(i8) X(i16) X(i32) X(i64)

#define X(T) \
  VF_E int popcount_##T(T x) { return etl::popcount(x); } \
  VF_E int countl_zero_##T(T x) { return etl::countl_zero(x); } \
  VF_E int countl_one_##T(T x) { return etl::countl_one(x); } \
  VF_E int countr_zero_##T(T x) { return etl::countr_zero(x); } \
  VF_E int countr_one_##T(T x) { return etl::countr_one(x); } \
  VF_E int bit_width_##T(T x) { return etl::bit_width(x); } \
  VF_E T bit_ceil_##T(T x) { return etl::bit_ceil(x); } \
  VF_E T bit_floor_##T(T x) { return etl::bit_floor(x); } \
  VF_E bool has_single_bit_##T(T x) { return etl::has_single_bit(x); } \
  VF_E T rotl_##T(T x, int s) { return etl::rotl(x, s); } \
  VF_E T rotr_##T(T x, int s) { return etl::rotr(x, s); } \
  VF_E T set_bit_##T(T w, T p) { return etl::set_bit(w, p); } \
  VF_E T set_bit_v_##T(T w, T p, bool v) { return etl::set_bit(w, p, v); } \
  VF_E T reset_bit_##T(T w, T p) { return etl::reset_bit(w, p); } \
  VF_E T flip_bit_##T(T w, T p) { return etl::flip_bit(w, p); } \
  VF_E bool test_bit_##T(T w, T p) { return etl::test_bit(w, p); } \
  VF_E T set_bit3_##T(T w) { return etl::set_bit<3>(w); } \
  VF_E T reset_bit3_##T(T w) { return etl::reset_bit<3>(w); } \
  VF_E T flip_bit3_##T(T w) { return etl::flip_bit<3>(w); } \
  VF_E bool test_bit3_##T(T w) { return etl::test_bit<3>(w); }
VF_UNS(X)
#undef X

#define X(T) \
  VF_E T byteswap_##T(T x) { return etl::byteswap(x); } \
  VF_E T add_sat_##T(T x, T y) { return etl::add_sat(x, y); } \
  VF_E T add_sat_fb_##T(T x, T y) { return etl::detail::add_sat_fallback(x, y); } \
  VF_E T div_sat_##T(T x, T y) { return etl::div_sat(x, y); } \
  VF_E T midpoint_##T(T x, T y) { return etl::midpoint(x, y); } \
  VF_E T nabs_##T(T x) { return etl::abs<T>(x); } \
  VF_E T gcd_##T(T x, T y) { return etl::gcd(x, y); } \
  VF_E T lcm_##T(T x, T y) { return etl::lcm(x, y); } \
  VF_E T ilog2_##T(T x) { return etl::ilog2(x); } \
  VF_E T ipow_##T(T b, T e) { return etl::ipow(b, e); } \
  VF_E T ipow2_##T(T e) { return etl::ipow<T(2)>(e); } \
  VF_E T ipow0_##T(T e) { return etl::ipow<T(0)>(e); } \
  VF_E T ipow1_##T(T e) { return etl::ipow<T(1)>(e); } \
  VF_E T ipow3_##T(T e) { return etl::ipow<T(3)>(e); } \
  VF_E T ipow4_##T(T e) { return etl::ipow<T(4)>(e); } \
  VF_E T ipow10_##T(T e) { return etl::ipow<T(10)>(e); } \
  VF_E void idiv_##T(T x, T y, T* q, T* r) { auto res = etl::idiv(x, y); *q = res.quot; *r = res.rem; }
VF_UNS(X)
VF_SGN(X)
#undef X

// saturate_cast / cmp_* / in_range over mixed signedness and width
#define PAIRS(X) X(i8,u8) X(u8,i8) X(i8,i32) X(i32,i8) X(u8,i32) X(i32,u8) X(i16,u16) X(u16,i16) X(i32,u32) X(u32,i32) X(i64,u64) X(u64,i64) X(i32,i64) X(i64,i32) X(u32,i64) X(i64,u32) X(u64,i32) X(i32,u64) X(i16,i64) X(u64,u8) X(i32,i32) X(u32,u32) X(i64,i64) X(u64,u64) X(u16,u64) X(i8,u64) X(u64,i8)
#define X(A,B) \
  VF_E B saturate_cast_##A##_##B(A x) { return etl::saturate_cast<B>(x); } \
  VF_E bool cmp_equal_##A##_##B(A a, B b) { return etl::cmp_equal(a, b); } \
  VF_E bool cmp_not_equal_##A##_##B(A a, B b) { return etl::cmp_not_equal(a, b); } \
  VF_E bool cmp_less_##A##_##B(A a, B b) { return etl::cmp_less(a, b); } \
  VF_E bool cmp_greater_##A##_##B(A a, B b) { return etl::cmp_greater(a, b); } \
  VF_E bool cmp_less_equal_##A##_##B(A a, B b) { return etl::cmp_less_equal(a, b); } \
  VF_E bool cmp_greater_equal_##A##_##B(A a, B b) { return etl::cmp_greater_equal(a, b); } \
  VF_E bool in_range_##A##_##B(A a) { return etl::in_range<B>(a); }
PAIRS(X)
#undef X

VF_E int abs_int(int x) { return etl::abs(x); }
VF_E long abs_long(long x) { return etl::abs(x); }
VF_E long long abs_llong(long long x) { return etl::abs(x); }
VF_E int const* midpoint_ptr(int const* a, int const* b) { return etl::midpoint(a, b); }
}
