/* bits: lemma harnesses for C14 (every argument of the machine type is symbolic) and the two-path part of C13
 * (vf_ce is symbolic: the is_constant_evaluated() branch and the builtin branch must both meet the specification).
 * Specifications are written from [bit], [numeric.sat], [utility.intcmp], [numeric.ops.midpoint/gcd/lcm]. */
typedef unsigned char u8; typedef unsigned short u16; typedef unsigned int u32; typedef unsigned long long u64;
typedef signed char i8; typedef short i16; typedef int i32; typedef long long i64;

void _ZN3etl14assert_handlerINS_10assert_msgEEEvRKT_(struct etl_assert_msg *m)
{
#ifdef VF_NATIVE
    printf("REPLAY-HANDLER-UNEXPECTED line=%d\n", m->line); vf_exit();
#else
    __CPROVER_assert(0, "C05: assert_handler fired on an argument inside the documented domain");
    __CPROVER_assume(0);
#endif
}

#define MASK(w) ((w) == 64 ? ~0ULL : ((1ULL << (w)) - 1ULL))
static int s_popcount(u64 x, int w) { int c = 0; for (int i = 0; i < w; ++i) c += (int)((x >> i) & 1ULL); return c; }
static int s_clz(u64 x, int w) { int c = 0; for (int i = w - 1; i >= 0; --i) { if ((x >> i) & 1ULL) break; ++c; } return c; }
static int s_ctz(u64 x, int w) { int c = 0; for (int i = 0; i < w; ++i) { if ((x >> i) & 1ULL) break; ++c; } return c; }
static u64 s_rotl(u64 x, long long s, int w) { int r = (int)(((s % w) + w) % w); u64 o = 0; for (int i = 0; i < w; ++i) if ((x >> i) & 1ULL) o |= 1ULL << ((i + r) % w); return o; }
static u64 s_bswap(u64 x, int w) { u64 o = 0; for (int i = 0; i < w / 8; ++i) o |= ((x >> (8 * i)) & 0xFFULL) << (w - 8 - 8 * i); return o; }

#define CLAMP(v, lo, hi) ((v) < (lo) ? (lo) : ((v) > (hi) ? (hi) : (v)))
#define UMIN(T) ((vf_i128)0)
#define UMAX(W) ((vf_i128)MASK(W))
#define SMIN(W) (-((vf_i128)1 << ((W) - 1)))
#define SMAX(W) (((vf_i128)1 << ((W) - 1)) - 1)

#define LIM_u8_LO 0
#define LIM_u8_HI UMAX(8)
#define LIM_u16_LO 0
#define LIM_u16_HI UMAX(16)
#define LIM_u32_LO 0
#define LIM_u32_HI UMAX(32)
#define LIM_u64_LO 0
#define LIM_u64_HI UMAX(64)
#define LIM_i8_LO SMIN(8)
#define LIM_i8_HI SMAX(8)
#define LIM_i16_LO SMIN(16)
#define LIM_i16_HI SMAX(16)
#define LIM_i32_LO SMIN(32)
#define LIM_i32_HI SMAX(32)
#define LIM_i64_LO SMIN(64)
#define LIM_i64_HI SMAX(64)

static u64 s_gcd(u64 a, u64 b, int bound) { /* largest common divisor by downward search; 0 for (0,0) */
  if (a == 0) return b; if (b == 0) return a;
  u64 m = a < b ? a : b; u64 g = 1;
  for (int d = 1; d <= bound; ++d) if ((u64)d <= m && a % (u64)d == 0 && b % (u64)d == 0) g = (u64)d;
  return g; }

#define UNS(X) X(u8, 8) X(u16, 16) X(u32, 32) X(u64, 64)
#define SGN(X) X(i8, 8) X(i16, 16) X(i32, 32) X(i64, 64)
#define CE() VF_INPUT_BOOL(ce); vf_ce = ce

/*@GROUP name=popcount props=C14,C13,C02 kind=K unwind=66@*/
void h_popcount(void) { CE();
#define X(T, W) VF_INPUT(T, x_##T); VF_ASSERT(popcount_##T(x_##T) == s_popcount(x_##T, W), "popcount<" #T "> == number of one bits (both is_constant_evaluated paths)");
  UNS(X)
#undef X
  VF_REACH(); }

/*@GROUP name=countl props=C14,C13,C02 kind=K unwind=66@*/
void h_countl(void) { CE();
#define X(T, W) VF_INPUT(T, x_##T); VF_ASSERT(countl_zero_##T(x_##T) == s_clz(x_##T, W), "countl_zero<" #T "> == leading zero bits, width for 0"); \
                VF_ASSERT(countl_one_##T(x_##T) == s_clz((u64)(T)~x_##T, W), "countl_one<" #T "> == leading one bits"); \
                VF_ASSERT(bit_width_##T(x_##T) == W - s_clz(x_##T, W), "bit_width<" #T "> == 1 + floor(log2 x), 0 for 0");
  UNS(X)
#undef X
  VF_REACH(); }

/*@GROUP name=countr props=C14,C13,C02 kind=K unwind=66@*/
void h_countr(void) { CE();
#define X(T, W) VF_INPUT(T, x_##T); VF_ASSERT(countr_zero_##T(x_##T) == s_ctz(x_##T, W), "countr_zero<" #T "> == trailing zero bits, width for 0"); \
                VF_ASSERT(countr_one_##T(x_##T) == s_ctz((u64)(T)~x_##T, W), "countr_one<" #T "> == trailing one bits");
  UNS(X)
#undef X
  VF_REACH(); }

/*@GROUP name=pow2 props=C14,C13,C02 kind=K unwind=66@*/
void h_pow2(void) { CE();
#define X(T, W) VF_INPUT(T, x_##T); { T x = x_##T; \
    VF_ASSERT(has_single_bit_##T(x) == (x != 0 && (x & (T)(x - 1)) == 0), "has_single_bit<" #T "> iff x is a power of two"); \
    T f = bit_floor_##T(x); \
    VF_ASSERT(x == 0 ? f == 0 : ((f & (T)(f - 1)) == 0 && f != 0 && f <= x && (T)(x - f) < f), "bit_floor<" #T "> == largest power of two <= x, 0 for 0"); \
    if ((u64)x <= (1ULL << (W - 1))) { T c = bit_ceil_##T(x); \
      VF_ASSERT(c != 0 && (c & (T)(c - 1)) == 0 && c >= x && (x <= 1 ? c == 1 : (T)(c - x) < x), "bit_ceil<" #T "> == smallest power of two >= x (x representable)"); } }
  UNS(X)
#undef X
  VF_REACH(); }

/*@GROUP name=rot props=C14,C13,C02 kind=K unwind=66@*/
void h_rot(void) { VF_INPUT(int, s);
#define X(T, W) VF_INPUT(T, x_##T); VF_ASSERT(rotl_##T(x_##T, s) == (T)s_rotl(x_##T, s, W), "rotl<" #T ">(x,s): bit i moves to (i+s) mod width, any int s incl. negative and >= width"); \
                VF_ASSERT(rotr_##T(x_##T, s) == (T)s_rotl(x_##T, -(long long)s, W), "rotr<" #T ">(x,s) == rotl(x,-s)");
  UNS(X)
#undef X
  VF_REACH(); }

/*@GROUP name=bitops props=C14,C13,C02 kind=F@*/
void h_bitops(void) { VF_INPUT_BOOL(v);
#define X(T, W) VF_INPUT(T, w_##T); VF_INPUT(T, p_##T); __CPROVER_assume(p_##T < W); { T w = w_##T, p = p_##T; T m = (T)((T)1 << p); \
    VF_ASSERT(set_bit_##T(w, p) == (T)(w | m), "set_bit<" #T ">: bit p set, every other bit unchanged"); \
    VF_ASSERT(set_bit_v_##T(w, p, v) == (T)(v ? (w | m) : (w & (T)~m)), "set_bit<" #T ">(w,p,v): bit p == v, every other bit unchanged"); \
    VF_ASSERT(reset_bit_##T(w, p) == (T)(w & (T)~m), "reset_bit<" #T ">: bit p cleared, every other bit unchanged"); \
    VF_ASSERT(flip_bit_##T(w, p) == (T)(w ^ m), "flip_bit<" #T ">: bit p inverted, every other bit unchanged"); \
    VF_ASSERT(test_bit_##T(w, p) == ((w & m) != 0), "test_bit<" #T "> == bit p"); \
    VF_ASSERT(set_bit3_##T(w) == (T)(w | 8) && reset_bit3_##T(w) == (T)(w & (T)~8) && flip_bit3_##T(w) == (T)(w ^ 8) && test_bit3_##T(w) == ((w & 8) != 0), "static-position forms <3> agree"); }
  UNS(X)
#undef X
  VF_REACH(); }

/*@GROUP name=byteswap props=C14,C13,C02 kind=K unwind=10@*/
void h_byteswap(void) { CE();
#define X(T, W) VF_INPUT(T, x_##T); VF_ASSERT((u64)(T)byteswap_##T(x_##T) == ((W) == 8 ? (u64)(T)x_##T : (s_bswap((u64)x_##T & MASK(W), W))) , "byteswap<" #T "> reverses the bytes"); \
                VF_ASSERT(byteswap_##T(byteswap_##T(x_##T)) == x_##T, "byteswap<" #T "> is an involution");
  UNS(X)
#undef X
#define X(T, W) VF_INPUT(T, y_##T); VF_ASSERT(((u64)byteswap_##T(y_##T) & MASK(W)) == ((W) == 8 ? ((u64)y_##T & MASK(W)) : s_bswap((u64)y_##T & MASK(W), W)), "byteswap<" #T "> (signed) reverses the bytes");
  SGN(X)
#undef X
  VF_REACH(); }

/*@GROUP name=add_sat props=C14,C13,C02 kind=F@*/
void h_add_sat(void) {
#define X(T, W) VF_INPUT(T, x_##T); VF_INPUT(T, y_##T); { vf_i128 e = (vf_i128)x_##T + (vf_i128)y_##T; e = CLAMP(e, UMIN(T), UMAX(W)); \
    VF_ASSERT((vf_i128)add_sat_##T(x_##T, y_##T) == e, "add_sat<" #T "> == clamp(x+y) computed exactly"); \
    VF_ASSERT((vf_i128)add_sat_fb_##T(x_##T, y_##T) == e, "add_sat_fallback<" #T "> (portable path) == clamp(x+y) computed exactly"); }
  UNS(X)
#undef X
#define X(T, W) VF_INPUT(T, x_##T); VF_INPUT(T, y_##T); { vf_i128 e = (vf_i128)x_##T + (vf_i128)y_##T; e = CLAMP(e, SMIN(W), SMAX(W)); \
    VF_ASSERT((vf_i128)add_sat_##T(x_##T, y_##T) == e, "add_sat<" #T "> == clamp(x+y) computed exactly"); \
    VF_ASSERT((vf_i128)add_sat_fb_##T(x_##T, y_##T) == e, "add_sat_fallback<" #T "> (portable path) == clamp(x+y) computed exactly"); }
  SGN(X)
#undef X
  VF_REACH(); }

/*@GROUP name=div_sat props=C14,C13,C02 kind=F@*/
void h_div_sat(void) {   /* 8-bit: every (x, y) pair */
  VF_INPUT(u8, x); VF_INPUT(u8, y); __CPROVER_assume(y != 0); VF_ASSERT(div_sat_u8(x, y) == (u8)(x / y), "div_sat<u8> == x / y");
  VF_INPUT(i8, a); VF_INPUT(i8, b); __CPROVER_assume(b != 0); VF_ASSERT(div_sat_i8(a, b) == (i8)((a == -128 && b == -1) ? 127 : a / b), "div_sat<i8> == x / y, MIN / -1 saturates to MAX");
  VF_REACH(); }

/*@GROUP name=div_sat_w props=C14,C02 kind=B bound=|divisor|<=16-or-MIN/-1 cost=3 tier=thorough solver=kissat timeout=1500@*/
void h_div_sat_w(void) {  /* wider types: a second symbolic divider of the same width is SAT-hard, so the divisor is windowed; MIN / -1 is inside the window */
#define X(T, W) VF_INPUT(T, x_##T); VF_INPUT(T, y_##T); __CPROVER_assume(y_##T != 0 && y_##T <= 16); VF_ASSERT(div_sat_##T(x_##T, y_##T) == (T)(x_##T / y_##T), "div_sat<" #T "> == x / y (unsigned, divisor <= 16)");
  X(u16, 16) X(u32, 32) X(u64, 64)
#undef X
#define X(T, W) VF_INPUT(T, x_##T); VF_INPUT(T, y_##T); __CPROVER_assume(y_##T != 0 && y_##T >= -16 && y_##T <= 16); { T e; if (x_##T == (T)SMIN(W) && y_##T == -1) e = (T)SMAX(W); else e = (T)(x_##T / y_##T); \
    VF_ASSERT(div_sat_##T(x_##T, y_##T) == e, "div_sat<" #T "> == x / y, MIN / -1 saturates to MAX (|divisor| <= 16)"); }
  X(i16, 16) X(i32, 32) X(i64, 64)
#undef X
  VF_REACH(); }

/*@GROUP name=midpoint props=C14,C13,C02 kind=F@*/
void h_midpoint(void) {
#define X(T, W) VF_INPUT(T, a_##T); VF_INPUT(T, b_##T); { vf_i128 d = (vf_i128)b_##T - (vf_i128)a_##T; \
    VF_ASSERT((vf_i128)midpoint_##T(a_##T, b_##T) == (vf_i128)a_##T + d / 2, "midpoint<" #T "> == a + (b-a)/2 rounded towards a, no overflow"); }
  UNS(X) SGN(X)
#undef X
  VF_REACH(); }

/*@GROUP name=midpoint_ptr props=C14,C02 kind=F@*/
void h_midpoint_ptr(void) { VF_INPUT(u8, i); VF_INPUT(u8, j); VF_INPUT_ARR(int, arr, 200); __CPROVER_assume(i <= 200 && j <= 200);
  const int *m = midpoint_ptr(&arr[i], &arr[j]);
  VF_ASSERT(m == &arr[0] + ((int)i + ((int)j - (int)i) / 2), "midpoint(pointer) == a + (b-a)/2 rounded towards a");
  VF_REACH(); }

/*@GROUP name=abs props=C14,C13,C02 kind=F@*/
void h_abs(void) {
#define X(T, W) VF_INPUT(T, x_##T); __CPROVER_assume(x_##T != (T)SMIN(W)); VF_ASSERT(nabs_##T(x_##T) == (T)(x_##T < 0 ? -x_##T : x_##T), "abs<" #T "> == |x| (x != MIN)");
  SGN(X)
#undef X
#define X(T, W) VF_INPUT(T, x_##T); VF_ASSERT(nabs_##T(x_##T) == x_##T, "abs<" #T "> is the identity on unsigned");
  UNS(X)
#undef X
  VF_INPUT(int, a); __CPROVER_assume(a != (int)SMIN(32)); VF_ASSERT(abs_int(a) == (a < 0 ? -a : a), "abs(int)");
  VF_INPUT(long, b); __CPROVER_assume(b != (long)SMIN(64)); VF_ASSERT(abs_long(b) == (b < 0 ? -b : b), "abs(long)");
  VF_INPUT(long long, c); __CPROVER_assume(c != (long long)SMIN(64)); VF_ASSERT(abs_llong(c) == (c < 0 ? -c : c), "abs(long long)");
  VF_REACH(); }

/*@GROUP name=idiv props=C14,C13,C02 kind=F@*/
void h_idiv(void) {   /* 8-bit: every (x, y) pair */
  VF_INPUT(u8, x); VF_INPUT(u8, y); __CPROVER_assume(y != 0); { u8 q, r; idiv_u8(x, y, &q, &r); VF_ASSERT(q == (u8)(x / y) && r == (u8)(x % y), "idiv<u8> == {x / y, x % y}"); }
  VF_INPUT(i8, a); VF_INPUT(i8, b); __CPROVER_assume(b != 0 && !(a == -128 && b == -1)); { i8 q, r; idiv_i8(a, b, &q, &r); VF_ASSERT(q == (i8)(a / b) && r == (i8)(a % b), "idiv<i8> == {x / y, x % y} (truncation, remainder has the sign of x)"); }
  VF_REACH(); }

/* wide idiv: idiv is the one-liner {x / y, x % y}; two symbolic dividers side by side (the code's and the specification's) are
 * SAT-hard at 32/64 bits (1500 s were not enough, also not with a constant divisor), so the wide instantiations are checked on a
 * value window and at the type limits; the 8-bit instantiations above cover the full domain of the same expression. */
/*@GROUP name=idiv_w props=C14,C02 kind=B bound=|x|<4096,|divisor|<=64 cost=3 tier=thorough solver=kissat timeout=900@*/
void h_idiv_w(void) {
#define X(T, W) { VF_INPUT(T, x_##T); VF_INPUT(T, y_##T); __CPROVER_assume(y_##T != 0 && y_##T <= 64 && x_##T < 4096); T q, r; idiv_##T(x_##T, y_##T, &q, &r); \
    VF_ASSERT(q == (T)(x_##T / y_##T) && r == (T)(x_##T % y_##T), "idiv<" #T "> == {x / y, x % y} (window)"); }
  X(u16, 16) X(u32, 32) X(u64, 64)
#undef X
#define X(T, W) { VF_INPUT(T, x_##T); VF_INPUT(T, y_##T); __CPROVER_assume(y_##T != 0 && y_##T >= -64 && y_##T <= 64 && x_##T > -4096 && x_##T < 4096); T q, r; idiv_##T(x_##T, y_##T, &q, &r); \
    VF_ASSERT(q == (T)(x_##T / y_##T) && r == (T)(x_##T % y_##T), "idiv<" #T "> == {x / y, x % y} (window)"); }
  X(i16, 16) X(i32, 32) X(i64, 64)
#undef X
  VF_REACH(); }
/*@GROUP name=idiv_limits props=C14,C02 kind=F tier=thorough@*/
void h_idiv_limits(void) { VF_INPUT_BOOL(neg); VF_INPUT_BOOL(lo);
#define X(T, W) { T x = (T)UMAX(W); T y = (T)7; T q, r; idiv_##T(x, y, &q, &r); VF_ASSERT(q == (T)(x / y) && r == (T)(x % y), "idiv<" #T "> at the type limit"); }
  X(u16, 16) X(u32, 32) X(u64, 64)
#undef X
#define X(T, W) { T x = lo ? (T)SMIN(W) : (T)SMAX(W); T y = neg ? (T)-7 : (T)7; T q, r; idiv_##T(x, y, &q, &r); VF_ASSERT(q == (T)(x / y) && r == (T)(x % y), "idiv<" #T "> at the type limits"); }
  X(i16, 16) X(i32, 32) X(i64, 64)
#undef X
  VF_REACH(); }

/*@GROUP name=ilog2 props=C14,C13,C02 kind=K unwind=66@*/
void h_ilog2(void) {
#define X(T, W) VF_INPUT(T, x_##T); __CPROVER_assume(x_##T >= 1); VF_ASSERT((int)ilog2_##T(x_##T) == W - 1 - s_clz((u64)x_##T & MASK(W), W), "ilog2<" #T "> == floor(log2 x) for x >= 1");
  UNS(X) SGN(X)
#undef X
  VF_REACH(); }

/*@GROUP name=ipow8 props=C14,C13,C02 kind=K unwind=10@*/
void h_ipow8(void) {
  /* exact result representable: checked in 128 bits; exponent small enough to unwind completely for 8-bit results */
#define X(T, W, LO, HI) VF_INPUT(T, b_##T); VF_INPUT(T, e_##T); __CPROVER_assume(e_##T >= 0 && e_##T <= 8); { vf_i128 r = 1; _Bool fits = 1; \
      for (int i = 0; i < 8; ++i) if (i < e_##T) { r *= b_##T; if (r < (LO) || r > (HI)) fits = 0; } \
      if (fits) VF_ASSERT((vf_i128)ipow_##T(b_##T, e_##T) == r, "ipow<" #T ">(b,e) == b^e when every partial product is representable"); }
  X(u8, 8, 0, 255) X(i8, 8, -128, 127)
#undef X
  VF_INPUT(u8, e2); __CPROVER_assume(e2 < 8); VF_ASSERT(ipow2_u8(e2) == (u8)(1u << e2), "ipow<2>(e) == 2^e");
  VF_INPUT(u32, e3); __CPROVER_assume(e3 < 32); VF_ASSERT(ipow2_u32(e3) == (1u << e3), "ipow<2>(e) == 2^e (u32)");
  VF_INPUT(u64, e4); __CPROVER_assume(e4 < 64); VF_ASSERT(ipow2_u64(e4) == (1ULL << e4), "ipow<2>(e) == 2^e (u64)");
  VF_REACH(); }

/* ipow<Base>(e) with the base as a template argument: every base must agree with the run-time ipow(Base, e) = Base^e (the Base == 2
 * shift path is only one of them) */
/*@GROUP name=ipow_tbase props=C14,C13,C02 kind=K unwind=34@*/
void h_ipow_tbase(void) { VF_INPUT(u8, e); VF_INPUT(u32, f); __CPROVER_assume(e <= 7 && f <= 31);
#define PW(b, x, T) ({ T r_ = 1; for (unsigned i_ = 0; i_ < 32; ++i_) if (i_ < (x)) r_ = (T)(r_ * (T)(b)); r_; })
  VF_ASSERT(ipow0_u8(e) == (u8)(e == 0 ? 1 : 0) && ipow0_u32(f) == (f == 0 ? 1u : 0u) && ipow0_i32((i32)f) == (f == 0 ? 1 : 0), "ipow<0>(e) == 0^e (1 for e == 0)");
  VF_ASSERT(ipow1_u8(e) == 1 && ipow1_u32(f) == 1u && ipow1_i32((i32)f) == 1, "ipow<1>(e) == 1");
  if (e <= 5) VF_ASSERT(ipow3_u8(e) == PW(3, e, u8), "ipow<3>(e) == 3^e (u8)");
  if (f <= 20) VF_ASSERT(ipow3_u32(f) == PW(3, f, u32), "ipow<3>(e) == 3^e (u32)");
  if (e <= 3) VF_ASSERT(ipow4_u8(e) == PW(4, e, u8), "ipow<4>(e) == 4^e (u8)");
  if (f <= 15) VF_ASSERT(ipow4_u32(f) == PW(4, f, u32), "ipow<4>(e) == 4^e (u32)");
  if (f <= 9) VF_ASSERT(ipow10_u32(f) == PW(10, f, u32) && ipow10_i32((i32)f) == (i32)PW(10, f, u32), "ipow<10>(e) == 10^e");
  VF_REACH(); }

/*@GROUP name=gcd_u8 props=C14,C02 kind=K unwind=260 cost=8 timeout=600@*/
void h_gcd_u8(void) { VF_INPUT(u8, m); VF_INPUT(u8, n);
  u8 g = gcd_u8(m, n);
  VF_ASSERT(g == (u8)s_gcd(m, n, 255), "gcd<u8> == greatest common divisor; gcd(0,0) == 0");
  VF_REACH(); }

/*@GROUP name=gcd_i8 props=C14,C02 kind=K unwind=130 cost=8 timeout=600@*/
void h_gcd_i8(void) { VF_INPUT(i8, m); VF_INPUT(i8, n); __CPROVER_assume(m != -128 && n != -128);
  VF_KNOWN(C14_gcd_negative, m < 0 || n < 0);
  i8 g = gcd_i8(m, n);
  VF_ASSERT(g == (i8)s_gcd((u64)(m < 0 ? -m : m), (u64)(n < 0 ? -n : n), 127), "gcd<i8> == greatest common divisor of |m| and |n|");
  VF_REACH(); }

/*@GROUP name=lcm_u8 props=C14,C02 kind=K unwind=260 cost=8 timeout=600@*/
void h_lcm_u8(void) { VF_INPUT(u8, m); VF_INPUT(u8, n);
  u64 g = s_gcd(m, n, 255); u64 e = g ? ((u64)m / g) * (u64)n : 0;
  __CPROVER_assume(e <= 255);          /* result representable */
  if (m != 0 && n != 0) VF_ASSERT(lcm_u8(m, n) == (u8)e, "lcm<u8> == least common multiple when representable");
  VF_REACH(); }

/*@GROUP name=intcmp props=C14,C13,C02 kind=F@*/
void h_intcmp(void) {
#define X(A, B) VF_INPUT(A, a_##A##_##B); VF_INPUT(B, b_##A##_##B); { vf_i128 a = (vf_i128)a_##A##_##B, b = (vf_i128)b_##A##_##B; \
    VF_ASSERT(cmp_equal_##A##_##B(a_##A##_##B, b_##A##_##B) == (a == b), "cmp_equal<" #A "," #B "> compares mathematical values"); \
    VF_ASSERT(cmp_not_equal_##A##_##B(a_##A##_##B, b_##A##_##B) == (a != b), "cmp_not_equal<" #A "," #B ">"); \
    VF_ASSERT(cmp_less_##A##_##B(a_##A##_##B, b_##A##_##B) == (a < b), "cmp_less<" #A "," #B ">"); \
    VF_ASSERT(cmp_greater_##A##_##B(a_##A##_##B, b_##A##_##B) == (a > b), "cmp_greater<" #A "," #B ">"); \
    VF_ASSERT(cmp_less_equal_##A##_##B(a_##A##_##B, b_##A##_##B) == (a <= b), "cmp_less_equal<" #A "," #B ">"); \
    VF_ASSERT(cmp_greater_equal_##A##_##B(a_##A##_##B, b_##A##_##B) == (a >= b), "cmp_greater_equal<" #A "," #B ">"); }
  X(i8,u8) X(u8,i8) X(i8,i32) X(i32,i8) X(u8,i32) X(i32,u8) X(i16,u16) X(u16,i16) X(i32,u32) X(u32,i32) X(i64,u64) X(u64,i64) X(i32,i64) X(i64,i32) X(u32,i64) X(i64,u32) X(u64,i32) X(i32,u64) X(i16,i64) X(u64,u8) X(i32,i32) X(u32,u32) X(i64,i64) X(u64,u64) X(u16,u64) X(i8,u64) X(u64,i8)
#undef X
  VF_REACH(); }

/*@GROUP name=saturate_cast props=C14,C13,C02 kind=F@*/
void h_saturate_cast(void) {
#define X(A, B) VF_INPUT(A, a_##A##_##B); { vf_i128 a = (vf_i128)a_##A##_##B; vf_i128 e = CLAMP(a, LIM_##B##_LO, LIM_##B##_HI); \
    VF_ASSERT((vf_i128)saturate_cast_##A##_##B(a_##A##_##B) == e, "saturate_cast<" #B ">(" #A ") == value clamped to the target range"); \
    VF_ASSERT(in_range_##A##_##B(a_##A##_##B) == (a >= LIM_##B##_LO && a <= LIM_##B##_HI), "in_range<" #B ">(" #A ") iff representable"); }
  X(i8,u8) X(u8,i8) X(i8,i32) X(i32,i8) X(u8,i32) X(i32,u8) X(i16,u16) X(u16,i16) X(i32,u32) X(u32,i32) X(i64,u64) X(u64,i64) X(i32,i64) X(i64,i32) X(u32,i64) X(i64,u32) X(u64,i32) X(i32,u64) X(i16,i64) X(u64,u8) X(i32,i32) X(u32,u32) X(i64,i64) X(u64,u64) X(u16,u64) X(i8,u64) X(u64,i8)
#undef X
  VF_REACH(); }
