#!/usr/bin/env python3
"""regenerate MANIFEST.json from vflib/props.py and the families present under fam/ (a property is claimed only when at least one
obligation group is registered for it)"""
import json, os, sys
ROOT = os.path.dirname(os.path.dirname(os.path.abspath(__file__)))
sys.path.insert(0, ROOT)
from vflib import engine, props

fams = engine.all_families()
claimed = sorted(set(p for f in fams for g in f.groups for p in g.props if p in props.PROPS))
checks = []
for p in claimed:
    m = props.PROPS[p]
    checks.append({
        "property_id": p, "quick_cmd": "./check %s --tier quick" % p, "thorough_cmd": "./check %s --tier thorough" % p,
        "evidence_file": "evidence/%s.json" % p, "replay_cmd_template": "./check --replay {path}", "engine": "cxx2c+cbmc",
        "level_claimed": {"category": "proof", "text": m["level"], "design_ref": m["design_ref"]},
        "level_note": m["note"], "technique": props.TECH,
    })
na = list(props.NOT_APPLICABLE)
for p in sorted(props.PROPS):
    if p not in claimed:
        na.append({"property_id": p, "reason": "no obligation group is registered for this property in the committed tree yet (see DESIGN.md)"})
man = {
    "version": 1,
    "setup_cmd": "sh tools/cxx2c/build.sh",
    "hooks": {"guard": "TOBANTEEMBEDDED_TETL_VERIF",
              "enable": "no hooks are needed: contracts are sidecar files woven into the C lowered from /repo on every run; the guard is only defined on the lowering command line",
              "baseline_off_cmd": "cmake --build /repo/_build -j16 && ctest --test-dir /repo/_build -j8 --timeout 900",
              "source_commits": [], "add_only": True},
    "engines": [{"name": "cxx2c+cbmc", "path": "check", "serves_properties": claimed,
                 "kind_free_text": "clang-14 libTooling lowering of the instantiated tetl code to C (tools/cxx2c), sidecar CBMC contracts (goto-instrument --dfcc) and full-domain lemma harnesses (fam/*), triage, native replay and co-execution against g++ object code (vflib/engine.py)"}],
    "checks": checks, "not_applicable": na,
    "notes": "exit 0: every obligation generated from /repo's current tree discharged (KNOWN-FINDING lines for listed findings); exit 1: VIOLATION; exit 2: UNDECIDED (timeouts, lowering/weaving aborts, co-execution mismatch) — never a violation. See DESIGN.md.",
}
json.dump(man, open(os.path.join(ROOT, "MANIFEST.json"), "w"), indent=1)
print("claimed:", " ".join(claimed))
