#!/usr/bin/env python3
"""prints the markdown tables for DESIGN.md section 14 from known_findings.txt, seeded/*/meta.json and evidence/*.json"""
import json, os, re, glob
ROOT = os.path.dirname(os.path.dirname(os.path.abspath(__file__)))
print("#### Findings on the pinned tree\n")
print("| property | id | status | what fails |\n|---|---|---|---|")
for l in open(os.path.join(ROOT, "known_findings.txt")):
    m = re.match(r"known:\s*property=(\S+)\s+id=(\S+)\s+(?:also=(\S+)\s+)?::\s*(.*)$", l.strip())
    if m:
        print("| %s%s | `%s` | known finding | %s |" % (m.group(1), (" (+" + m.group(3) + ")") if m.group(3) else "", m.group(2), m.group(4).replace("|", "\\|")))
    m = re.match(r"fixed:\s*property=(\S+)\s+(\S+)\s+(.*?)(?:\s*\[id=(\S+)\])?$", l.strip())
    if m:
        print("| %s | `%s` | **fixed** in %s | %s |" % (m.group(1), m.group(4) or "-", m.group(2), m.group(3).replace("|", "\\|")))
print("\n#### Seeded changes (independent sub-agents; each confirmed: applies, 261/261 tests pass, demonstration fails with / passes without)\n")
print("| id | breaks | file(s) changed | needs | detected by | obligation that fails |\n|---|---|---|---|---|---|")
for mp in sorted(glob.glob(os.path.join(ROOT, "seeded", "*", "meta.json"))):
    d = json.load(open(mp)); i = d["id"]
    patch = open(os.path.join(os.path.dirname(mp), "patch.diff")).read()
    files = ", ".join(sorted(set(re.findall(r"^\+\+\+ b/include/etl/(\S+)", patch, re.M))))
    st = d.get("selftest", {})
    runs = st.get("runs", [])
    det = "; ".join("%s %s" % (r["check"], "VIOLATION" if r["exit"] == 1 else ("UNDECIDED" if r["exit"] == 2 else "missed")) for r in runs) or "not run"
    ob = ""
    for r in runs:
        if r.get("violation"):
            ob = os.path.basename(r["violation"].split("replay=")[1].split()[0]).replace(".json", "") + (" (no-failing-input-found)" if "no-failing-input-found" in r["violation"] else " (replayed natively)")
    print("| `%s` | %s | %s | %s | %s | %s |" % (i, d["property"], files, d.get("needs", "").replace("|", "\\|"), det, ob))
