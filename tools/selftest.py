#!/usr/bin/env python3
"""Seeded-mutant self-test: every change kept under /verif/seeded/<id>/ (patch.diff + meta.json) is applied to a scratch copy of
/repo's include tree and the check of the property it breaks must report a VIOLATION (exit 1).  /repo itself is never touched.

usage: tools/selftest.py [id ...] [--tier quick|thorough] [--jobs N]
prints one line per mutant:  KILLED / SURVIVED / UNDECIDED  and exits 0 iff every mutant was killed.
"""
import json, os, shutil, subprocess, sys, time

ROOT = os.path.dirname(os.path.dirname(os.path.abspath(__file__)))
REPO = os.environ.get("VF_REPO", "/repo")


def main():
    args = [a for a in sys.argv[1:] if not a.startswith("--")]
    tier = "quick"
    if "--tier" in sys.argv:
        tier = sys.argv[sys.argv.index("--tier") + 1]
        args = [a for a in args if a != tier]
    sd = os.path.join(ROOT, "seeded")
    ids = args or sorted(d for d in os.listdir(sd) if os.path.exists(os.path.join(sd, d, "meta.json")))
    bad = 0
    for i in ids:
        meta = json.load(open(os.path.join(sd, i, "meta.json")))
        scratch = os.path.join(ROOT, ".work", "mut_" + i)
        shutil.rmtree(scratch, ignore_errors=True)
        os.makedirs(scratch)
        shutil.copytree(os.path.join(REPO, "include"), os.path.join(scratch, "include"))
        p = subprocess.run(["patch", "-p1", "-s", "-d", scratch, "-i", os.path.join(sd, i, "patch.diff")], stdout=subprocess.PIPE, stderr=subprocess.STDOUT)
        if p.returncode != 0:
            print("%-28s PATCH-FAILED %s" % (i, p.stdout.decode()[-200:].replace("\n", " ")))
            bad += 1
            continue
        t0 = time.time()
        verdicts = []
        for prop in meta["detected_by"] if "detected_by" in meta else [meta["property"]]:
            cmd = [os.path.join(ROOT, "check"), prop, "--tier", tier, "--quiet", "--no-evidence"]
            for k in ("family", "group"):
                if meta.get("check_" + k):
                    cmd += ["--" + k, meta["check_" + k]]
            env = dict(os.environ, VF_REPO=scratch, VF_COEXEC="all" if meta.get("needs_coexec") else "none", VF_REPLAY_DIR=os.path.join(scratch, "replays"))
            r = subprocess.run(cmd, cwd=ROOT, stdout=subprocess.PIPE, stderr=subprocess.PIPE, env=env)
            out = r.stdout.decode()
            v = [l for l in out.splitlines() if l.startswith("VIOLATION")]
            verdicts.append((prop, r.returncode, v))
        killed = any(rc == 1 and v for _, rc, v in verdicts)
        und = any(rc == 2 for _, rc, v in verdicts)
        status = "KILLED" if killed else ("UNDECIDED" if und else "SURVIVED")
        if not killed:
            bad += 1
        meta["selftest"] = {"status": status, "tier": tier, "seconds": round(time.time() - t0),
                            "runs": [{"check": p_, "exit": rc, "violation": (v[0] if v else None)} for p_, rc, v in verdicts]}
        json.dump(meta, open(os.path.join(sd, i, "meta.json"), "w"), indent=1)
        print("%-28s %-9s %5.0fs  %s" % (i, status, time.time() - t0, "; ".join("%s rc=%d %s" % (p_, rc, (v[0].split("replay=")[1] if v else "")) for p_, rc, v in verdicts)))
        shutil.rmtree(scratch, ignore_errors=True)
    sys.exit(1 if bad else 0)


main()
