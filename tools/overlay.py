#!/usr/bin/env python3
"""Copy /repo/include to a scratch overlay and apply the clang-14 compatibility rewrites (DESIGN 4.3).

Every rewrite is type-level only, is logged, and is skip-if-already-fixed / abort-if-context-changed.
usage: overlay.py <repo-include-dir> <dest-dir> [--nt]
exit 0 ok, exit 2 when a rewrite site no longer looks like either the old or the fixed form.
"""
import os, re, shutil, sys


def die(msg):
    sys.stderr.write("overlay: " + msg + "\n")
    sys.exit(2)


# (file, old regex, replacement, regex that says "already fine")
REWRITES = [
    ("etl/_bitset/bitset.hpp",
     r"using reference = basic_bitset<Bits, etl::size_t>::reference;",
     r"using reference = typename basic_bitset<Bits, etl::size_t>::reference;",
     r"using reference = typename basic_bitset<Bits, etl::size_t>::reference;"),
    ("etl/_iterator/projected.hpp",
     r"using projected = etl::detail::projected_impl<Iter, Proj>::type;",
     r"using projected = typename etl::detail::projected_impl<Iter, Proj>::type;",
     r"using projected = typename etl::detail::projected_impl<Iter, Proj>::type;"),
    ("etl/_variant/visit.hpp",
     r"if \(etl::tuple\(index\(vs\)\.\.\.\) == etl::tuple\(Is\.\.\.\)\)",
     r"if (etl::tuple<decltype(index(vs))...>(index(vs)...) == etl::tuple<decltype(Is)...>(Is...))",
     r"etl::tuple<decltype\(index\(vs\)\)\.\.\.>"),
    ("etl/_tuple/tuple_cat.hpp",
     r"return etl::tuple\{get<Is>\(etl::forward<Result>\(result\)\)\.\.\.\};",
     r"return etl::tuple<etl::decay_t<decltype(get<Is>(etl::forward<Result>(result)))>...>{get<Is>(etl::forward<Result>(result))...};",
     r"etl::tuple<etl::decay_t<decltype\(get<Is>"),
    ("etl/_tuple/tuple.hpp",
     r"auto get_type\(etl::index_constant<I> ic\) -> decltype\(_impl\.get_type\(ic\)\);",
     r"auto get_type(etl::index_constant<I> ic) -> decltype(etl::declval<etl::conditional_t<(I < 0xffffffff), decltype(_impl)&, void>>().get_type(ic));",
     r"etl::declval<etl::conditional_t<\(I < 0xffffffff\)"),
]

# Compiler selection: the lowering front end is clang 14, the pinned baseline is built with GCC 12.  Where tetl chooses between a
# compiler builtin (clang) and its own portable code (GCC), the overlay selects the GCC branch, i.e. the code the baseline runs.
# (file glob, regex, replacement); zero hits means there is no compiler switch left to select (logged).
import glob
GCC_BRANCH = [
    ("etl/_cstring/*.hpp", r"#if defined\(__clang__\)", "#if 0 /* overlay: GCC branch */"),
    ("etl/_cwchar/*.hpp", r"#if defined\(__clang__\)", "#if 0 /* overlay: GCC branch */"),
    ("etl/_cmath/signbit.hpp", r"and not defined\(TETL_COMPILER_CLANG\)", "and not 0 /* overlay: GCC branch */"),
    # A condition that EXCLUDES the baseline compiler ("... and not defined(TETL_COMPILER_GCC)") is evaluated as GCC evaluates it, so
    # that the branch GCC compiles is the one that is lowered.  (The positive form "or defined(TETL_COMPILER_GCC)" guards GCC-only
    # builtins that clang 14 does not have and cannot be selected; such code is reached by the co-execution only.)
    ("etl/_*/*.hpp", r"not defined\(TETL_COMPILER_GCC\)", "not 1 /* overlay: GCC identity */"),
    ("etl/_*/*.hpp", r"!\s*defined\(TETL_COMPILER_GCC\)", "!1 /* overlay: GCC identity */"),
]

# P0848 emulation for drivers that instantiate these with a non-trivially-destructible type
NT = [
    ("etl/_variant/variant.hpp", r"\n[ \t]*~variant\(\)\s*requires\(\.\.\. and is_trivially_destructible_v<Ts>\)\s*= default;"),
    ("etl/_variant/variadic_union.hpp",
     r"\n[ \t]*constexpr ~variadic_union\(\)\s*requires\(is_trivially_destructible_v<T> and \.\.\. and is_trivially_destructible_v<Ts>\)\s*= default;"),
    ("etl/_inplace_vector/inplace_vector.hpp", r"\n[ \t]*~inplace_vector\(\)\s*requires etl::is_trivially_destructible_v<T>\s*= default;"),
]


def main():
    if len(sys.argv) < 3:
        die("usage")
    src, dst = sys.argv[1], sys.argv[2]
    nt = "--nt" in sys.argv[3:]
    if os.path.exists(dst):
        shutil.rmtree(dst)
    shutil.copytree(src, dst)
    log = []
    for f, old, new, fine in REWRITES:
        p = os.path.join(dst, f)
        if not os.path.exists(p):
            die("missing " + f)
        t = open(p).read()
        if re.search(fine, t) and not re.search(old, t):
            log.append("skip(already fine) " + f)
            continue
        n = len(re.findall(old, t))
        if n != 1:
            die("rewrite context changed in %s (%d matches)" % (f, n))
        t = re.sub(old, lambda m: new, t)
        open(p, "w").write(t)
        log.append("rewrote " + f)
    for pat_glob, old, new in GCC_BRANCH:
        hits = 0
        for p in sorted(glob.glob(os.path.join(dst, pat_glob))):
            t = open(p).read()
            n = len(re.findall(old, t))
            if n:
                open(p, "w").write(re.sub(old, lambda m: new, t))
                hits += n
        log.append("GCC branch selected at %d site(s) in %s" % (hits, pat_glob))
    if nt:
        for f, pat in NT:
            p = os.path.join(dst, f)
            t = open(p).read()
            n = len(re.findall(pat, t))
            if n != 1:
                die("NT rewrite context changed in %s (%d matches)" % (f, n))
            t = re.sub(pat, "", t)
            open(p, "w").write(t)
            log.append("NT: dropped constrained defaulted destructor in " + f)
    open(os.path.join(dst, "OVERLAY.log"), "w").write("\n".join(log) + "\n")


if __name__ == "__main__":
    main()
