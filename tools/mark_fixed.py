#!/usr/bin/env python3
"""usage: mark_fixed.py <commit> <finding id> [<finding id> ...]
rewrites the `known:` line of each id in known_findings.txt into a `fixed:` line (which suppresses nothing)."""
import re, sys, os
ROOT = os.path.dirname(os.path.dirname(os.path.abspath(__file__)))
p = os.path.join(ROOT, "known_findings.txt")
commit, ids = sys.argv[1], sys.argv[2:]
out, done = [], set()
for ln in open(p):
    m = re.match(r"known:\s*property=(\S+)\s+id=(\S+)\s+(?:also=(\S+)\s+)?::\s*(.*)$", ln.rstrip("\n"))
    if m and m.group(2) in ids:
        out.append("fixed: property=%s %s %s [id=%s]%s\n" % (m.group(1), commit, m.group(4), m.group(2), (" [also=%s]" % m.group(3)) if m.group(3) else ""))
        done.add(m.group(2))
    else:
        out.append(ln)
missing = [i for i in ids if i not in done]
if missing:
    sys.exit("no known: line for " + ", ".join(missing))
open(p, "w").write("".join(out))
print("marked fixed:", ", ".join(ids))
