#!/usr/bin/env python3
"""Confirm a seeded change independently (in the scratch worktree /tmp/mutverify, never in /repo): the patch applies, the
project's test-suite still passes with it, the demonstration fails with it and passes without it.  Records what was run in
seeded/<id>/meta.json.   usage: verify_seeded.py <id> ..."""
import json, os, subprocess, sys, time
WT = os.environ.get("VF_MUTVERIFY", "/tmp/mutverify")
SD = "/verif/seeded"

def sh(cmd, cwd=None, timeout=3600):
    p = subprocess.run(cmd, shell=True, cwd=cwd, stdout=subprocess.PIPE, stderr=subprocess.STDOUT, timeout=timeout)
    return p.returncode, p.stdout.decode("utf-8", "replace")

def demo(i, tag):
    flags = "-std=c++20 -I %s/include -DTETL_ENABLE_CONTRACT_CHECKS=1" % WT
    exe = "/tmp/mutverify_demo_%s" % tag
    rc, out = sh("g++ %s %s/%s/demo.cpp -o %s 2>&1" % (flags, SD, i, exe), timeout=600)
    if rc != 0:   # demonstrations about contract checks define their own handler
        rc, out = sh("g++ %s -DTETL_ENABLE_CUSTOM_ASSERT_HANDLER=1 %s/%s/demo.cpp -o %s 2>&1" % (flags, SD, i, exe), timeout=600)
        if rc != 0:
            return 99, "demo does not compile: " + out[-300:]
    rc, out = sh(exe, timeout=600)
    return rc, out[-400:]

for i in sys.argv[1:]:
    meta = json.load(open(os.path.join(SD, i, "meta.json")))
    sh("git checkout -- include", cwd=WT)
    rc0, out0 = demo(i, "base")
    rc, out = sh("git apply %s/%s/patch.diff" % (SD, i), cwd=WT)
    if rc != 0:
        print(i, "PATCH DOES NOT APPLY", out[-300:]); continue
    rc1, out1 = demo(i, "mut")
    t0 = time.time()
    rcb, outb = sh("nice cmake --build build -j%s 2>&1 | tail -3" % os.environ.get("VF_MUT_JOBS", "6"), cwd=WT)
    rct, outt = sh("ctest --test-dir build -j6 --timeout 900 2>&1 | tail -4", cwd=WT)
    sh("git checkout -- include", cwd=WT)
    passed = "100% tests passed" in outt
    meta.update({"confirmed": {"demo_unchanged_tree_exit": rc0, "demo_with_change_exit": rc1, "testsuite_with_change": outt.strip().splitlines()[0] if outt.strip() else "?",
                               "testsuite_passes": passed, "ran": ["git apply patch.diff (scratch worktree /tmp/mutverify at /repo HEAD)", "cmake --build build && ctest --test-dir build", "g++ -std=c++20 -I include demo.cpp && ./a.out (with and without the change)"],
                               "seconds": round(time.time() - t0)}})
    ok = rc0 == 0 and rc1 != 0 and passed
    meta["kept"] = ok
    json.dump(meta, open(os.path.join(SD, i, "meta.json"), "w"), indent=1)
    print(i, "OK" if ok else "REJECTED", "demo base rc=%d mut rc=%d tests=%s" % (rc0, rc1, "pass" if passed else outt[-200:]))
# leave the verification tree at HEAD state; rebuild lazily next time
