#!/bin/sh
cd "$(dirname "$0")" && clang++-14 -std=c++17 -fno-rtti -O1 -I/usr/lib/llvm-14/include cxx2c.cpp -o cxx2c /usr/lib/llvm-14/lib/libclang-cpp.so.14 -L/usr/lib/llvm-14/lib -lLLVM-14 -Wl,-rpath,/usr/lib/llvm-14/lib
