// cxx2c prototype: lower instantiated C++ (clang AST) to C for CBMC.
#include "clang/AST/ASTConsumer.h"
#include "clang/AST/Mangle.h"
#include "clang/AST/RecordLayout.h"
#include "clang/AST/RecursiveASTVisitor.h"
#include "clang/Frontend/CompilerInstance.h"
#include "clang/Frontend/FrontendAction.h"
#include "clang/Tooling/CommonOptionsParser.h"
#include "clang/Tooling/Tooling.h"
#include "llvm/Support/CommandLine.h"
#include <deque>
#include <map>
#include <set>
#include <sstream>
using namespace clang;
using std::string;

[[noreturn]] static void die(const string& m, const Stmt* s = nullptr, ASTContext* C = nullptr)
{
    llvm::errs() << "cxx2c: UNSUPPORTED: " << m << "\n";
    if (s && C) {
        s->getBeginLoc().print(llvm::errs(), C->getSourceManager());
        llvm::errs() << "\n";
        s->dump();
    }
    exit(3);
}

struct Lower {
    ASTContext& C;
    std::unique_ptr<MangleContext> MC;
    std::deque<const FunctionDecl*> work;
    std::set<const FunctionDecl*> seenFn;
    std::vector<const RecordDecl*> recOrder;
    std::map<const RecordDecl*, string> recNames;
    std::set<string> usedRecNames;
    std::set<const RecordDecl*> seenRec, doneRec;
    std::map<const FunctionDecl*, string> bodies;
    std::vector<const FunctionDecl*> fnOrder;
    std::map<const VarDecl*, string> globals; // static constexpr objects
    std::vector<const VarDecl*> globalOrder;

    // per function state
    std::vector<string> temps;
    std::map<const VarDecl*, const FieldDecl*> capMap;
    const FieldDecl* capThis = nullptr;
    std::map<const ValueDecl*, string> localNames;
    std::set<string> usedLocal;
    int loopOrd = 0;
    string curFn;
    string thisExpr = "this_"; // expression denoting `this` pointer

    Lower(ASTContext& c) : C(c), MC(c.createMangleContext()) { }

    // ---------- names ----------
    string mangled(const FunctionDecl* F)
    {
        string s;
        llvm::raw_string_ostream os(s);
        if (auto* CD = dyn_cast<CXXConstructorDecl>(F))
            MC->mangleName(GlobalDecl(CD, Ctor_Complete), os);
        else if (auto* DD = dyn_cast<CXXDestructorDecl>(F))
            MC->mangleName(GlobalDecl(DD, Dtor_Complete), os);
        else if (MC->shouldMangleDeclName(F))
            MC->mangleName(GlobalDecl(F), os);
        else
            os << F->getNameAsString();
        os.flush();
        for (auto& ch : s)
            if (!isalnum((unsigned char)ch) && ch != '_') ch = '_';
        return s;
    }
    string fnName(const FunctionDecl* F)
    {
        F = canonFn(F);
        if (!seenFn.count(F)) {
            seenFn.insert(F);
            work.push_back(F);
        }
        return mangled(F);
    }
    const FunctionDecl* canonFn(const FunctionDecl* F)
    {
        const FunctionDecl* D = nullptr;
        if (F->hasBody(D)) return D;
        if (auto* P = F->getTemplateInstantiationPattern()) { (void)P; }
        return F->getCanonicalDecl();
    }
    string recName(const RecordDecl* R)
    {
        R = R->getDefinition() ? R->getDefinition() : R;
        auto itn = recNames.find(R);
        if (itn != recNames.end()) return itn->second;
        string s;
        llvm::raw_string_ostream os(s);
        QualType T = C.getRecordType(R);
        if (auto* CR = dyn_cast<CXXRecordDecl>(R); CR && CR->isLambda()) {
            os << "lambda_" << CR->getLambdaManglingNumber() << "_"
               << C.getSourceManager().getSpellingLineNumber(CR->getBeginLoc());
        } else {
            PrintingPolicy PP(C.getLangOpts());
            PP.SuppressTagKeyword = true;
            PP.FullyQualifiedName = true;
            T.getCanonicalType().print(os, PP);
        }
        os.flush();
        string o;
        for (char ch : s) {
            if (isalnum((unsigned char)ch) || ch == '_') o += ch;
            else if (ch == ' ') continue;
            else if (ch == '*') o += "P";
            else if (ch == '&') o += "R";
            else if (!o.empty() && o.back() != '_') o += '_';
        }
        while (!o.empty() && o.back() == '_') o.pop_back();
        string base = o;
        int k = 1;
        while (usedRecNames.count(o)) o = base + "_" + std::to_string(++k);
        usedRecNames.insert(o);
        recNames[R] = o;
        needRec(R);
        return o;
    }
    void needRec(const RecordDecl* R)
    {
        R = R->getDefinition() ? R->getDefinition() : R;
        if (seenRec.insert(R).second) recOrder.push_back(R);
    }

    // ---------- types ----------
    string builtin(const BuiltinType* B)
    {
        switch (B->getKind()) {
        case BuiltinType::Void: return "void";
        case BuiltinType::Bool: return "_Bool";
        case BuiltinType::Char_S: return "char";
        case BuiltinType::Char_U: return "char";
        case BuiltinType::SChar: return "signed char";
        case BuiltinType::UChar: return "unsigned char";
        case BuiltinType::Char8: return "unsigned char";
        case BuiltinType::Char16: return "unsigned short";
        case BuiltinType::Char32: return "unsigned int";
        case BuiltinType::WChar_S: return "int";
        case BuiltinType::WChar_U: return "unsigned int";
        case BuiltinType::Short: return "short";
        case BuiltinType::UShort: return "unsigned short";
        case BuiltinType::Int: return "int";
        case BuiltinType::UInt: return "unsigned int";
        case BuiltinType::Long: return "long";
        case BuiltinType::ULong: return "unsigned long";
        case BuiltinType::LongLong: return "long long";
        case BuiltinType::ULongLong: return "unsigned long long";
        case BuiltinType::Int128: return "__int128";
        case BuiltinType::UInt128: return "unsigned __int128";
        case BuiltinType::Float: return "float";
        case BuiltinType::Double: return "double";
        case BuiltinType::LongDouble: return "long double";
        case BuiltinType::NullPtr: return "void*";
        default: die("builtin type " + QualType(B, 0).getAsString());
        }
    }
    // C declarator for type T with inner declarator text `name`
    string decl(QualType T, string name)
    {
        T = T.getCanonicalType();
        const Type* t = T.getTypePtr();
        if (auto* B = dyn_cast<BuiltinType>(t)) return builtin(B) + (name.empty() ? "" : " " + name);
        if (auto* P = dyn_cast<PointerType>(t)) return ptrTo(P->getPointeeType(), name);
        if (auto* R = dyn_cast<ReferenceType>(t)) return ptrTo(R->getPointeeType(), name);
        if (auto* A = dyn_cast<ConstantArrayType>(t))
            return decl(A->getElementType(), name + "[" + std::to_string(A->getSize().getZExtValue()) + "]");
        if (auto* A = dyn_cast<IncompleteArrayType>(t)) return decl(A->getElementType(), name + "[]");
        if (auto* R = dyn_cast<RecordType>(t)) {
            return string(R->getDecl()->isUnion() ? "union " : "struct ") + recName(R->getDecl())
                 + (name.empty() ? "" : " " + name);
        }
        if (auto* E = dyn_cast<EnumType>(t)) return decl(E->getDecl()->getIntegerType(), name);
        if (auto* F = dyn_cast<FunctionProtoType>(t)) {
            string ps;
            bool sret = !F->getReturnType()->isReferenceType() && indirect(F->getReturnType());
            if (sret) ps = ptrTo(F->getReturnType(), "");
            for (unsigned i = 0; i < F->getNumParams(); ++i) {
                QualType PT = F->getParamType(i);
                ps += (ps.empty() ? "" : ", ") + ((!PT->isReferenceType() && indirect(PT)) ? ptrTo(PT, "") : decl(PT, ""));
            }
            if (ps.empty()) ps = "void";
            return decl(sret ? C.VoidTy : F->getReturnType(), name + "(" + ps + ")");
        }
        if (auto* M = dyn_cast<MemberPointerType>(t)) die("member pointer type");
        die("type " + T.getAsString());
    }
    string ptrTo(QualType pointee, string name)
    {
        pointee = pointee.getCanonicalType();
        if (isa<ArrayType>(pointee) || isa<FunctionType>(pointee)) return decl(pointee, "(*" + name + ")");
        return decl(pointee, "*" + name);
    }
    string ty(QualType T) { return decl(T, ""); }
    bool isRef(QualType T) { return T->isReferenceType(); }

    // ---------- helpers ----------
    string apint(const llvm::APSInt& v, QualType T)
    {
        llvm::SmallString<40> s;
        v.toString(s, 10);
        string lit = string(s.str());
        bool neg = v.isSigned() && v.isNegative();
        if (v.getBitWidth() > 64) die("wide int literal");
        string suf = v.isSigned() ? "LL" : "ULL";
        if (neg && v.isMinSignedValue()) {
            // MIN: -(MAX) - 1
            llvm::APSInt m = v;
            ++m;
            llvm::SmallString<40> s2;
            m.toString(s2, 10);
            lit = "(" + string(s2.str()) + "LL - 1)";
            return "((" + ty(T) + ")" + lit + ")";
        }
        return "((" + ty(T) + ")" + lit + suf + ")";
    }
    string apvalue(const APValue& V, QualType T)
    {
        T = T.getCanonicalType();
        if (V.isInt()) return apint(V.getInt(), T);
        if (V.isFloat()) {
            llvm::SmallString<40> s;
            V.getFloat().toString(s, 0, 0, false);
            char buf[80];
            double d = V.getFloat().convertToDouble();
            snprintf(buf, sizeof buf, "%a", d);
            if (&V.getFloat().getSemantics() == &llvm::APFloat::IEEEquad()
                || &V.getFloat().getSemantics() == &llvm::APFloat::x87DoubleExtended())
                return "((" + ty(T) + ")" + buf + ")";
            return "((" + ty(T) + ")" + buf + ")";
        }
        if (V.isStruct()) {
            auto* R = T->getAsRecordDecl();
            string s = "((" + ty(T) + "){";
            bool first = true;
            unsigned bi = 0;
            if (auto* CR = dyn_cast<CXXRecordDecl>(R))
                for (auto& B : CR->bases()) {
                    if (!baseHasStorage(B.getType())) { ++bi; continue; }
                    s += (first ? "" : ", ") + apvalue(V.getStructBase(bi++), B.getType());
                    first = false;
                }
            unsigned fi = 0;
            for (auto* F : R->fields()) {
                s += (first ? "" : ", ") + apvalue(V.getStructField(fi++), F->getType());
                first = false;
            }
            if (first) s += "0";
            return s + "})";
        }
        if (V.isLValue() && V.isNullPointer()) return "((" + ty(T) + ")0)";
        if (V.isArray()) {
            auto* AT = C.getAsConstantArrayType(T);
            string s = "{";
            unsigned n = V.getArraySize(), ni = V.getArrayInitializedElts();
            for (unsigned i = 0; i < n; ++i)
                s += (i ? ", " : "") + apvalue(i < ni ? V.getArrayInitializedElt(i) : V.getArrayFiller(), AT->getElementType());
            return s + "}";
        }
        if (V.isLValue() && V.getLValueOffset().isZero() && !V.hasLValuePath()) {
            if (auto* VD = V.getLValueBase().dyn_cast<const ValueDecl*>()) {
                if (auto* FD = dyn_cast<FunctionDecl>(VD)) return fnName(FD);
            }
        }
        if (V.isLValue() && V.getLValueOffset().isZero()) {
            if (auto* VD = V.getLValueBase().dyn_cast<const ValueDecl*>()) {
                if (auto* FD = dyn_cast<FunctionDecl>(VD)) return fnName(FD);
                if (auto* GV = dyn_cast<VarDecl>(VD); GV && V.getLValuePath().empty()) return "(&" + globalVar(GV, nullptr) + ")";
            }
        }
        if (V.isIndeterminate() || V.isAbsent()) return "{0}";
        die("apvalue kind " + std::to_string((int)V.getKind()) + " for " + T.getAsString());
    }
    bool baseHasStorage(QualType B)
    {
        auto* R = B->getAsCXXRecordDecl();
        return R && !R->isEmpty();
    }
    string local(const ValueDecl* D)
    {
        auto it = localNames.find(D);
        if (it != localNames.end()) return it->second;
        string n = D->getNameAsString();
        if (n.empty()) n = "anon";
        string base = n;
        int k = 1;
        while (usedLocal.count(n)) n = base + "_" + std::to_string(++k);
        usedLocal.insert(n);
        localNames[D] = n;
        return n;
    }
    string newTemp(QualType T)
    {
        string n = "tmp" + std::to_string(temps.size());
        temps.push_back(decl(T.getNonReferenceType().getUnqualifiedType(), n) + ";");
        return n;
    }
    string fieldName(const FieldDecl* F)
    {
        if (!F->getName().empty()) return F->getNameAsString();
        return "cap" + std::to_string(F->getFieldIndex());
    }
    // path from Derived to Base for a cast path
    string basePath(const CastExpr* CE)
    {
        string p;
        QualType cur = CE->getSubExpr()->getType();
        if (cur->isPointerType()) cur = cur->getPointeeType();
        for (auto* B : CE->path()) {
            auto* D = cur->getAsCXXRecordDecl();
            unsigned i = 0, idx = 0;
            bool found = false;
            for (auto& BB : D->bases()) {
                if (C.hasSameUnqualifiedType(BB.getType(), B->getType())) { idx = i; found = true; }
                ++i;
            }
            if (!found) die("base path");
            if (!baseHasStorage(B->getType())) return "";   // empty base: no storage
            p += ".b" + std::to_string(idx);
            cur = B->getType();
        }
        return p;
    }

#include "cxx2c_life.inc"
#include "cxx2c_expr.inc"
#include "cxx2c_stmt.inc"
#include "cxx2c_emit.inc"
};

struct Cons : ASTConsumer {
    void HandleTranslationUnit(ASTContext& C) override
    {
        Lower L(C);
        L.run();
    }
};
struct Act : ASTFrontendAction {
    std::unique_ptr<ASTConsumer> CreateASTConsumer(CompilerInstance&, StringRef) override
    {
        return std::make_unique<Cons>();
    }
};
static llvm::cl::OptionCategory Cat("cxx2c");
int main(int argc, const char** argv)
{
    auto E = tooling::CommonOptionsParser::create(argc, argv, Cat);
    if (!E) { llvm::errs() << E.takeError(); return 1; }
    tooling::ClangTool T(E->getCompilations(), E->getSourcePathList());
    return T.run(tooling::newFrontendActionFactory<Act>().get());
}
