/* etl::is_constant_evaluated(): both branches are lowered; the ghost vf_ce selects the path (0 = run time, the default) */
#ifndef VERIF_IS_CONSTANT_EVALUATED
_Bool vf_ce;
#define VERIF_IS_CONSTANT_EVALUATED vf_ce
#endif
/* pointer difference (see cxx2c_expr.inc) */
#ifdef VF_NATIVE
static inline long vf_ptrdiff(const void *b, const void *a, unsigned long sz) { return (long)((const char *)b - (const char *)a) / (long)sz; }
#else
static inline long vf_ptrdiff(const void *b, const void *a, unsigned long sz)
{
  __CPROVER_assert(__CPROVER_same_object(a, b), "pointer subtraction: both operands point into the same object");
  return ((long)__CPROVER_POINTER_OFFSET(b) - (long)__CPROVER_POINTER_OFFSET(a)) / (long)sz;
}
#endif
#include <math.h>
#define __builtin_floorf floorf
#define __builtin_floor floor
#define __builtin_floorl floorl
#define __builtin_roundf roundf
#define __builtin_round round
#define __builtin_roundl roundl
#define __builtin_copysignf copysignf
#define __builtin_copysign copysign
#define __builtin_isnan isnan
