#!/bin/sh
# usage: tools/trymut.sh <seeded id> <check arguments...>     e.g.  tools/trymut.sh C05_safe_macro_branch_order C05 --family views --no-evidence
# applies seeded/<id>/patch.diff to a scratch COPY of /repo/include (never to /repo) and runs ./check against the copy
set -e
id=$1; shift
root=$(cd "$(dirname "$0")/.." && pwd)
d=$root/.work/try_$id
rm -rf "$d"; mkdir -p "$d"
cp -r /repo/include "$d/include"
(cd "$d" && patch -p1 -s < "$root/seeded/$id/patch.diff")
cd "$root"
set +e
VF_REPO=$d VF_REPLAY_DIR=$d/replays ./check "$@" --no-evidence
rc=$?
echo "trymut: $id -> exit $rc (scratch copy kept in $d; remove it when done)"
exit $rc
