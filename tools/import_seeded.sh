#!/bin/sh
# usage: import_seeded.sh <property> <mutant dir> <id>     (copies patch.diff, demo.cpp, notes.md; meta.json is written by verify_seeded.py)
set -e
d=/verif/seeded/$3
mkdir -p $d
cp $2/patch.diff $2/demo.cpp $d/
[ -f $2/notes.md ] && cp $2/notes.md $d/notes.md
printf '{"property": "%s", "id": "%s"}\n' "$1" "$3" > $d/meta.json
echo imported $3
