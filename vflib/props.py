"""static per-property metadata: manifest texts and what goes into every evidence file (not covered, extra assumptions)"""

TECH = "CBMC 6.11 code contracts (goto-instrument --dfcc) and full-domain lemma harnesses over C lowered mechanically from the real headers (cxx2c), native replay + co-execution against g++ object code"

PROPS = {
    "C01": {
        "families": ["vector", "ivector", "lifetime", "algob"],
        "level": "(int elements: vector/ivector; a move-marking, self-move-hostile element through the non-trivial storage path: lifetime h_* groups, algob hm_erase; arguments that alias an element of the vector: alias_value / h_alias) every public operation of static_vector<int,N> / inplace_vector<int,N> / stack is proved, from an ARBITRARY well-formed object (induction over histories), to produce the whole std::vector view (size, every element, returned iterator) for N in {1,4} (thorough: 0,7; size-type boundary 255/256); loops are bounded by the capacity and fully unwound with unwinding assertions",
        "note": "capacities and element types are enumerated, not quantified; trusted: clang-14 front end, cxx2c lowering (validated per run by layout asserts, co-execution and native replay), CBMC + SAT back end, hand-written reference semantics",
        "not_covered": ["capacities other than the enumerated ones", "element types other than int and the instrumented types of the lifetime family", "emplace_back return value: tetl returns void"],
        "design_ref": "DESIGN.md 7 C01",
    },
    "C02": {
        "families": "*",
        "level": "safety projection of every family: CBMC's built-in obligations (array bounds on exact-size objects, pointer validity, pointer arithmetic, signed overflow, division by zero, shift width, float->integer conversion) are discharged for every harness whose inputs respect the documented preconditions; allocator-freedom is a call-closure fact established by the lowering (non-placement new/delete abort it, malloc & co. would be rejected externals)",
        "note": "UB kinds CBMC does not model (strict aliasing, lifetime of trivially destructible objects, data races) are not covered; bounded groups are reported separately",
        "not_covered": ["code not reached by any driver", "strict aliasing / data races / evaluation-order UB", "uninitialised reads other than through the 'default construction establishes wf' obligations"],
        "design_ref": "DESIGN.md 7 C02",
    },
    "C03": {
        "families": ["lifetime"],
        "level": "construct-once / destroy-once is proved per operation from an arbitrary state of a ghost liveness registry tied to the owner's representation invariant, for static_vector, inplace_vector, static_set, flat_set, stack, optional, variant, expected, inplace_function and the uninitialized_* algorithms with an instrumented element type",
        "note": "the instrumented element type's special members are the only hand-written C++; implicit destructor calls are synthesised by cxx2c (trusted, mitigated by co-execution where runnable); NT overlay emulates P0848 for clang 14",
        "not_covered": ["pair/tuple element lifetimes (compiler-generated member construction/destruction: proving them would verify the extractor)", "exception paths (lowered with -fno-exceptions)", "native replay of registry harnesses (uses CBMC pointer predicates)"],
        "design_ref": "DESIGN.md 7 C03",
    },
    "C04": {
        "families": ["string"],
        "level": "every mutating member of inplace_string<N> is proved, from an arbitrary well-formed string, to keep size <= capacity and the terminator at size() and to produce the std::string contents/return values; observers equal the reference on the view; capacities on both sides of the small-layout boundary",
        "note": "char only unless the evidence lists further character types; capacities enumerated",
        "not_covered": ["character types / capacities not listed under coverage.instantiations"],
        "design_ref": "DESIGN.md 7 C04",
    },
    "C05": {
        "families": "*",
        "level": "for each driven TETL_PRECONDITION site: with arguments constrained to VIOLATE the documented precondition (at and beyond the boundary) every path reaches the assertion handler before any out-of-object access, with the object byte-identical to its entry state and a usable location; the complement (handler silent on valid input) is an obligation of every other harness",
        "note": "sites not driven by a violation harness are listed in coverage.not_covered; the handler is modelled as non-returning",
        "not_covered": ["TETL_PRECONDITION sites without a violation harness", "the TETL_ENABLE_CONTRACT_CHECKS_SAFE configuration unless a family lowers it"],
        "design_ref": "DESIGN.md 7 C05",
    },
    "C06": {
        "families": ["algo", "algob", "lifetime"],
        "level": "(int ranges with bool predicates under contract; in the bounded family additionally a move-marking element type whose self-move-assignment is destructive and predicates / comparators returning non-bool truthy values) single-loop algorithms: function contracts with loop invariants on the REAL tetl functions, enforced by goto-instrument --dfcc for ranges of any length (ghost length / ghost index); nested-loop and permutation-shaped algorithms: bounded stand-ins over full-int alphabets (reported under bounded, never as proved)",
        "note": "pointer iterators over int (and a key/tag struct for stability); predicates/comparators are lowered functors",
        "not_covered": ["iterator categories other than those listed", "algorithms listed as bounded are not proved for unbounded lengths"],
        "design_ref": "DESIGN.md 7 C06",
    },
    "C07": {
        "families": ["sumtypes", "lifetime"],
        "level": "(incl. variants with a repeated alternative type, optional<bool>, self-referential arguments; value assignment with non-trivial alternatives in the lifetime family) optional/variant/expected: every modifier and observer is proved over ALL (from-state, to-state) pairs (both objects fully symbolic) against the std state tables; loop-free after instantiation, full machine domain",
        "note": "trivially destructible alternatives (non-trivial lifetimes are C03); type-level facts (explicitness, value categories, return-type decay) are outside the technique",
        "not_covered": ["type-level facts (overload-set ambiguity for narrowing conversions, value category passed to monadic callbacks, decay of visit's return type, explicit default constructor of expected)", "APIs tetl does not provide (optional::value/transform, expected comparisons/transform, variant member swap)"],
        "design_ref": "DESIGN.md 7 C07",
    },
    "C08": {
        "families": ["sv"],
        "level": "single-loop character searches: contracts with loop invariants for views of any length; multi-character needles and the remaining overloads: bounded in haystack/needle length with fully symbolic characters, pos and count (size, size+1, npos inside the domain); views are exact-size, non-terminated objects",
        "note": "char; wchar_t for the forwarding overloads of the six searches and compare in the quick tier (variant wq), wchar_t/char16_t for the remaining wide-capable groups in thorough; views into the same buffer for the affix/compare family",
        "not_covered": ["needle lengths beyond the stated bound for the bounded groups"],
        "design_ref": "DESIGN.md 7 C08",
    },
    "C09": {
        "families": ["sets"],
        "level": "static_set / flat_set / flat_multiset: from an arbitrary strictly-sorted set of capacity 4, every operation keeps sortedness+uniqueness and yields the std::set membership (ghost key), size, order and return values; comparators less, greater, transparent",
        "note": "capacity 4, int keys",
        "not_covered": ["capacities/key types other than the enumerated ones"],
        "design_ref": "DESIGN.md 7 C09",
    },
    "C10": {
        "families": ["charconv"],
        "level": "to_chars/from_integer and the parsers against a digit-by-digit reference with exact-size buffers: complete for the 8-bit types over all values and all 35 bases (16-bit in thorough); 32/64-bit with fixed bases or value windows are reported as bounded",
        "note": "width-bounded loops fully unwound",
        "not_covered": ["32/64-bit types over the full (value x base) domain"],
        "design_ref": "DESIGN.md 7 C10",
    },
    "C11": {
        "families": ["calendar"],
        "level": "case split over 164 cells of 146097 days covering years -32767..32767: in every cell civil_from_days yields an existing date that is ok(), agrees with an independent proleptic-Gregorian specification and round-trips; loop-free lemmas pin the specification (anchor + successor) and decide ok(), is_leap, last day, weekday and the modular arithmetic",
        "note": "quick runs a stated subset of the cells (both ends, around year 0 and 1970); thorough runs all cells",
        "not_covered": ["month/weekday/year_month arithmetic for deltas beyond the stated windows (reported as bounded)", "year_month_day_last -> sys_days (declared but not defined in tetl)"],
        "design_ref": "DESIGN.md 7 C11",
    },
    "C12": {
        "families": ["duration"],
        "level": "duration_cast/floor/ceil/round against exact rational arithmetic: full domain for 8/16-bit reps over ten period pairs incl. non-power-of-ten ratios; mixed-period +,-,comparisons in the common type for int reps (no divider); 32/64-bit casts on value windows (bounded)",
        "note": "inherited overflow of the standard's own defining expressions is excluded by precondition",
        "not_covered": ["floating-point representations", "32/64-bit rounding casts outside the stated windows", "time_point_cast (does not compile on the pinned tree), time_point +/- free operators (not provided)"],
        "design_ref": "DESIGN.md 7 C12",
    },
    "C13": {
        "families": ["bits", "cmath", "cstr"],
        "level": "for functions with an is_constant_evaluated() / builtin split both source paths are lowered; the ghost vf_ce is symbolic, so both paths are proved against the same specification for all arguments, and the constant-evaluated path is proved free of UB (UB there is a compile error)",
        "note": "what a contract can say about C13: agreement of two SOURCE paths; fidelity of the compiler's constant evaluator, step limits and -O0/-O2 are out of reach",
        "not_covered": ["fidelity of the compiler's constant evaluator", "functions with a single source path outside the bits family: nothing to compare (for the single-path bit/integer utilities the UB-freedom obligations - e.g. shift width - count for C13, because UB in a constant expression is a compile error)", "evaluation step limits", "long double"],
        "design_ref": "DESIGN.md 7 C13",
    },
    "C14": {
        "families": ["bits"],
        "level": "every listed bit/integer utility is proved equal to its mathematical specification for all values of each 8/16/32/64-bit instantiation (loop-free, or width-bounded loops fully unwound); gcd/lcm/ipow for the 8-bit types; wide division-based helpers on divisor windows (bounded)",
        "note": "128-bit arithmetic in the specification",
        "not_covered": ["gcd/lcm/ipow for 16/32/64-bit operands", "div_sat/idiv for 16..64-bit operands outside the divisor window"],
        "design_ref": "DESIGN.md 7 C14",
    },
    "C16": {
        "families": ["cmath"],
        "level": "the exact (rounding / classification / sign) functions: the portable gcem path is proved bit-identical to CBMC's IEEE-754 model of the C function for all 2^32 float patterns (double where the query finishes)",
        "note": "approximating functions are outside the technique (no libm model)",
        "not_covered": ["sqrt exp log pow sin cos tan asin acos atan sinh cosh tanh erf gamma lgamma beta, complex: specification is a tolerance against libm; no model of those functions exists in CBMC"],
        "design_ref": "DESIGN.md 7 C16",
    },
    "C17": {
        "families": ["bitset"],
        "level": "bitset<N> for N in {1,8,33,64,65} (thorough: 7,9,31,32,63,127,128,129) and basic_bitset over 8/16/32/64-bit words: from an arbitrary bitset whose padding bits are zero, every mutator re-establishes the padding invariant and every bit (ghost index) of every result equals [template.bitset]; word/bit loops fully unwound",
        "note": "widths enumerated",
        "not_covered": ["string construction for N > 9 (bounded to strings of <= 11 characters)", "shift operators (not provided by tetl)"],
        "design_ref": "DESIGN.md 7 C17",
    },
    "C18": {
        "families": ["cstr"],
        "level": "cctype/cwctype: full argument range against the C-locale class definitions (proof); str*/wcs*/mem*/wmem*: exact-size buffers, all byte values, lengths up to the stated bound (bounded); div/abs family",
        "note": "the GCC branch of the compiler switch in _cstring/_cwchar is the one lowered (the pinned baseline is built with GCC)",
        "not_covered": ["strings longer than the stated bound", "locale-dependent behaviour", "strtod/atof"],
        "design_ref": "DESIGN.md 7 C18",
    },
    "C19": {
        "families": ["views"],
        "level": "span sub-views and element access stay inside the exact-size object and equal pointer+offset arithmetic; layout_left/right/stride mappings are in range, equal the closed form and are injective (2-safety lemma) for every in-range multi-index; rank loops unrolled",
        "note": "obligations over dynamic extents are bounded by the stated extent cap",
        "not_covered": ["ranks/extents beyond the enumerated ones"],
        "design_ref": "DESIGN.md 7 C19",
    },
    "C20": {
        "families": ["tuplefn", "lifetime"],
        "level": "pair/tuple values, swap and lexicographic relations over fully symbolic operands; invoke/reference_wrapper/function_ref/bind_front/not_fn call the target exactly once with the same argument values; inplace_function state machine from every well-formed state, for trivially copyable callables (tuplefn) and for an instrumented non-trivially copyable callable whose move marks its source (lifetime n_* groups); value categories of get/apply/make_from_tuple and of pair/tuple copy and move as far as they are observable through a move-marking element type",
        "note": "decltype facts (the declared return types themselves) are type-level and outside the technique; what a wrong value category DOES (copy instead of move, wrong overload chosen) is checked",
        "not_covered": ["declared types / reference collapsing of forward, forward_like, tuple_element (type-level)", "value categories of invoke/bind_front/not_fn argument forwarding beyond the argument values"],
        "design_ref": "DESIGN.md 7 C20",
    },
}

NOT_APPLICABLE = [
    {"property_id": "C15", "reason": "type traits/concepts/numeric_limits/ratio are type-level compile-time facts: there is no function body, loop or data structure to put a contract on; the only decision procedure is the compiler (a static_assert matrix), which is a different technique"},
]
