"""static per-property metadata that goes into the evidence files (what is not covered, extra assumptions)"""
PROPS = {}
