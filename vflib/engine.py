"""engine: lower -> weave -> goto-cc -> goto-instrument --dfcc -> cbmc -> triage -> replay -> evidence.  See DESIGN.md 3-6."""
import concurrent.futures as cf
import hashlib
import json
import glob, os
import re
import resource
import shutil
import subprocess
import sys
import time

from . import weave as W

ROOT = os.path.dirname(os.path.dirname(os.path.abspath(__file__)))
REPO = os.environ.get("VF_REPO", "/repo")
CXX2C = os.path.join(ROOT, "tools/cxx2c/cxx2c")
RESDIR = "/usr/lib/llvm-14/lib/clang/14.0.6"
NCPU = int(os.environ.get("VF_JOBS", str(os.cpu_count() or 4)))
MEM_KB = int(os.environ.get("VF_MEM_KB", str(10 * 1024 * 1024)))
PROVED_KINDS = ("U", "F", "K", "S")

TRUSTED_BASE = [
    "clang 14 front end (template instantiation, overload resolution, constant folding, record layout)",
    "cxx2c lowering of the instantiated C++ AST to C (tools/cxx2c), validated per run by layout static-asserts, must-fire weaving and native replay against g++ object code",
    "clang-14 compatibility overlay of four type-level header rewrites (tools/overlay.py); NT overlay (P0848 emulation) for drivers instantiating variant/variadic_union/inplace_vector with non-trivially-destructible types",
    "CBMC 6.11 (goto-cc, goto-instrument --dfcc, symbolic execution, C library and IEEE-754 models) and its SAT back end",
    "machine model: x86-64 LP64, two's complement, char signed, IEEE-754 binary32/64",
    "specification functions and contracts in /verif/fam/*/ written from the C++ standard clauses",
    "etl::assert_handler modelled as non-returning",
]


class Undecided(Exception):
    pass


def sh(cmd, cwd=None, timeout=None, mem=True, env=None):
    def lim():
        if mem:
            resource.setrlimit(resource.RLIMIT_AS, (MEM_KB * 1024, MEM_KB * 1024))
    t0 = time.time()
    if env is None and cwd:
        # temporary files of the tools (cbmc writes the CNF for an external SAT solver to $TMPDIR and leaves it behind when it is
        # killed on a time-out: tens of megabytes each) go into the group's work directory, which is removed with the run
        env = dict(os.environ, TMPDIR=cwd)
    try:
        p = subprocess.run(cmd, cwd=cwd, stdout=subprocess.PIPE, stderr=subprocess.PIPE, timeout=timeout, preexec_fn=lim, env=env)
        return p.returncode, p.stdout.decode("utf-8", "replace"), p.stderr.decode("utf-8", "replace"), time.time() - t0
    except subprocess.TimeoutExpired as e:
        return -9, (e.stdout or b"").decode("utf-8", "replace"), "TIMEOUT", time.time() - t0


# ------------------------------------------------------------------ known findings
def load_known():
    known, fixed = {}, []
    p = os.environ.get("VF_KNOWN_FILE") or os.path.join(ROOT, "known_findings.txt")   # override: development only (trying a candidate fix)
    if os.path.exists(p):
        for ln in open(p):
            ln = ln.strip()
            if ln.startswith("known:"):
                m = re.match(r"known:\s*property=(\S+)\s+id=(\S+)\s+(?:also=(\S+)\s+)?::\s*(.*)$", ln)
                if not m:
                    raise Undecided("known_findings.txt: cannot parse: " + ln)
                known[m.group(2)] = {"property": m.group(1), "also": (m.group(3) or "").split(",") if m.group(3) else [], "what": m.group(4)}
            elif ln.startswith("fixed:"):
                fixed.append(ln)
    return known, fixed


# ------------------------------------------------------------------ families and groups
class Group:
    def __init__(self, fam, attrs, text):
        self.fam, self.attrs, self.text = fam, attrs, text
        self.name = attrs["name"]
        self.props = attrs.get("props", "").split(",")
        self.kind = attrs.get("kind", "K")
        self.mode = attrs.get("mode", "harness")
        self.tier = attrs.get("tier", "quick")
        self.knowns = re.findall(r"VF_KNOWN(?:_GUARD)?\(\s*(\w+)\s*,", text)

    def __repr__(self):
        return "%s.%s" % (self.fam.name, self.name)


class Family:
    def __init__(self, name):
        self.name = name
        self.dir = os.path.join(ROOT, "fam", name)
        self.cfg = json.load(open(os.path.join(self.dir, "family.json")))
        self.common, self.groups = [], []
        self._parse()

    def _parse(self):
        text = open(os.path.join(self.dir, "harness.c")).read()
        parts = re.split(r"(/\*@(?:GROUP|COMMON)[^@]*@\*/)", text)
        self.common.append(parts[0])
        i = 1
        while i < len(parts):
            hdr, body = parts[i], parts[i + 1]
            i += 2
            if hdr.startswith("/*@COMMON"):
                self.common.append(body)
                continue
            attrs = dict(kv.split("=", 1) for kv in hdr[len("/*@GROUP"):-3].split())
            if "name" not in attrs or "props" not in attrs:
                raise Undecided("%s: GROUP without name/props: %s" % (self.name, hdr))
            self.groups.append(Group(self, attrs, body))
        names = [g.name for g in self.groups]
        if len(set(names)) != len(names):
            raise Undecided("%s: duplicate group names" % self.name)

    def variants(self, tier):
        v = self.cfg.get("variants")
        if not v:
            return [{"name": "", "defs": {}}]
        out = list(v.get("quick", []))
        if tier == "thorough":
            out += v.get("thorough", [])
        return out


def all_families(only=None, errors=None):
    d = os.path.join(ROOT, "fam")
    out = []
    for n in sorted(os.listdir(d)):
        if only and n != only:
            continue
        if not (os.path.exists(os.path.join(d, n, "family.json")) and os.path.exists(os.path.join(d, n, "harness.c")) and os.path.exists(os.path.join(d, n, "driver.cpp"))):
            continue
        try:
            out.append(Family(n))
        except Exception as e:  # a broken family must not take the others down
            if errors is not None:
                errors.append("family %s cannot be parsed: %s" % (n, e))
    return out


# ------------------------------------------------------------------ lowering
class Lowered:
    """one (family, variant) lowered and woven in a work directory"""

    def __init__(self, fam, variant, work, overlays, known, probe=None):
        self.fam, self.variant = fam, variant
        self.tag = fam.name + ("." + variant["name"] if variant["name"] else "")
        self.dir = os.path.join(work, self.tag + (".probe_" + probe if probe else ""))
        os.makedirs(self.dir, exist_ok=True)
        self.known, self.probe = known, probe
        ov = overlays[fam.cfg.get("overlay", "std")]
        self.defs = ["-D%s=%s" % kv for kv in variant.get("defs", {}).items()]
        self.cxxflags = ["-std=c++20", "-DTOBANTEEMBEDDED_TETL_VERIF=1", "-DTETL_ENABLE_CUSTOM_ASSERT_HANDLER=1"] + fam.cfg.get("cxxflags", ["-DTETL_ENABLE_CONTRACT_CHECKS=1"]) + self.defs
        drv = os.path.join(fam.dir, "driver.cpp")
        cmd = [CXX2C, drv, "--", "-resource-dir", RESDIR, "-I", ov, "-I", os.path.join(ROOT, "harness"), "-DVF_LOWERING=1", "-Wno-return-type-c-linkage", "-Wno-c++11-narrowing"] + self.cxxflags
        rc, out, err, dt = sh(cmd, timeout=300)
        self.lower_s = dt
        if rc != 0:
            raise Undecided("lowering of %s failed (rc=%d): %s" % (self.tag, rc, err.strip()[-1500:]))
        gen = out.replace(ov.rstrip("/") + "/", REPO + "/include/")
        self.functions = W.function_table(gen)
        self.externals = W.externals(gen)
        allow = re.compile(fam.cfg.get("externals_allow", r"^(etl::assert_handler<etl::assert_msg>|vf::g_\w+|exit|abort)$"))
        for e in self.externals:
            if not allow.match(e["pretty"]):
                raise Undecided("%s: EXTERNAL function not on the allow-list: %s" % (self.tag, e["pretty"]))
        # allocator-free closure (C02): cxx2c aborts on non-placement new/delete; malloc & co. would be EXTERNALs outside the allow-list
        spec_p = os.path.join(fam.dir, "contracts.spec")
        spec = open(spec_p).read() if os.path.exists(spec_p) else ""
        try:
            woven, names, self.winfo = W.weave(gen, spec, known_listed=set(known), known_probe=probe)
        except W.WeaveError as e:
            raise Undecided("weave %s: %s" % (self.tag, e))
        open(os.path.join(self.dir, "gen.c"), "w").write(woven)
        # harness-mode groups compile the UNWOVEN text: a contract that no longer fits the code (renamed local in a loop invariant,
        # changed loop structure) makes the contract groups undecided, not the lemma harnesses of the same family
        open(os.path.join(self.dir, "gen_plain.c"), "w").write(gen)
        open(os.path.join(self.dir, "names.h"), "w").write(names)
        self.gen_lines = woven.count("\n")

    def tu_text(self, group):
        body = group.text

        def kf(m):
            fid, w = m.group(1), m.group(2)
            if fid in self.known:
                return ("__CPROVER_assume(%s)" if fid == self.probe else "__CPROVER_assume(!(%s))") % w
            return "((void)0)"
        body = re.sub(r"VF_KNOWN\(\s*(\w+)\s*,((?:[^()]|\((?:[^()]|\((?:[^()]|\([^()]*\))*\))*\))*)\)", kf, body)

        def kg(m):
            # VF_KNOWN_GUARD(id, witness): an EXPRESSION that guards a single assertion (the rest of the harness keeps checking the
            # witness class): unlisted -> 1; listed -> !(witness); probe of that id -> (witness)
            fid, w = m.group(1), m.group(2)
            if fid in self.known:
                return ("(%s)" if fid == self.probe else "(!(%s))") % w
            return "(1)"
        body = re.sub(r"VF_KNOWN_GUARD\(\s*(\w+)\s*,((?:[^()]|\((?:[^()]|\((?:[^()]|\([^()]*\))*\))*\))*)\)", kg, body)
        src = "gen.c" if group.mode == "contract" else "gen_plain.c"
        return ('#include "vf.h"\n#include "names.h"\n#include "%s"\n' % src + "".join(self.fam.common) + "\n" + body)


def make_overlays(work, need):
    ov = {}
    for kind in need:
        d = os.path.join(work, "ov_" + kind)
        rc, out, err, _ = sh([sys.executable, os.path.join(ROOT, "tools/overlay.py"), os.path.join(REPO, "include"), d] + (["--nt"] if kind == "nt" else []))
        if rc != 0:
            raise Undecided("overlay: " + err.strip())
        ov[kind] = d
    return ov


# ------------------------------------------------------------------ one obligation group through CBMC
IGNORED_CONV = re.compile(r"type conversion")


def classify(r):
    """status of a single cbmc property -> (status, counted?)"""
    d = r.get("description", "")
    if IGNORED_CONV.search(d) and "float" not in d:
        return "FILTERED"      # integer<->integer conversions are defined behaviour in C++20
    return r["status"]


def split_cells(g, tier):
    """case-split groups (kind S): split=NAME:lo:hi runs one cell per value with -DNAME=<value>; qsplit=v1,v2 is the quick subset"""
    sp = g.attrs.get("split")
    if not sp:
        return [None]
    name, lo, hi = sp.split(":")
    cells = list(range(int(lo), int(hi) + 1))
    if tier == "quick" and g.attrs.get("qsplit"):
        cells = [int(x) for x in g.attrs["qsplit"].split(",")]
    if os.environ.get("VF_CELLS"):     # development aid: run only these cells
        cells = [int(x) for x in os.environ["VF_CELLS"].split(",")]
    return [(name, c) for c in cells]


def run_group(low, g, tier, keep=False, cell=None):
    t0 = time.time()
    gdir = os.path.join(low.dir, g.name + ("" if cell is None else ".%s_%s" % (cell[0], str(cell[1]).replace("-", "m"))))
    os.makedirs(gdir, exist_ok=True)
    tu = os.path.join(gdir, "tu.c")
    open(tu, "w").write(low.tu_text(g))
    a = dict(g.attrs)
    if "unwind" in a and not a["unwind"].isdigit():   # e.g. unwind=VF_N+3, evaluated over the variant's defs
        class Env(dict):
            def __missing__(self, k):
                return 0
        a["unwind"] = str(int(eval(a["unwind"], {"__builtins__": {}}, Env(low.variant.get("defs", {})))))
    entry = "h_" + g.name
    gname = g.name + ("" if cell is None else "[%s=%d]" % cell)
    cdefs0 = ["-D%s=%d" % cell] if cell else []
    res = {"gdir": gdir, "cdefs": cdefs0, "group": gname, "family": low.tag, "kind": g.kind, "mode": g.mode, "props": g.props, "obligations": [], "status": "OK", "reason": "", "cmds": []}
    if g.mode == "contract":
        bad = [f for f in (a.get("enforce", "") + "," + a.get("replace", "")).split(",") if f and f in low.winfo.get("failed", {})]
        if bad:
            res.update(status="UNDECIDED", reason="contract no longer fits the code: " + "; ".join("%s: %s" % (f, low.winfo["failed"][f].split("\n")[0]) for f in bad))
            return res
    timeout = int(int(a.get("timeout", "450" if tier == "quick" else "3000")) * float(os.environ.get("VF_TIMEOUT_SCALE", "1")))
    inc = ["-I", os.path.join(ROOT, "harness"), "-I", os.path.join(ROOT, "tools/cxx2c"), "-I", low.dir, "-I", low.fam.dir]
    cdefs = ["-D%s=%d" % cell] if cell else []
    cmd = ["goto-cc", "--function", entry, tu, "-o", os.path.join(gdir, "a.gb")] + inc + low.defs + cdefs + ["-DVF_TIER_%s=1" % tier.upper()]
    res["cmds"].append(" ".join(cmd))
    rc, out, err, _ = sh(cmd, cwd=gdir, timeout=300)
    if rc != 0:
        res.update(status="UNDECIDED", reason="goto-cc failed: " + (err + out).strip()[-1200:])
        return res
    gb = os.path.join(gdir, "a.gb")
    al = low.winfo["aliases"]
    if g.mode == "contract":
        cmd = ["goto-instrument", "--dfcc", entry]
        for f in a.get("enforce", "").split(","):
            if f:
                cmd += ["--enforce-contract", al.get(f, f)]
        for f in a.get("replace", "").split(","):
            if f:
                cmd += ["--replace-call-with-contract", al.get(f, f)]
        if a.get("loops", "0") == "1":
            cmd += ["--apply-loop-contracts"]
        cmd += [gb, os.path.join(gdir, "b.gb")]
        res["cmds"].append(" ".join(cmd))
        rc, out, err, _ = sh(cmd, cwd=gdir, timeout=600)
        if rc != 0:
            res.update(status="UNDECIDED", reason="goto-instrument failed: " + (err + out).strip()[-1200:])
            return res
        gb = os.path.join(gdir, "b.gb")
    cmd = ["cbmc", gb, "--json-ui", "--trace", "--no-malloc-may-fail", "--conversion-check", "--pointer-overflow-check", "--drop-unused-functions",
           "--object-bits", a.get("objbits", "10")]
    if "unwind" in a:
        cmd += ["--unwind", a["unwind"]]
    elif g.mode != "contract" or a.get("loops", "0") != "1":
        cmd += ["--unwind", "1"]
    if a.get("unwindset"):
        cmd += ["--unwindset", a["unwindset"]]
    solver = a.get("solver", os.environ.get("VF_SOLVER", "minisat"))
    if solver == "kissat":
        cmd += ["--external-sat-solver", "kissat"]
    elif solver in ("cvc5", "z3"):
        cmd += ["--" + solver]
    for fl in a.get("flags", "").split(","):
        if fl:
            cmd.append(fl)
    res["cmds"].append(" ".join(cmd))
    res["backend"] = solver
    rc, out, err, dt = sh(cmd, cwd=gdir, timeout=timeout)
    res["solver_s"] = round(dt, 2)
    if not keep:
        for f in ("a.gb", "b.gb"):
            try:
                os.remove(os.path.join(gdir, f))
            except OSError:
                pass
    if err == "TIMEOUT":
        res.update(status="UNDECIDED", reason="cbmc timeout after %ds" % timeout)
        return res
    if rc not in (0, 10):
        res.update(status="UNDECIDED", reason="cbmc ended abnormally (exit code %d: out of memory / solver error): %s" % (rc, (err or out)[-300:].replace("\n", " ")))
        return res
    try:
        js = json.loads(out)
    except Exception:
        res.update(status="UNDECIDED", reason="cbmc output not JSON (rc=%d): %s" % (rc, (out[-600:] + err[-600:])))
        return res
    results, msgs = None, []
    for e in js:
        if "result" in e:
            results = e["result"]
        if e.get("messageType") in ("ERROR", "WARNING"):
            msgs.append(e.get("messageText", ""))
    if any("ignoring" in m for m in msgs):
        res.update(status="UNDECIDED", reason="cbmc ignored a construct: " + "; ".join(m for m in msgs if "ignoring" in m)[:400])
        return res
    if results is None:
        res.update(status="UNDECIDED", reason="cbmc produced no result (rc=%d): %s" % (rc, "; ".join(msgs)[-800:] or out[-400:]))
        return res
    reach_seen = reach_ok = False
    for r in results:
        st = classify(r)
        desc = r.get("description", "")
        ob = {"id": "%s.%s.%s" % (low.tag, gname, r["property"]), "desc": desc, "status": st,
              "loc": "%s:%s" % (r.get("sourceLocation", {}).get("file", "?"), r.get("sourceLocation", {}).get("line", "?")),
              "fn": r.get("sourceLocation", {}).get("function", "")}
        if desc.startswith("VACUITY"):
            reach_seen = True
            if st == "FAILURE":
                reach_ok = True
            continue
        if st == "FILTERED":
            continue
        if st == "FAILURE":
            if "unwinding assertion" in desc or ".unwind." in r["property"]:
                ob["status"] = "UNWIND"
            else:
                ob["trace"] = r.get("trace", [])
        res["obligations"].append(ob)
    if a.get("reach", "1") == "1":
        if not reach_seen:
            res.update(status="UNDECIDED", reason="harness has no VF_REACH() vacuity guard")
        elif not reach_ok:
            res.update(status="UNDECIDED", reason="VACUOUS: end of harness unreachable (contradictory assumptions or the call never returns)")
    if any(o["status"] == "UNWIND" for o in res["obligations"]):
        if any(o["status"] == "FAILURE" for o in res["obligations"]):
            # a counterexample found INSIDE the unwinding bound is a real execution (paths beyond the bound end at the failed
            # unwinding assertion, they are not continued): report it; the native replay decides whether it is confirmed
            res["note"] = "an unwinding assertion failed as well (bound %s): the obligations that did not fail are undecided" % a.get("unwind")
        else:
            res.update(status="UNDECIDED", reason="unwinding assertion failed (bound %s too small for the current code)" % a.get("unwind"))
    if g.mode == "contract" and a.get("loops", "0") == "1":
        if not any("loop invariant" in o["desc"].lower() or "loop_invariant" in o["id"] for o in res["obligations"]):
            res.update(status="UNDECIDED", reason="loop contract was silently dropped (no loop-invariant obligations generated)")
    if not res["obligations"]:
        res.update(status="UNDECIDED", reason="zero obligations generated")
    if any(o["status"] == "FAILURE" for o in res["obligations"]) and (res["status"] == "OK" or "vacuity guard" in res["reason"] or res["reason"].startswith("VACUOUS")):
        # a counterexample is a real execution: it is reported even when the vacuity guard was not reached / not generated
        # (e.g. a violation harness whose handler is never called because the precondition check was compiled out)
        if res["status"] != "OK":
            res["note"] = res["reason"]
        res.update(status="FAILED", reason="")
    if res["status"] == "OK" and any(o["status"] not in ("SUCCESS",) for o in res["obligations"]):
        res.update(status="UNDECIDED", reason="obligation with status " + ",".join(sorted(set(o["status"] for o in res["obligations"]))))
    res["wall_s"] = round(time.time() - t0, 2)
    return res


# ------------------------------------------------------------------ trace -> replay inputs
def value_to_assigns(path, v, out):
    if not isinstance(v, dict):
        return
    n = v.get("name")
    if n == "struct":
        for m in v.get("members", []):
            if m["name"].startswith("$"):
                continue
            value_to_assigns(path + "." + m["name"], m["value"], out)
    elif n == "union":
        m = v.get("member") or (v.get("members") or [None])[0]
        if m:
            value_to_assigns(path + "." + m["name"], m["value"], out)
    elif n == "array":
        for e in v.get("elements", []):
            value_to_assigns("%s[%d]" % (path, e["index"]), e["value"], out)
    elif n in ("integer", "boolean", "float"):
        b = v.get("binary")
        if b is None:
            return
        w = len(b)
        if n == "float" or w > 64:
            out.append("{ unsigned char vf_b[%d] = {%s}; memcpy(&(%s), vf_b, %d); }" % (w // 8, ",".join(str(int(b[i - 8:i], 2)) for i in range(w, 0, -8)), path, w // 8))
        elif v.get("type") == "_Bool" or n == "boolean":
            out.append("%s = %d;" % (path, 1 if int(b, 2) != 0 else 0))
        elif w % 8 == 0 and w > 0:
            out.append("%s = (__typeof__(%s))0x%xULL;" % (path, path, int(b, 2)))
        else:
            out.append("%s = %d;" % (path, int(b, 2)))
    # pointers and unknown values: left as initialised by the harness


def scan_input_names(low, gdir, cdefs=()):
    inc = ["-I", os.path.join(ROOT, "harness"), "-I", os.path.join(ROOT, "tools/cxx2c"), "-I", low.dir, "-I", low.fam.dir]
    rc, out, err, _ = sh(["gcc", "-E", "-P", "-DVF_SCAN=1", "-DVF_DECLS_ONLY=1"] + inc + low.defs + list(cdefs) + [os.path.join(gdir, "tu.c")], cwd=gdir, timeout=120, mem=False)
    names = []
    for n in re.findall(r"VF_SCAN_INPUT\s+(\w+)\s*;", out):
        if n not in names:
            names.append(n)
    return names


def extract_inputs(trace, entry, names):
    vals = {}
    for s in trace:
        if s.get("stepType") != "assignment" or s.get("sourceLocation", {}).get("function") != entry:
            continue
        lhs = s.get("lhs", "")
        base = re.split(r"[.\[]", lhs, 1)[0]
        if base not in names:
            continue
        if lhs == base and base not in vals:
            a = []
            value_to_assigns("X", s.get("value"), a)
            vals[base] = a
        elif base not in vals:
            pass
    return names, vals


def summarize_inputs(vals):
    out = {}
    for k, a in vals.items():
        out[k] = [x.replace("X", k, 1) for x in a][:64]
    return out


# ------------------------------------------------------------------ native replay against the real C++ object code
def native_build(low, g, gdir, inputs_h, sanitize=True, real=True, cdefs=()):
    """builds gdir/replay: harness (C) + runtime, linked against the real g++-compiled driver (real=True) or the lowered C bodies"""
    san = ["-fsanitize=address,undefined", "-fno-sanitize-recover=undefined"] if sanitize else []
    inc = ["-I", os.path.join(ROOT, "harness"), "-I", os.path.join(ROOT, "tools/cxx2c"), "-I", low.dir, "-I", low.fam.dir]
    tu = os.path.join(gdir, "tu.c")
    open(os.path.join(gdir, "replay_inputs.h"), "w").write(inputs_h)
    objs = []
    cc = ["gcc", "-std=gnu11", "-O0", "-g", "-w", "-DVF_NATIVE=1", "-DHARNESS=h_" + g.name] + san + inc + low.defs + list(cdefs)
    cmd = cc + (["-DVF_DECLS_ONLY=1"] if real else []) + ["-include", os.path.join(gdir, "replay_inputs.h"), "-c", tu, "-o", os.path.join(gdir, "tu.o")]
    rc, out, err, _ = sh(cmd, cwd=gdir, timeout=300, mem=False)
    if rc != 0:
        return None, "native harness compile failed: " + err[-800:]
    objs.append(os.path.join(gdir, "tu.o"))
    cmd = cc + ["-c", os.path.join(ROOT, "harness/vf_native.c"), "-o", os.path.join(gdir, "rt.o")]
    rc, out, err, _ = sh(cmd, cwd=gdir, timeout=300, mem=False)
    if rc != 0:
        return None, "native runtime compile failed: " + err[-800:]
    objs.append(os.path.join(gdir, "rt.o"))
    if real:
        drv_o = os.path.join(low.dir, "driver.san.o" if sanitize else "driver.o")
        if not os.path.exists(drv_o):
            cmd = ["g++", "-O0", "-g", "-w", "-fno-inline", "-DVF_NATIVE=1", "-I", os.path.join(REPO, "include"), "-I", os.path.join(ROOT, "harness")] + san + low.cxxflags + ["-c", os.path.join(low.fam.dir, "driver.cpp"), "-o", drv_o]
            rc, out, err, _ = sh(cmd, cwd=gdir, timeout=600, mem=False)
            if rc != 0:
                return None, "native driver compile failed: " + err[-800:]
        objs.append(drv_o)
    exe = os.path.join(gdir, "replay" if real else "replay_low")
    rc, out, err, _ = sh(["g++"] + san + objs + ["-o", exe, "-lm"], cwd=gdir, timeout=300, mem=False)
    if rc != 0:
        return None, "native link failed: " + err[-1200:]
    return exe, ""


def inputs_header(names, vals):
    h = ["/* generated: counterexample inputs */", "#include <string.h>"]
    for n in names:
        a = vals.get(n, [])
        h.append("#define VF_LOAD_%s(X) do { %s } while (0)" % (n, " ".join(a)))
    return "\n".join(h) + "\n"


def native_replay(low, g, ob, gdir, cdefs=()):
    names, vals = extract_inputs(ob.get("trace", []), "h_" + g.name, scan_input_names(low, gdir, cdefs))
    info = {"inputs": summarize_inputs(vals), "confirmed": False, "native_output": ""}
    if g.mode == "contract":
        info["native_output"] = "contract-mode group: inputs are created by the requires clauses; see stand-in"
        return info
    exe, why = native_build(low, g, gdir, inputs_header(names, vals), cdefs=cdefs)
    if not exe:
        info["native_output"] = why
        return info
    env = dict(os.environ, ASAN_OPTIONS="detect_leaks=0:abort_on_error=0", UBSAN_OPTIONS="print_stacktrace=0")
    rc, out, err, _ = sh([exe], cwd=gdir, timeout=60, mem=False, env=env)
    txt = (out + "\n" + err)[-4000:]
    info["native_output"] = txt
    info["native_rc"] = rc
    if "REPLAY-FAIL" in txt or "AddressSanitizer" in txt or "runtime error:" in txt or "REPLAY-HANDLER-UNEXPECTED" in txt:
        info["confirmed"] = True
    return info


def coexec(low, g, r, n, seed):
    """co-execution (DESIGN 4.4): the harness, compiled natively and linked against the REAL g++ object code of the driver, is run on
    n seeded random inputs; every run whose assumptions hold must satisfy the assertions CBMC proved on the lowered C."""
    if g.mode == "contract" or g.attrs.get("coexec", "1") == "0":
        return None
    gdir = r["gdir"]
    names = scan_input_names(low, gdir, r.get("cdefs", ()))
    exe, why = native_build(low, g, gdir, inputs_header(names, {}), cdefs=r.get("cdefs", ()))
    if not exe:
        return {"status": "nobuild", "why": why[-300:]}
    env = dict(os.environ, ASAN_OPTIONS="detect_leaks=0:abort_on_error=0:allocator_may_return_null=1", UBSAN_OPTIONS="print_stacktrace=0")
    rc, out, err, dt = sh([exe, "fuzz", str(n), str(seed)], cwd=gdir, timeout=120, mem=False, env=env)
    m = re.search(r"FUZZ-END runs=(\d+) effective=(\d+) failed=(\d+)", out)
    res = {"status": "ok", "runs": 0, "effective": 0, "seconds": round(dt, 2)}
    if m:
        res.update(runs=int(m.group(1)), effective=int(m.group(2)))
        if m.group(3) != "0":
            res.update(status="mismatch", why=(out + err)[-600:])
    elif "AddressSanitizer" in err or "runtime error" in err:
        res.update(status="mismatch", why=err[-800:])
    else:
        res.update(status="norun", why=(out + err)[-300:])
    return res


# ------------------------------------------------------------------ the check of one property
def select(fams, prop, tier, only_group=None, only_family=None):
    sel = []
    for f in fams:
        if only_family and f.name != only_family:
            continue
        gs = [g for g in f.groups if (prop == "all" or prop in g.props) and (tier == "thorough" or g.tier != "thorough") and (not only_group or re.search(only_group, g.name))]
        if tier == "quick" and not only_group and prop in ("C02", "C05"):
            # C02 (safety) and C05 (handler-silent) ride on nearly every group: the quick tier runs a stated subset per family
            # (family.json "quick_filter": {"C02": regex, "C05": regex}; C05 default: the violation harnesses), thorough runs all
            flt = f.cfg.get("quick_filter", {}).get(prop)
            if flt is None and prop == "C05" and any(g.name.startswith("viol") for g in gs):
                flt = r"^viol"
            if flt is not None:
                gs = [g for g in gs if re.search(flt, g.name)]
        if gs:
            sel.append((f, gs))
    return sel


def coexec_wanted(tier, seed, low, g):
    mode = os.environ.get("VF_COEXEC", "all")
    if mode == "all":
        return True
    if mode == "none":
        return False
    h = int(hashlib.sha1(("%d/%s/%s" % (seed, low.tag, g.name)).encode()).hexdigest(), 16)
    return h % 4 == 0


def when_ok(g, variant):
    w = g.attrs.get("when")
    if not w:
        return True
    class Env(dict):
        def __missing__(self, k):   # an undefined variant macro counts as 0, like in the C preprocessor
            return 0
    env = Env(variant.get("defs", {}))
    try:
        return bool(eval(w, {"__builtins__": {}}, env))
    except Exception as e:
        raise Undecided("group %s: bad when=%s (%s)" % (g, w, e))


def obligations_for(res, prop):
    out = []
    for o in res["obligations"]:
        m = re.match(r"^(C\d\d):", o["desc"])
        # an assertion tagged "Cxx:" counts for that property only — provided the group is registered for Cxx at all;
        # otherwise (e.g. the handler-silent obligation in a group that does not list C05) it counts for the group's properties
        # exception: the handler-silent obligation ("C05: assert_handler fired although ...") also counts for the group's other
        # properties — a valid call that ends in the handler did not deliver the specified result either
        if m and m.group(1) != prop and prop != "all" and m.group(1) in res.get("props", []) and not o["desc"].startswith("C05: assert_handler fired"):
            continue
        out.append(o)
    return out


def check_property(prop, tier, seed, keep=False, only_group=None, only_family=None, quiet=False, write_ev=True):
    t0 = time.time()
    work = os.path.join(ROOT, ".work", "%s_%d" % (prop, os.getpid()))
    shutil.rmtree(work, ignore_errors=True)
    # work directories of earlier runs of this property whose process is gone (killed by an outer time limit) are removed
    for d in glob.glob(os.path.join(ROOT, ".work", "%s_[0-9]*" % prop)):
        try:
            pid = int(d.rsplit("_", 1)[1])
            os.kill(pid, 0)
        except (ValueError, IndexError, PermissionError):
            continue
        except ProcessLookupError:
            shutil.rmtree(d, ignore_errors=True)
    os.makedirs(work)
    lines, undecided, violations, known_hits = [], [], [], []
    results = []
    lowered = []
    try:
        known, fixed = load_known()
        fams = all_families(only_family, undecided)
        sel = select(fams, prop, tier, only_group, only_family)
        if not sel:
            raise Undecided("no obligation groups registered for " + prop)
        overlays = make_overlays(work, sorted(set(f.cfg.get("overlay", "std") for f, _ in sel)))
        jobs = []
        with cf.ThreadPoolExecutor(max_workers=NCPU) as ex:
            lf = {}
            for f, gs in sel:
                for v in f.variants(tier):
                    lf[ex.submit(Lowered, f, v, work, overlays, known)] = (f, gs, v)
            for fu in cf.as_completed(lf):
                f, gs, v = lf[fu]
                try:
                    low = fu.result()
                except Undecided as e:
                    undecided.append(str(e))
                    continue
                lowered.append(low)
                for g in gs:
                    # a variant may name the groups it is for ("groups": regex): cheap extra instantiations in the quick tier
                    if v.get("groups") and not re.search(v["groups"], g.name):
                        continue
                    if when_ok(g, v):
                        for cell in split_cells(g, tier):
                            jobs.append((low, g, None, cell))
            # probes for listed known findings: does the witness class still fail?
            probe_lows = {}
            for low, g, _, cell in list(jobs):
                for fid in g.knowns:
                    # a probe only informs the property the finding is recorded for
                    if fid in known and (prop == "all" or known[fid]["property"] == prop or prop in known[fid]["also"]):
                        key = (low.tag, fid)
                        if key not in probe_lows:
                            try:
                                probe_lows[key] = Lowered(low.fam, low.variant, work, overlays, known, probe=fid)
                            except Undecided as e:
                                undecided.append(str(e))
                                continue
                        jobs.append((probe_lows[key], g, fid, cell))
            jobs.sort(key=lambda j: -int(j[1].attrs.get("cost", "1")))
            futs = {ex.submit(run_group, low, g, tier, keep, cell): (low, g, fid) for low, g, fid, cell in jobs}
            for fu in cf.as_completed(futs):
                low, g, fid = futs[fu]
                try:
                    r = fu.result()
                except Exception as e:  # noqa
                    r = {"group": g.name, "family": low.tag, "kind": g.kind, "mode": g.mode, "props": g.props, "obligations": [], "status": "UNDECIDED", "reason": "engine error: %r" % e, "cmds": []}
                r["probe"] = fid
                r["_low"], r["_g"] = low, g
                if r["status"] == "OK" and not fid and coexec_wanted(tier, seed, low, g):
                    try:
                        r["coexec"] = coexec(low, g, r, 300 if tier == "quick" else 3000, seed)
                    except Exception as e:  # noqa
                        r["coexec"] = {"status": "norun", "why": repr(e)}
                    if r["coexec"] and r["coexec"]["status"] == "mismatch":
                        r["status"] = "UNDECIDED"
                        r["reason"] = "CO-EXECUTION MISMATCH: the real C++ object code violates an assertion that was proved on the lowered C (extractor or harness defect): " + r["coexec"].get("why", "")[-400:]
                results.append(r)
                if not quiet:
                    sys.stderr.write("  [%s] %s.%s%s: %s %d obligations %.1fs %s\n" % (prop, low.tag, g.name, " (probe %s)" % fid if fid else "", r["status"], len(r["obligations"]), r.get("wall_s", 0), r.get("reason", "")[:300]))
        # ---- triage
        rdir = os.environ.get("VF_REPLAY_DIR", os.path.join(ROOT, "replays"))
        os.makedirs(rdir, exist_ok=True)
        for r in sorted(results, key=lambda r: (r["family"], r["group"], r["probe"] or "")):
            low, g, fid = r["_low"], r["_g"], r["probe"]
            obs = obligations_for(r, prop)
            if fid:
                if known[fid]["property"] != prop and prop not in known[fid]["also"] and prop != "all":
                    continue
                if any(o["status"] == "FAILURE" for o in obs):
                    msg = "KNOWN-FINDING: property=%s %s [id=%s]" % (prop, known[fid]["what"], fid)
                    if msg not in known_hits:
                        known_hits.append(msg)
                elif r["status"] == "UNDECIDED":   # a probe is informational: it never decides the property
                    lines.append("NOTE: probe of known finding %s in %s.%s gave no answer (%s)" % (fid, r["family"], r["group"], r["reason"][:120]))
                else:
                    lines.append("NOTE: witness class of known finding %s does not fail in %s.%s" % (fid, r["family"], r["group"]))
                continue
            if r["status"] == "UNDECIDED":
                undecided.append("%s.%s: %s" % (r["family"], r["group"], r["reason"]))
                continue
            failed = [o for o in obs if o["status"] == "FAILURE"]
            if failed:
                gdir = r["gdir"]
                rp = os.path.join(rdir, "%s.%s.%s.json" % (prop, r["family"], re.sub(r"[^\w.=-]", "_", r["group"])))
                rep = native_replay(low, g, failed[0], gdir, r.get("cdefs", ()))
                standin = g.attrs.get("standin")
                if not rep["confirmed"] and standin:
                    sg = [x for x in low.fam.groups if x.name == standin]
                    if sg:
                        sr = run_group(low, sg[0], tier, keep)
                        sf = [o for o in sr["obligations"] if o["status"] == "FAILURE"]
                        rep["standin"] = {"group": standin, "status": sr["status"]}
                        if sf:
                            srep = native_replay(low, sg[0], sf[0], sr["gdir"])
                            rep["standin"].update(srep)
                            rep["confirmed"] = srep["confirmed"]
                doc = {"property": prop, "group": "%s.%s" % (r["family"], r["group"]), "kind": r["kind"], "mode": r["mode"],
                       "failed_obligations": [{k: o[k] for k in ("id", "desc", "loc", "fn")} for o in failed],
                       "replay": rep, "commands": r["cmds"],
                       "family": low.fam.name, "variant": low.variant, "harness": g.name,
                       "verifier_output": [{"obligation": o["id"], "description": o["desc"], "status": "FAILURE", "location": o["loc"],
                                            "trace_tail": [{"lhs": s.get("lhs"), "value": (s.get("value") or {}).get("data"), "fn": s.get("sourceLocation", {}).get("function"), "line": s.get("sourceLocation", {}).get("line")} for s in o.get("trace", []) if s.get("stepType") == "assignment" and not s.get("hidden")][-60:]} for o in failed[:3]]}
                json.dump(doc, open(rp, "w"), indent=1)
                violations.append("VIOLATION property=%s replay=%s%s" % (prop, rp, "" if rep["confirmed"] else " no-failing-input-found"))
    except Undecided as e:
        undecided.append(str(e))
    wall = time.time() - t0
    ev = write_evidence(prop, tier, seed, results, lowered, undecided, violations, known_hits, wall, write_ev)
    if not keep:
        shutil.rmtree(work, ignore_errors=True)
    for l in known_hits + lines:
        print(l)
    for v in violations:
        print(v)
    for u in undecided:
        print("UNDECIDED property=%s %s" % (prop, u.replace("\n", " ")[:1200]))
    print("%s %s: %d obligations, %d discharged (proved tiers), %d bounded checks, %d violation(s), %d undecided, %.1fs" % (
        prop, tier, ev["coverage"]["obligations"], ev["coverage"]["discharged"], ev["coverage"]["bounded"]["checks"], len(violations), len(undecided), wall))
    if violations:
        return 1
    if undecided:
        return 2
    return 0


def write_evidence(prop, tier, seed, results, lowered, undecided, violations, known_hits, wall, write_ev=True):
    from . import props as P
    main = [r for r in results if not r.get("probe")]
    proved_obl = proved_ok = b_checks = b_ok = 0
    by_backend, by_kind = {}, {}
    samples, enforced, groups = [], [], []
    for r in main:
        obs = obligations_for(r, prop)
        ok = sum(1 for o in obs if o["status"] == "SUCCESS")
        if r["kind"] in PROVED_KINDS:
            proved_obl += len(obs)
            proved_ok += ok
        else:
            b_checks += len(obs)
            b_ok += ok
        be = by_backend.setdefault(r.get("backend", "minisat"), {"groups": 0, "obligations": 0, "seconds": 0.0})
        be["groups"] += 1
        be["obligations"] += len(obs)
        be["seconds"] = round(be["seconds"] + r.get("solver_s", 0), 2)
        bk = by_kind.setdefault(r["kind"], {"groups": 0, "obligations": 0, "discharged": 0})
        bk["groups"] += 1
        bk["obligations"] += len(obs)
        bk["discharged"] += ok
        g = r["_g"]
        groups.append({"group": "%s.%s" % (r["family"], r["group"]), "kind": r["kind"], "mode": r["mode"], "status": r["status"], "obligations": len(obs), "discharged": ok,
                       "solver_s": r.get("solver_s", 0), "bound": g.attrs.get("bound", "unwind=" + g.attrs.get("unwind", "-")) if r["kind"] == "B" else None})
        if r["mode"] == "contract":
            low_ = r["_low"]
            byalias = {a: m for a, m in low_.winfo.get("aliases", {}).items()}
            bymangled = {c["mangled"]: c for c in low_.winfo.get("contracts", [])}
            for f in g.attrs.get("enforce", "").split(","):
                if f:
                    c = bymangled.get(byalias.get(f, f))
                    enforced.append("%s @ %s [%s]" % (c["function"], c["loc"].replace(REPO + "/", ""), r["family"]) if c else "%s (%s)" % (f, r["family"]))
        if len(samples) < 6 and obs:
            funcs = [o for o in obs if "assertion" in o["id"] or "postcondition" in o["id"]] or obs
            o = funcs[0]
            samples.append({"obligation": o["id"], "clause": o["desc"], "status": o["status"], "location": o["loc"]})
    cx = [r["coexec"] for r in main if r.get("coexec")]
    coex = {"groups": len(cx), "runs": sum(c.get("runs", 0) for c in cx), "effective_runs": sum(c.get("effective", 0) for c in cx),
            "mismatches": sum(1 for c in cx if c["status"] == "mismatch"), "not_runnable": sum(1 for c in cx if c["status"] in ("nobuild", "norun")),
            "note": "harness compiled natively and linked against the REAL g++ object code of the driver, run on seeded random inputs (ASan+UBSan); effective = runs whose assumptions held"}
    checker = next((" && ".join(r["cmds"]) for r in main if r["cmds"]), "goto-cc && goto-instrument --dfcc && cbmc")
    checker = checker.replace(os.path.join(ROOT, ".work"), ".work")
    meta = P.PROPS.get(prop, {})
    lowfn = sum(len(l.functions) for l in lowered)
    repo_fns = sorted(set("%s @ %s" % (f["pretty"], f["loc"].replace(REPO + "/", "")) for l in lowered for f in l.functions if "/include/etl/" in f["loc"]))
    ev = {
        "property_id": prop, "tier": tier, "seed": seed, "level": "proof",
        "coverage": {
            "obligations": proved_obl, "discharged": proved_ok,
            "checker_cmd": checker[:3000], "trusted_base": TRUSTED_BASE + meta.get("trusted_extra", []),
            "bounded": {"checks": b_checks, "passed": b_ok, "note": "tier-B groups (input length / value window capped, see groups[].bound); never counted in obligations/discharged"},
            "by_backend": by_backend, "by_tier_kind": by_kind, "co_execution": coex,
            "functions_under_enforced_contract": sorted(set(enforced)),
            "tetl_functions_lowered_and_checked": len(repo_fns),
            "tetl_functions_sample": repo_fns[:40],
            "lowered_functions_total": lowfn,
            "instantiations": sorted(set(l.tag for l in lowered)),
            "groups": sorted(groups, key=lambda x: x["group"]),
            "samples": samples,
            "undecided": undecided[:50], "known_findings_reported": known_hits,
            "not_covered": meta.get("not_covered", []),
            "exhaustive": False,
            "explanation": meta.get("explanation", ""),
        },
        "assumptions": meta.get("assumptions", []) + [
            "dropped by the lowering (checked by the C++ compiler instead): constexpr/noexcept/attributes/access control/cv-qualifiers/overload resolution/static_assert",
            "integer->integer conversion reports of --conversion-check are filtered (defined behaviour in C++20)",
            "template arguments (capacities, widths, element types) are enumerated, not quantified: see coverage.instantiations",
        ],
        "wall_s": round(wall, 2), "violations": len(violations),
    }
    if prop == "C05":
        # coverage accounting for the run-time contract checks: sites in the tree vs. violation harnesses that drive them
        sites = 0
        for dp, _, fs in os.walk(os.path.join(REPO, "include")):
            for f in fs:
                if f.endswith(".hpp"):
                    try:
                        sites += len(re.findall(r"\bTETL_PRECONDITION(?:_SAFE)?\(", open(os.path.join(dp, f)).read()))
                    except OSError:
                        pass
        ev["coverage"]["precondition_sites_in_tree"] = sites
        ev["coverage"]["violation_harness_groups"] = sorted(set(x["group"] for x in groups if ".viol" in x["group"] or "viol_" in x["group"]))
    if proved_obl == 0 or proved_ok != proved_obl or undecided:
        # a proof-level claim needs every obligation discharged; otherwise say so honestly
        ev["level"] = "other"
        ev["coverage"]["explanation"] = ("run did not discharge every obligation (violations=%d undecided=%d); " % (len(violations), len(undecided))) + ev["coverage"]["explanation"]
        ev["coverage"]["evaluations"] = max(1, proved_obl + b_checks)
        ev["coverage"]["distinct_nontrivial"] = max(2, proved_ok + b_ok)
    if write_ev:
        os.makedirs(os.path.join(ROOT, "evidence"), exist_ok=True)
        json.dump(ev, open(os.path.join(ROOT, "evidence", prop + ".json"), "w"), indent=1)
    return ev
