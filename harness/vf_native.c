/* native runtime for replay / co-execution builds of a harness (see vf.h) */
#include <stdio.h>
#include <stdlib.h>
#include <string.h>
#include <setjmp.h>
static jmp_buf vf_jb;
static int vf_fuzz;
int vf_failed;
int vf_quiet;
int vf_assume_violated;
static unsigned long long vf_rng = 0x9E3779B97F4A7C15ULL;
static unsigned long long vf_digest = 1469598103934665603ULL;
static int vf_random_inputs;
void vf_exit(void)
{
    if (vf_fuzz) longjmp(vf_jb, 1);
    printf("REPLAY-END failed=%d assume_violated=%d digest=%016llx\n", vf_failed, vf_assume_violated, vf_digest);
    fflush(stdout);
    exit(vf_failed ? 10 : (vf_assume_violated ? 3 : 0));
}
void vf_fail(const char *d)
{
    vf_failed = 1;
    printf("REPLAY-FAIL %s\n", d);
}
void vf_rand_bytes(void *p, unsigned long n)
{
    unsigned char *b = (unsigned char *)p;
    if (vf_random_inputs && (n == 4 || n == 8)) {
        /* scalars: one draw in four is a boundary pattern (zeros, signed zero, infinities, NaNs, denormal, limits) */
        static const unsigned long long special[] = {0ULL, 1ULL, 0x80000000ULL, 0x7f800000ULL, 0xff800000ULL, 0x7fc00000ULL, 0xffc00000ULL, 0x00000001ULL, 0x7fffffffULL,
            0xffffffffULL, 0x3f000000ULL, 0xbf000000ULL, 0x4b000000ULL, 0x5f000000ULL, 0x8000000000000000ULL, 0x7ff0000000000000ULL, 0xfff0000000000000ULL,
            0x7ff8000000000000ULL, 0x7fffffffffffffffULL, 0xffffffffffffffffULL, 0x3fe0000000000000ULL, 0x4330000000000000ULL, 0x43e0000000000000ULL};
        vf_rng ^= vf_rng << 13; vf_rng ^= vf_rng >> 7; vf_rng ^= vf_rng << 17;
        if (((vf_rng >> 40) & 3) == 0) {
            unsigned long long v = special[(vf_rng >> 20) % (sizeof special / sizeof special[0])];
            memcpy(p, &v, n);
            return;
        }
    }
    for (unsigned long i = 0; i < n; ++i) {
        if (!vf_random_inputs) { b[i] = 0; continue; }
        vf_rng ^= vf_rng << 13; vf_rng ^= vf_rng >> 7; vf_rng ^= vf_rng << 17;
        /* bias towards small values so that representation invariants are often satisfied */
        unsigned r = (unsigned)(vf_rng >> 33);
        b[i] = (r & 3) == 0 ? (unsigned char)(r >> 8) : (unsigned char)((r >> 8) & 7);
    }
}
void vf_observe(const void *p, unsigned long n)
{
    const unsigned char *b = (const unsigned char *)p;
    for (unsigned long i = 0; i < n; ++i) vf_digest = (vf_digest ^ b[i]) * 1099511628211ULL;
}
void HARNESS(void);
int main(int argc, char **argv)
{
    if (argc > 3 && !strcmp(argv[1], "fuzz")) {
        /* co-execution: run the harness on seeded random inputs against the REAL object code; every run whose assumptions hold
         * must satisfy the assertions CBMC proved on the lowered C */
        long n = atol(argv[2]), eff = 0, i;
        unsigned long long seed = strtoull(argv[3], 0, 10);
        vf_fuzz = 1; vf_random_inputs = 1; vf_quiet = 1;
        for (i = 0; i < n && !vf_failed; ++i) {
            vf_rng = (seed + 1) * 0x2545F4914F6CDD1DULL + (unsigned long long)i * 0x9E3779B97F4A7C15ULL + 1;
            vf_assume_violated = 0;
            if (!setjmp(vf_jb)) HARNESS();
            if (!vf_assume_violated) ++eff;
            if (vf_failed) printf("FUZZ-FAIL iteration=%ld\n", i);
        }
        printf("FUZZ-END runs=%ld effective=%ld failed=%d\n", i, eff, vf_failed);
        return vf_failed ? 10 : 0;
    }
    if (argc > 1) { vf_random_inputs = 1; vf_rng ^= strtoull(argv[1], 0, 10) * 0x2545F4914F6CDD1DULL + 1; }
    HARNESS();
    vf_exit();
    return 0;
}
