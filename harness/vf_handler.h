/* vf_handler.h — the library's own extension point etl::assert_handler<assert_msg> (TETL_ENABLE_CUSTOM_ASSERT_HANDLER) as seen by
 * the harnesses.  Include it from the family's harness.c (after the generated code, i.e. anywhere in harness.c).
 *
 *   vf_expect_handler == 0 (default): the call respects the documented precondition, so the handler must NOT run
 *                                     ("handler-silent", second half of C05);
 *   vf_expect_handler == 1          : a V-harness drives a precondition violation; the handler must be reached (vacuity guard),
 *                                     gets a usable location, and — when the family defines VF_HANDLER_CHECK() — sees the object
 *                                     unmodified.  The harness puts VF_NORETURN_EXPECTED() after the call.
 * The handler is modelled as non-returning, as [[noreturn]] promises. */
#ifndef VF_HANDLER_H
#define VF_HANDLER_H
int vf_expect_handler;
int vf_handler_fired;
#ifndef VF_HANDLER_CHECK
#define VF_HANDLER_CHECK() ((void)0)
#endif
void _ZN3etl14assert_handlerINS_10assert_msgEEEvRKT_(struct etl_assert_msg *m)
{
    vf_handler_fired = 1;
#ifdef VF_NATIVE
    if (!vf_quiet) printf("REPLAY-HANDLER line=%d expected=%d\n", m->line, vf_expect_handler);
    if (!vf_expect_handler) vf_fail("C05: assert_handler fired although the call respects the documented precondition");
    else { VF_HANDLER_CHECK(); }
    vf_exit();
#else
    if (vf_expect_handler) {
        __CPROVER_assert(m->line > 0 && m->file != 0, "C05: handler receives a usable location (file, line)");
        VF_HANDLER_CHECK();
        __CPROVER_assert(0, "VACUITY: the violating call reaches the assertion handler");
    } else {
        __CPROVER_assert(0, "C05: assert_handler fired although the call respects the documented precondition");
    }
    __CPROVER_assume(0);
#endif
}
/* after a call whose arguments violate the documented precondition */
#define VF_NORETURN_EXPECTED() __CPROVER_assert(0, "C05: call with violated precondition returned normally instead of reaching the assertion handler")
#endif
