/* vf.h — harness prelude shared by every lemma harness and contract harness.
 *
 * The same harness text is used in two worlds:
 *   (a) under CBMC, against the C lowered from /repo by cxx2c (function bodies included);
 *   (b) natively (-DVF_NATIVE -DVF_DECLS_ONLY), linked against the REAL C++ object code that g++ produced from the
 *       driver and the unpatched headers: the lowered file then only contributes struct layouts and prototypes, the
 *       mangled names resolve to the real instantiations.  This is the replay / co-execution build.
 *
 * Inputs are declared with VF_INPUT / VF_INPUT_ARR / VF_BUF so that the replay generator can find them in the CBMC trace.
 */
#ifndef VF_H
#define VF_H

#ifdef VF_NATIVE
#include <stdio.h>
#include <stdlib.h>
#include <string.h>
extern int vf_failed;
extern int vf_assume_violated;
void vf_fail(const char *d);
void vf_rand_bytes(void *p, unsigned long n);
extern int vf_quiet;
#define __CPROVER_assume(c)  do { if (!(c)) { vf_assume_violated = 1; if (!vf_quiet) printf("REPLAY-ASSUME-VIOLATED %s\n", #c); vf_exit(); } } while (0)
#define __CPROVER_assert(c, d) do { if (!(c)) vf_fail(d); } while (0)
#define __CPROVER_cover(c) ((void)0)
void vf_exit(void);
#define VF_INPUT(T, name) T name; vf_rand_bytes(&name, sizeof name); VF_LOAD_##name(name)
#define VF_INPUT_ARR(T, name, N) T name[N]; vf_rand_bytes(name, sizeof name); VF_LOAD_##name(name)
#define VF_ALLOC(n) malloc((n) ? (n) : 1)   /* replay builds use ASan: a one-past access is reported */
#define VF_REACH() ((void)0)
#define VF_OBS(p, n) vf_observe((p), (n))
void vf_observe(const void *p, unsigned long n);
#elif defined(VF_SCAN)
/* gcc -E -DVF_SCAN: lets the replay generator see the input names after macro expansion */
#define VF_INPUT(T, name) VF_SCAN_INPUT name;
#define VF_INPUT_ARR(T, name, N) VF_SCAN_INPUT name;
#define VF_ALLOC(n) 0
#define VF_REACH()
#define VF_OBS(p, n)
#else
#define VF_INPUT(T, name) T name
#define VF_INPUT_ARR(T, name, N) T name[N]
void *malloc(__CPROVER_size_t);
#define VF_ALLOC(n) malloc(n)
/* must FAIL: proves that the end of the harness is reachable, i.e. that its assumptions are not contradictory */
#define VF_REACH() __CPROVER_assert(0, "VACUITY: end of harness is reachable")
#define VF_OBS(p, n) ((void)0)
#endif

/* exact-size buffer of n elements (n symbolic, n <= MAX): no terminator and no padding behind the last element */
#define VF_BUF(T, name, n, MAX)                                                                                        \
    VF_INPUT_ARR(T, name##_in, (MAX) + 1);                                                                             \
    __CPROVER_assume((unsigned long)(n) <= (unsigned long)(MAX));                                                      \
    T *name = (T *)VF_ALLOC((unsigned long)(n) * sizeof(T));                                                           \
    for (unsigned long vf_i_##name = 0; vf_i_##name < (unsigned long)(n); ++vf_i_##name) name[vf_i_##name] = name##_in[vf_i_##name]

/* an uninitialised _Bool may carry a non-canonical representation under CBMC: always derive it from a byte */
#define VF_INPUT_BOOL(name) VF_INPUT(unsigned char, name##_raw); _Bool name = (_Bool)(name##_raw & 1)

#define VF_ASSERT(c, d) __CPROVER_assert((c), d)
#define VF_ASSUME(c) __CPROVER_assume(c)

/* known findings (known_findings.txt): when finding <id> is listed, -DVF_KF_<id> excludes exactly its witness class so that
 * every OTHER violation of the same obligation is still reported; -DVF_KFPROBE_<id> restricts to the witness class to show
 * that the finding still reproduces. */
#define VF_KNOWN_EXCL(w) __CPROVER_assume(!(w))
#define VF_KNOWN_ONLY(w) __CPROVER_assume(w)

/* contract shorthands (clauses go through the C preprocessor) */
#define OFF(p) __CPROVER_POINTER_OFFSET(p)
#define SAME(p, q) __CPROVER_same_object((p), (q))
#define OLD(e) __CPROVER_old(e)
#define ENTRY(e) __CPROVER_loop_entry(e)
#define RET __CPROVER_return_value
#define FRESH(p, n) __CPROVER_is_fresh((p), (n))
unsigned long nondet_ulong(void);

typedef unsigned long vf_size_t;
typedef __int128 vf_i128;
typedef unsigned __int128 vf_u128;

#endif
